#!/usr/bin/env python3
"""Shard runner / aggregator / evidence writer for the omaha-client runtime-monitoring checks.

./check <ID> [--tier quick|thorough] [--seed N] [--replay FILE] [--layers plain,asan,miri,tsan]
             [--scale F] [--shards N]

Verdicts are three-valued:
  exit 0  held on everything explored (KNOWN-FINDING lines may be printed)
  exit 1  violated: prints `VIOLATION property=<id> replay=<path>` (one per distinct signature)
  exit 2  inconclusive: prints `INCONCLUSIVE property=<id> reason=...` (never a VIOLATION line)
"""
import argparse
import fcntl
import hashlib
import importlib
import json
import os
import shutil
import subprocess
import sys
import time

VERIF = os.path.dirname(os.path.dirname(os.path.abspath(__file__)))
# The selftest (mutant runs on a scratch copy of /repo) redirects these; the registered checks never do.
HARNESS = os.environ.get("VERIF_HARNESS_DIR", os.path.join(VERIF, "harness"))
WORK = os.environ.get("VERIF_WORK_DIR", os.path.join(VERIF, "work"))
REPLAYS = os.environ.get("VERIF_REPLAYS_DIR", os.path.join(VERIF, "replays"))
EVIDENCE = os.environ.get("VERIF_EVIDENCE_DIR", os.path.join(VERIF, "evidence"))
KNOWN = os.path.join(VERIF, "known_findings.txt")
TARGET = "x86_64-unknown-linux-gnu"

sys.path.insert(0, os.path.join(VERIF, "lib"))
from props import PROPS  # noqa: E402


def log(*a):
    print(*a, file=sys.stderr, flush=True)


def env_offline():
    e = dict(os.environ)
    e["CARGO_NET_OFFLINE"] = "true"
    e["CARGO_TARGET_DIR"] = os.path.join(WORK, "target")
    e.setdefault("CARGO_TERM_COLOR", "never")
    return e


class BuildError(Exception):
    pass


def _run_build(cmd, env, what):
    os.makedirs(WORK, exist_ok=True)
    lock = open(os.path.join(WORK, ".build.lock"), "w")
    fcntl.flock(lock, fcntl.LOCK_EX)
    try:
        t0 = time.time()
        p = subprocess.run(cmd, cwd=HARNESS, env=env, stdout=subprocess.PIPE, stderr=subprocess.STDOUT, text=True)
        if p.returncode != 0:
            tail = "\n".join(p.stdout.splitlines()[-40:])
            raise BuildError(f"{what} build failed:\n{tail}")
        log(f"[build] {what}: {time.time() - t0:.1f}s")
    finally:
        fcntl.flock(lock, fcntl.LOCK_UN)
        lock.close()


def build(layer):
    """Build the harness (and therefore /repo's crates from the current working tree) for a layer.
    Returns the command prefix that runs the harness."""
    env = env_offline()
    if layer in ("plain", "stress"):
        _run_build(["cargo", "build", "--offline", "--profile", "verif"], env, "plain")
        return [os.path.join(WORK, "target", "verif", "harness")], env
    if layer == "asan":
        env["RUSTFLAGS"] = "-Zsanitizer=address -Cforce-frame-pointers=yes"
        tdir = os.path.join(WORK, "target-asan")
        _run_build(["cargo", "+nightly", "build", "--offline", "--profile", "verif", "--target", TARGET,
                    "--target-dir", tdir], env, "asan")
        renv = env_offline()
        renv["ASAN_OPTIONS"] = "halt_on_error=1:abort_on_error=1:detect_leaks=0:symbolize=1"
        return [os.path.join(tdir, TARGET, "verif", "harness")], renv
    if layer == "tsan":
        env["RUSTFLAGS"] = "-Zsanitizer=thread"
        tdir = os.path.join(WORK, "target-tsan")
        _run_build(["cargo", "+nightly", "build", "--offline", "-Zbuild-std", "--profile", "verif", "--target", TARGET,
                    "--target-dir", tdir], env, "tsan")
        renv = env_offline()
        renv["TSAN_OPTIONS"] = "halt_on_error=1:exitcode=66:second_deadlock_stack=1"
        return [os.path.join(tdir, TARGET, "verif", "harness")], renv
    if layer == "miri":
        tdir = os.path.join(WORK, "target-miri")
        env["MIRIFLAGS"] = "-Zmiri-disable-isolation"
        # `cargo miri run` builds and runs; build once with a no-op property so shards start fast.
        cmd = ["cargo", "+nightly", "miri", "run", "--offline", "--target-dir", tdir, "--", "NOOP"]
        _run_build(cmd, env, "miri")
        return ["cargo", "+nightly", "miri", "run", "--offline", "-q", "--target-dir", tdir, "--"], env
    raise BuildError(f"unknown layer {layer}")


def run_shards(prefix, env, pid, tier, seed, nshards, scale, layer, outdir, timeout, extra_args, cwd):
    procs = []
    for i in range(nshards):
        out = os.path.join(outdir, f"{layer}-{i}.json")
        if os.path.exists(out):
            os.remove(out)
        cmd = prefix + [pid, "--tier", tier, "--seed", str(seed), "--shard", f"{i}/{nshards}",
                        "--out", out, "--scale", str(scale), "--layer", layer] + extra_args
        errp = os.path.join(outdir, f"{layer}-{i}.stderr")
        p = subprocess.Popen(cmd, cwd=cwd, env=env, stdout=subprocess.DEVNULL, stderr=open(errp, "w"))
        procs.append((i, p, out, errp, cmd))
    results = []
    deadline = time.time() + timeout
    for i, p, out, errp, cmd in procs:
        try:
            rc = p.wait(timeout=max(1, deadline - time.time()))
            timed_out = False
        except subprocess.TimeoutExpired:
            p.kill()
            p.wait()
            rc, timed_out = -9, True
        results.append(dict(shard=i, rc=rc, out=out, err=errp, cmd=cmd, timed_out=timed_out))
    return results


def load_known():
    """Lines `open: property=<id> signature=<sig> :: <what>` are open findings; `fixed:` lines suppress nothing."""
    known = []
    if os.path.exists(KNOWN):
        for line in open(KNOWN):
            line = line.strip()
            if not line.startswith("open:"):
                continue
            body = line[len("open:"):].strip()
            head, _, what = body.partition("::")
            head = head.strip()
            if not head.startswith("property="):
                continue
            prop, _, rest = head[len("property="):].partition(" ")
            rest = rest.strip()
            if not rest.startswith("signature="):
                continue
            known.append(dict(status="open", property=prop.strip(), signature=rest[len("signature="):].strip(), what=what.strip()))
    return known


def merge(pid, layer_results):
    m = dict(evaluations=0, shapes=set(), trivial=0, rules={}, samples=[], violations=[], interleavings=set(),
             counters={}, notes=[], inconclusive=[], exhaustive=None, rule_text="", required=[], assumptions=[],
             layers={})
    for layer, results in layer_results.items():
        lay = dict(shards=len(results), evaluations=0, reports=0)
        for r in results:
            if r.get("data") is None:
                continue
            d = r["data"]
            lay["evaluations"] += d["evaluations"]
            m["evaluations"] += d["evaluations"]
            m["shapes"].update(d["shapes"])
            m["trivial"] += d["trivial_shapes"]
            for k, v in d["rules"].items():
                m["rules"][k] = m["rules"].get(k, 0) + v
            for k, v in d["counters"].items():
                m["counters"][k] = m["counters"].get(k, 0) + v
            for s in d["samples"]:
                if len(m["samples"]) < 8:
                    m["samples"].append(s)
            for v in d["violations"]:
                v["layer"] = layer
                v["shard"] = r["shard"]
                m["violations"].append(v)
            m["interleavings"].update(d["interleavings"])
            m["notes"].extend(d["notes"])
            m["inconclusive"].extend(d["inconclusive"])
            if d.get("exhaustive") is not None and layer == "plain":
                m["exhaustive"] = d["exhaustive"] if m["exhaustive"] is None else (m["exhaustive"] and d["exhaustive"])
            if d.get("rule_text"):
                m["rule_text"] = d["rule_text"]
            for x in d.get("required", []):
                if x not in m["required"]:
                    m["required"].append(x)
            for x in d.get("assumptions", []):
                if x not in m["assumptions"]:
                    m["assumptions"].append(x)
        m["layers"][layer] = lay
    return m


def main():
    ap = argparse.ArgumentParser()
    ap.add_argument("prop")
    ap.add_argument("--tier", default=os.environ.get("VERIF_TIER", "quick"))
    ap.add_argument("--seed", type=int, default=None)
    ap.add_argument("--replay", default=None)
    ap.add_argument("--layers", default=None)
    ap.add_argument("--scale", type=float, default=1.0)
    ap.add_argument("--shards", type=int, default=None)
    a = ap.parse_args()
    pid = a.prop
    if pid not in PROPS:
        log(f"unknown property {pid}")
        return 3
    cfg = PROPS[pid]
    tier = a.tier if a.tier in ("quick", "thorough") else "quick"
    seed = a.seed if a.seed is not None else int(os.environ.get("VERIF_SEED", "1") or 1)
    t0 = time.time()
    os.makedirs(REPLAYS, exist_ok=True)
    os.makedirs(EVIDENCE, exist_ok=True)
    outdir = os.path.join(WORK, "out", f"{pid}-{tier}-{seed}-{os.getpid()}")
    os.makedirs(outdir, exist_ok=True)

    if a.layers:
        layers = a.layers.split(",")
    else:
        layers = ["plain"] + (cfg.get("thorough_layers", []) if tier == "thorough" else [])

    extra = []
    if a.replay:
        extra = ["--replay", os.path.abspath(a.replay)]
        layers = ["plain"]

    layer_results = {}
    inconclusive = []
    hard_violations = []  # abnormal terminations
    for layer in layers:
        try:
            prefix, env = build(layer)
        except BuildError as e:
            log(str(e))
            inconclusive.append(f"build-failed layer={layer}")
            continue
        lcfg = cfg.get("layer_cfg", {}).get(layer, {})
        nshards = 1 if a.replay else (a.shards or lcfg.get("shards", cfg.get("shards", 16)))
        scale = a.scale * lcfg.get("scale", 1.0)
        timeout = lcfg.get("timeout", cfg.get("timeout_thorough" if tier == "thorough" else "timeout_quick", 900))
        largs = list(extra)
        for k, v in lcfg.get("env", {}).items():
            env = dict(env)
            env[k] = v
        for k, v in lcfg.get("args", {}).items():
            largs += [f"--{k}", str(v)]
        t1 = time.time()
        results = run_shards(prefix, env, pid, tier, seed, nshards, scale, layer, outdir, timeout, largs, HARNESS)
        log(f"[run] {pid} layer={layer} shards={nshards}: {time.time() - t1:.1f}s")
        for r in results:
            r["data"] = None
            if r["timed_out"]:
                inconclusive.append(f"watchdog layer={layer} shard={r['shard']}")
                continue
            if os.path.exists(r["out"]):
                try:
                    r["data"] = json.load(open(r["out"]))
                except Exception as e:  # noqa
                    r["data"] = None
            if r["rc"] != 0 or r["data"] is None:
                tail = ""
                try:
                    tail = "".join(open(r["err"]).readlines()[-30:])
                except Exception:
                    pass
                # abnormal termination (abort, stack overflow, sanitizer report): re-run once
                r2 = run_one_again(r, env)
                sig = abnormal_signature(tail, r["rc"], layer)
                import re as _re
                esc = _re.search(r"escaped-panic at (\S+): ([^\n]*)", tail)
                if esc and (esc.group(1).startswith("src/") or "/verif/harness/" in esc.group(1)):
                    # a panic in the harness's own code (monitor, model, rendering) is a harness error:
                    # inconclusive, never a violation
                    inconclusive.append(f"harness-panic layer={layer} shard={r['shard']} at {esc.group(1)}: {esc.group(2)[:160]}")
                elif r2 is not None and r2 != 0:
                    hard_violations.append(dict(rule="abnormal-exit", signature=sig, layer=layer, shard=r["shard"],
                                                detail=f"rc={r['rc']} rerun_rc={r2}\n{tail}",
                                                replay=dict(cmd=r["cmd"], stderr_tail=tail)))
                else:
                    inconclusive.append(f"abnormal-exit-not-reproducible layer={layer} shard={r['shard']} rc={r['rc']}")
        layer_results[layer] = results

    m = merge(pid, layer_results)
    m["violations"].extend(hard_violations)
    m["inconclusive"].extend(inconclusive)

    # property-specific offline post-processing (e.g. the Python P-256 reference for C01)
    post = cfg.get("post")
    if post and not a.replay:
        try:
            mod = importlib.import_module(post)
            mod.post(m, layer_results, dict(outdir=outdir, tier=tier, seed=seed, verif=VERIF, log=log))
        except Exception as e:  # harness error => inconclusive, never a violation
            import traceback
            traceback.print_exc()
            m["inconclusive"].append(f"post-processing error: {e}")

    # coverage floors: a rule that never judged anything cannot support `held`
    if not a.replay:
        for rule in m["required"]:
            if m["rules"].get(rule, 0) == 0:
                m["inconclusive"].append(f"rule-never-observed {rule}")
        if m["evaluations"] == 0:
            m["inconclusive"].append("no-evaluations")

    known = load_known()
    open_known = [k for k in known if k.get("status") == "open" and k.get("property") == pid]
    by_sig = {}
    for v in m["violations"]:
        by_sig.setdefault(v["signature"], []).append(v)
    new, kf = [], []
    for sig, vs in by_sig.items():
        hit = next((k for k in open_known if k["signature"] == sig), None)
        (kf if hit else new).append((sig, vs, hit))

    for sig, vs, hit in kf:
        print(f"KNOWN-FINDING: property={pid} {hit.get('what', sig)} [signature={sig}; observed {len(vs)}x]")
    n = 0
    for sig, vs, _ in new:
        v = vs[0]
        h = hashlib.sha1(sig.encode()).hexdigest()[:8]
        path = os.path.join(REPLAYS, f"{pid}-{tier}-{seed}-{v.get('shard', 0)}-{h}.json")
        json.dump(dict(property=pid, tier=tier, seed=seed, shard=v.get("shard"), layer=v.get("layer"), rule=v["rule"],
                       signature=sig, detail=v["detail"], occurrences=len(vs), replay=v["replay"]),
                  open(path, "w"), indent=1)
        print(f"VIOLATION property={pid} replay={path}")
        print(f"  rule={v['rule']} signature={sig} occurrences={len(vs)} layer={v.get('layer')}")
        d = v["detail"]
        print("  " + (d if len(d) < 1500 else d[:1500] + " ..."))
        n += 1

    wall = time.time() - t0
    verdict = "violated" if n else ("inconclusive" if m["inconclusive"] else "held")
    if not a.replay:
        write_evidence(pid, cfg, tier, seed, m, wall, n, len(kf), verdict, layers)
    shutil.rmtree(outdir, ignore_errors=True)
    if n:
        return 1
    if m["inconclusive"]:
        for r in sorted(set(m["inconclusive"]))[:20]:
            print(f"INCONCLUSIVE property={pid} reason={r}")
        return 2
    print(f"OK property={pid} tier={tier} seed={seed} evaluations={m['evaluations']} "
          f"distinct_nontrivial={len(m['shapes'])} wall_s={wall:.1f}")
    return 0


def run_one_again(r, env):
    try:
        p = subprocess.run(r["cmd"], cwd=HARNESS, env=env, stdout=subprocess.DEVNULL, stderr=subprocess.DEVNULL,
                           timeout=1800)
        return p.returncode
    except subprocess.TimeoutExpired:
        return None


def abnormal_signature(tail, rc, layer):
    import re
    mm = re.search(r"(AddressSanitizer|ThreadSanitizer|Undefined Behavior|stack overflow|SIGSEGV|SIGABRT)[^\n]*", tail)
    what = mm.group(0)[:80] if mm else f"rc={rc}"
    frame = re.search(r"/repo/([\w\-/\.]+\.rs)", tail)
    return f"abnormal-exit {layer} {what} {frame.group(1) if frame else ''}".strip()


def write_evidence(pid, cfg, tier, seed, m, wall, nviol, nknown, verdict, layers):
    cov = dict(
        evaluations=m["evaluations"],
        distinct_nontrivial=len(m["shapes"]),
        rule=m["rule_text"] or cfg.get("rule", ""),
        samples=m["samples"],
        distinct_trivial_shapes=m["trivial"],
        monitor_rules_observed=m["rules"],
        required_rules=m["required"],
        distinct_interleavings=len(m["interleavings"]),
        counters=m["counters"],
        layers=m["layers"],
        layers_requested=layers,
        verdict=verdict,
        inconclusive_reasons=sorted(set(m["inconclusive"]))[:20],
        known_findings_observed=nknown,
        notes=sorted(set(m["notes"]))[:20],
    )
    if m["exhaustive"] is not None:
        cov["exhaustive"] = bool(m["exhaustive"])
    ev = dict(property_id=pid, tier=tier, seed=seed, level=cfg["level"], coverage=cov,
              assumptions=m["assumptions"] + cfg.get("assumptions", []), wall_s=round(wall, 2), violations=nviol)
    tmp = os.path.join(EVIDENCE, f".{pid}.json.tmp")
    json.dump(ev, open(tmp, "w"), indent=1, default=str)
    os.replace(tmp, os.path.join(EVIDENCE, f"{pid}.json"))


if __name__ == "__main__":
    sys.exit(main())
