"""Pure-Python (integers + hashlib + base64 only) reference for the CUPv2 acceptance decision.

NIST P-256 arithmetic, a strict DER ECDSA-Sig-Value parser, ECDSA verification, a PEM
SubjectPublicKeyInfo parser and `reference_verdict(call_record)` which recomputes, from the property
statement alone, whether one logged verifier call had to be accepted.

Faithful detail (checked in ecdsa-0.14.8/src/verify.rs `Verifier::verify` =
`verify_digest(C::Digest::new_with_prefix(msg))` and p256-0.11.1/src/ecdsa.rs `Digest = Sha256`):
the 32-byte transaction hash is the *message*, it is hashed with SHA-256 once more before ECDSA:
e = SHA256(transaction_hash).
"""
import base64
import hashlib

P = 0xFFFFFFFF00000001000000000000000000000000FFFFFFFFFFFFFFFFFFFFFFFF
A = P - 3
B = 0x5AC635D8AA3A93E7B3EBBD55769886BC651D06B0CC53B0F63BCE3C3E27D2604B
GX = 0x6B17D1F2E12C4247F8BCE6E563A440F277037D812DEB33A0F4A13945D898C296
GY = 0x4FE342E2FE1A7F9B8EE7EB4A7C0F9E162BCE33576B315ECECBB6406837BF51F5
N = 0xFFFFFFFF00000000FFFFFFFFFFFFFFFFBCE6FAADA7179E84F3B9CAC2FC632551

# DER prefix of a P-256 SubjectPublicKeyInfo up to (and including) the BIT STRING's unused-bits octet:
# SEQ(0x59){ SEQ(0x13){ OID id-ecPublicKey, OID prime256v1 }, BIT STRING(0x42){ 00, 04 || X || Y } }
SPKI_PREFIX = bytes.fromhex("3059301306072a8648ce3d020106082a8648ce3d030107034200")


class RefError(Exception):
    pass


def on_curve(x, y):
    return 0 <= x < P and 0 <= y < P and (y * y - (x * x * x + A * x + B)) % P == 0


# ---- Jacobian arithmetic (a = -3).  A point is (X, Y, Z); Z == 0 is the point at infinity. ----
INF = (1, 1, 0)


def jdouble(pt):
    X, Y, Z = pt
    if Z == 0 or Y == 0:
        return INF
    p = P
    ZZ = Z * Z % p
    M = 3 * (X - ZZ) * (X + ZZ) % p  # 3*X^2 + a*Z^4 with a = -3
    YY = Y * Y % p
    S = 4 * X * YY % p
    X3 = (M * M - 2 * S) % p
    Y3 = (M * (S - X3) - 8 * YY * YY) % p
    Z3 = 2 * Y * Z % p
    return (X3, Y3, Z3)


def jadd(p1, p2):
    X1, Y1, Z1 = p1
    X2, Y2, Z2 = p2
    if Z1 == 0:
        return p2
    if Z2 == 0:
        return p1
    p = P
    Z1Z1 = Z1 * Z1 % p
    Z2Z2 = Z2 * Z2 % p
    U1 = X1 * Z2Z2 % p
    U2 = X2 * Z1Z1 % p
    S1 = Y1 * Z2 * Z2Z2 % p
    S2 = Y2 * Z1 * Z1Z1 % p
    if U1 == U2:
        if S1 == S2:
            return jdouble(p1)
        return INF
    H = (U2 - U1) % p
    R = (S2 - S1) % p
    HH = H * H % p
    HHH = H * HH % p
    V = U1 * HH % p
    X3 = (R * R - HHH - 2 * V) % p
    Y3 = (R * (V - X3) - S1 * HHH) % p
    Z3 = H * Z1 * Z2 % p
    return (X3, Y3, Z3)


def to_affine(pt):
    X, Y, Z = pt
    if Z == 0:
        return None
    zi = pow(Z, -1, P)
    zi2 = zi * zi % P
    return (X * zi2 % P, Y * zi2 * zi % P)


def scalar_mult(k, point):
    """k * point (affine tuple) -> affine tuple or None (infinity).  Plain double-and-add."""
    k %= N
    acc = INF
    base = (point[0], point[1], 1)
    for bit in bin(k)[2:] if k else "":
        acc = jdouble(acc)
        if bit == "1":
            acc = jadd(acc, base)
    return to_affine(acc)


def double_scalar_mult(u1, g, u2, q):
    """u1*g + u2*q with Shamir's trick (interleaved double-and-add); affine in, affine/None out."""
    gj = (g[0], g[1], 1)
    qj = (q[0], q[1], 1)
    gq = jadd(gj, qj)
    table = {(1, 0): gj, (0, 1): qj, (1, 1): gq}
    acc = INF
    for i in range(max(u1.bit_length(), u2.bit_length()) - 1, -1, -1):
        acc = jdouble(acc)
        sel = ((u1 >> i) & 1, (u2 >> i) & 1)
        if sel != (0, 0):
            acc = jadd(acc, table[sel])
    return to_affine(acc)


# ---- strict DER --------------------------------------------------------------------------------
def _der_len(b, i):
    """Definite, minimal length at b[i:]; returns (length, next index)."""
    if i >= len(b):
        raise RefError("der: truncated length")
    first = b[i]
    if first < 0x80:
        return first, i + 1
    if first == 0x80:
        raise RefError("der: indefinite length")
    nb = first & 0x7F
    if i + 1 + nb > len(b):
        raise RefError("der: truncated long length")
    raw = b[i + 1:i + 1 + nb]
    if raw[0] == 0:
        raise RefError("der: length with leading zero octet")
    val = int.from_bytes(raw, "big")
    if val < 0x80:
        raise RefError("der: long form used for a short length")
    return val, i + 1 + nb


def _der_uint(b, i):
    if i >= len(b) or b[i] != 0x02:
        raise RefError("der: INTEGER tag expected")
    ln, i = _der_len(b, i + 1)
    if ln == 0:
        raise RefError("der: empty INTEGER")
    if i + ln > len(b):
        raise RefError("der: truncated INTEGER")
    body = b[i:i + ln]
    if body[0] & 0x80:
        raise RefError("der: negative INTEGER")
    if ln > 1 and body[0] == 0 and not (body[1] & 0x80):
        raise RefError("der: unnecessary leading zero")
    return int.from_bytes(body, "big"), i + ln


def parse_der_signature(b):
    """ECDSA-Sig-Value ::= SEQUENCE { r INTEGER, s INTEGER }, strict DER, 1 <= r,s <= n-1."""
    b = bytes(b)
    if len(b) == 0 or b[0] != 0x30:
        raise RefError("der: SEQUENCE tag expected")
    ln, i = _der_len(b, 1)
    if i + ln != len(b):
        raise RefError("der: SEQUENCE length does not cover the input exactly")
    r, i = _der_uint(b, i)
    s, i = _der_uint(b, i)
    if i != len(b):
        raise RefError("der: trailing bytes inside SEQUENCE")
    if not (1 <= r < N and 1 <= s < N):
        raise RefError("signature scalar out of range")
    return r, s


def encode_der_signature(r, s):
    def enc_int(v):
        raw = v.to_bytes(max(1, (v.bit_length() + 7) // 8), "big")
        if raw[0] & 0x80:
            raw = b"\0" + raw
        return b"\x02" + bytes([len(raw)]) + raw
    body = enc_int(r) + enc_int(s)
    assert len(body) < 0x80
    return b"\x30" + bytes([len(body)]) + body


# ---- ECDSA -------------------------------------------------------------------------------------
def ecdsa_verify_prehashed(e_bytes, r, s, q):
    if not (1 <= r < N and 1 <= s < N):
        return False
    if q is None or not on_curve(q[0], q[1]):
        return False
    z = int.from_bytes(e_bytes, "big") % N  # 256-bit hash, 256-bit order: no truncation needed
    w = pow(s, -1, N)
    u1 = z * w % N
    u2 = r * w % N
    pt = double_scalar_mult(u1, (GX, GY), u2, q)
    if pt is None:
        return False
    return pt[0] % N == r


def ecdsa_verify_message(msg, r, s, q):
    """ECDSA with SHA-256 over `msg` (what p256's `Verifier::verify(msg, sig)` does)."""
    return ecdsa_verify_prehashed(hashlib.sha256(msg).digest(), r, s, q)


def ecdsa_sign_message(msg, d, k):
    """For self-tests only."""
    z = int.from_bytes(hashlib.sha256(msg).digest(), "big") % N
    x, _ = scalar_mult(k, (GX, GY))
    r = x % N
    s = pow(k, -1, N) * (z + r * d) % N
    return r, s


# ---- PEM SubjectPublicKeyInfo --------------------------------------------------------------------
def parse_pem_public_key(pem):
    lines = [ln.strip() for ln in pem.strip().splitlines()]
    if len(lines) < 3 or lines[0] != "-----BEGIN PUBLIC KEY-----" or lines[-1] != "-----END PUBLIC KEY-----":
        raise RefError("pem: bad encapsulation boundaries")
    der = base64.b64decode("".join(lines[1:-1]), validate=True)
    if len(der) != len(SPKI_PREFIX) + 65 or der[:len(SPKI_PREFIX)] != SPKI_PREFIX or der[len(SPKI_PREFIX)] != 4:
        raise RefError("pem: not an uncompressed P-256 SubjectPublicKeyInfo")
    x = int.from_bytes(der[-64:-32], "big")
    y = int.from_bytes(der[-32:], "big")
    if not on_curve(x, y):
        raise RefError("pem: point not on curve")
    return x, y


# ---- the CUPv2 acceptance decision ------------------------------------------------------------------
def _unhex(s):
    """Hex of either case, even length; returns bytes or None."""
    if len(s) % 2:
        return None
    for ch in s:
        if ch not in "0123456789abcdefABCDEF":
            return None
    return bytes.fromhex(s)


def strip_etag(raw):
    """plain / "..." / W/"..." exactly as the statement says, on bytes."""
    if len(raw) >= 4 and raw[:3] == b'W/"' and raw[-1:] == b'"':
        return raw[3:-1]
    if len(raw) >= 2 and raw[:1] == b'"' and raw[-1:] == b'"':
        return raw[1:-1]
    return raw


def transaction_hash(req_body, resp_body, key_id, nonce_hex):
    h = hashlib.sha256()
    h.update(hashlib.sha256(req_body).digest())
    h.update(hashlib.sha256(resp_body).digest())
    h.update(("%d:%s" % (key_id, nonce_hex)).encode("ascii"))
    return h.digest()


def reference_verdict(rec, keys):
    """rec: one call record; keys: {id(int): (x, y)}.
    Returns (accept, reason, did_ecdsa, signature_bytes_or_None)."""
    req = bytes.fromhex(rec["req_body_hex"])
    resp = bytes.fromhex(rec["resp_body_hex"])
    key_id = int(rec["key_id"])
    nonce_hex = rec["nonce_hex"]
    if rec.get("api") == "with_signature":
        sig = bytes.fromhex(rec["sig_hex"])
    else:
        # etag_count > 1 means the *same* header value is present several times (the records cannot express
        # differing values); identical copies carry the same authentic value
        if rec.get("etag_count", 1 if rec.get("etag_hex") is not None else 0) < 1 or rec.get("etag_hex") is None:
            return False, "no ETag header", False, None
        raw = bytes.fromhex(rec["etag_hex"])
        if any(not (0x20 <= c <= 0x7E or c == 0x09) for c in raw):
            return False, "ETag is not visible ASCII", False, None
        inner = strip_etag(raw).decode("ascii")
        if ":" not in inner:
            return False, "no ':' in ETag", False, None
        sig_half, hash_half = inner.split(":", 1)
        hb = _unhex(hash_half)
        if hb is None:
            return False, "hash half is not hex", False, None
        if hb != hashlib.sha256(req).digest():
            return False, "hash half != SHA256(retained request body)", False, None
        sig = _unhex(sig_half)
        if sig is None:
            return False, "signature half is not hex", False, None
    try:
        r, s = parse_der_signature(sig)
    except RefError as e:
        return False, str(e), False, sig
    if key_id not in keys:
        return False, "key id not registered", False, sig
    ok = ecdsa_verify_message(transaction_hash(req, resp, key_id, nonce_hex), r, s, keys[key_id])
    return ok, "ecdsa " + ("valid" if ok else "invalid"), True, sig


def selftest():
    # RFC 6979 A.2.5, P-256 / SHA-256, message "sample"
    d = 0xC9AFA9D845BA75166B5C215767B1D6934E50C3DB36E89B127B8A622B120F6721
    q = (0x60FED4BA255A9D31C961EB74C6356D68C049B8923B61FA6CE669622E60F29FB6,
         0x7903FE1008B8BC99A41AE9E95628BC64F2F1B20C2D7E9F5177A3C294D4462299)
    assert scalar_mult(d, (GX, GY)) == q
    r = 0xEFD48B2AACB6A8FD1140DD9CD45E81D69D2C877B56AAF991C34D0EA84EAF3716
    s = 0xF7CB1C942D657C41D436C7A1B6E29F65F3E900DBB9AFF4064DC4AB2F843ACDA8
    assert ecdsa_verify_message(b"sample", r, s, q)
    assert ecdsa_verify_message(b"sample", r, N - s, q)
    assert not ecdsa_verify_message(b"sampl3", r, s, q)
    assert not ecdsa_verify_message(b"sample", r, s, (GX, GY))
    der = encode_der_signature(r, s)
    assert parse_der_signature(der) == (r, s)
    for bad in (der + b"\0", der[:-1], b"\x30\x81" + der[1:], der[:2] + b"\x02\x22\x00" + der[4:]):
        try:
            parse_der_signature(bad)
        except RefError:
            continue
        raise AssertionError("accepted bad DER " + bad.hex())
    assert scalar_mult(N, (GX, GY)) is None
    assert scalar_mult(N - 1, (GX, GY)) == (GX, P - GY)
    return True


if __name__ == "__main__":
    import time
    t = time.time()
    selftest()
    print("selftest ok %.3fs" % (time.time() - t))
