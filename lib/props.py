"""Per-property runner configuration.  Workload sizes and monitor rules live in the harness
(src/props/cNN.rs); this table only holds what the runner needs."""

PROPS = {
    "C17": dict(level="exploration", shards=16, thorough_layers=["stress", "tsan", "asan"],
                layer_cfg={"tsan": dict(shards=2, timeout=3000), "stress": dict(shards=2, args={"mode": "stress"}), "asan": dict(scale=0.25, timeout=2400)}),
    "C16": dict(level="exploration", shards=16, thorough_layers=["asan", "miri"], layer_cfg={"asan": dict(scale=0.25, timeout=2400), "miri": dict(shards=16, timeout=3000)}),
    "C13": dict(level="exploration", shards=16, thorough_layers=["asan", "miri"],
                layer_cfg={"asan": dict(scale=0.25, timeout=2400),
                           # Stacked AND Tree Borrows flag the library's own async_generator unit tests (shared reborrow of the
                           # suspended, self-referential task in Generator::poll_next): the open UnsafePinned question, not a
                           # property of /repo that we check.  All other Miri checks (UB, data races, uninit, OOB, leaks) stay on.
                           "miri": dict(shards=16, timeout=3000, env={"MIRIFLAGS": "-Zmiri-disable-isolation -Zmiri-disable-stacked-borrows"})}),
    "C11": dict(level="exploration", shards=16, thorough_layers=[]),
    "C12": dict(level="exploration", shards=16, thorough_layers=[]),
    "C14": dict(level="exploration", shards=16, thorough_layers=["asan"], layer_cfg={"asan": dict(scale=0.25, timeout=2400)}),
    "C18": dict(level="exploration", shards=16, thorough_layers=[]),
    "C02": dict(level="fault_enumeration", shards=16, thorough_layers=["asan"], layer_cfg={"asan": dict(scale=0.25, timeout=2400)}),
    "C03": dict(level="exploration", shards=16, thorough_layers=[]),
    "C05": dict(level="exploration", shards=16, thorough_layers=[]),
    "C01": dict(level="exploration", shards=16, post="post_c01", thorough_layers=["asan", "miri"],
                layer_cfg={"miri": dict(shards=16, timeout=3000), "asan": dict(shards=16, timeout=1800)}),
    "C07": dict(level="exploration", shards=16, thorough_layers=[]),
    "C08": dict(level="fault_enumeration", shards=16, thorough_layers=[]),
    "C09": dict(level="exploration", shards=16, thorough_layers=[]),
    "C15": dict(level="exploration", shards=16, thorough_layers=["miri"], layer_cfg={"miri": dict(shards=8, timeout=2400)}),
    "C06": dict(level="fault_enumeration", shards=16, thorough_layers=[]),
    "C10": dict(level="fault_enumeration", shards=16, thorough_layers=[]),
    "C04": dict(level="exploration", shards=16, thorough_layers=[]),
    "C19": dict(level="exploration", shards=16, thorough_layers=["miri"],
                layer_cfg={"miri": dict(shards=8, timeout=1500)}),
    "C20": dict(level="exploration", shards=16, thorough_layers=["miri"],
                layer_cfg={"miri": dict(shards=8, timeout=1500)}),
}
