"""Per-property runner configuration.  Workload sizes and monitor rules live in the harness
(src/props/cNN.rs); this table only holds what the runner needs."""

PROPS = {
    "C15": dict(level="exploration", shards=16, thorough_layers=["miri"], layer_cfg={"miri": dict(shards=8, timeout=2400)}),
    "C06": dict(level="fault_enumeration", shards=16, thorough_layers=[]),
    "C10": dict(level="fault_enumeration", shards=16, thorough_layers=[]),
    "C04": dict(level="exploration", shards=16, thorough_layers=[]),
    "C19": dict(level="exploration", shards=16, thorough_layers=["miri"],
                layer_cfg={"miri": dict(shards=8, timeout=1500)}),
    "C20": dict(level="exploration", shards=16, thorough_layers=["miri"],
                layer_cfg={"miri": dict(shards=8, timeout=1500)}),
}
