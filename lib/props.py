"""Per-property runner configuration.  Workload sizes and monitor rules live in the harness
(src/props/cNN.rs); this table only holds what the runner needs."""

PROPS = {
    "C04": dict(level="exploration", shards=16, thorough_layers=[]),
    "C19": dict(level="exploration", shards=16, thorough_layers=["miri"],
                layer_cfg={"miri": dict(shards=8, timeout=1500)}),
    "C20": dict(level="exploration", shards=16, thorough_layers=["miri"],
                layer_cfg={"miri": dict(shards=8, timeout=1500)}),
}
