"""Offline second oracle for C01: re-decide every logged CUPv2 verifier call with the pure-Python
P-256 reference (lib/p256_ref.py) and compare with what the library did.

Log format (written by harness/src/props/c01.rs next to each plain-layer shard report,
`<out>.calls.jsonl`, one JSON object per line):
  {"keyset_def": <tag>, "keys": [{"id": "<decimal>", "x": hex, "y": hex}], "keys_pem_json": "<PublicKeys JSON>"}
  {"api": "verify_response"|"with_signature", "case", "kind", "keyset": <tag>, "req_body_hex", "resp_body_hex",
   "key_id": "<decimal>", "nonce_hex", "etag_hex"|null, "etag_count", "sig_hex" (with_signature only),
   "observed": "ok"|"err", "returned_sig_hex"|null, "expected": ..., ...}
Key sets are logged once and referenced by tag to keep the log small; they are inlined again into the
replay record of a disagreement, so that `--replay` gets a self-contained call.
"""
import json
import multiprocessing
import os
import time

import p256_ref

SLICES = 4  # tasks per shard file


def _load_keyset(d):
    """Returns ({id: (x, y)}, problems)."""
    problems = []
    keys = {}
    for k in d["keys"]:
        keys[int(k["id"])] = (int(k["x"], 16), int(k["y"], 16))
    # cross-check the PEM JSON the handler was really built from against the coordinates
    try:
        pj = json.loads(d["keys_pem_json"])
        listed = [pj["latest"]] + list(pj["historical"])
        from_pem = {}
        for k in listed:
            from_pem[int(k["id"])] = p256_ref.parse_pem_public_key(k["key"])
        if from_pem != keys:
            problems.append("PEM JSON keys differ from the harness-side coordinates: pem=%r coords=%r" % (from_pem, keys))
        if len(listed) != len(d["keys"]):
            problems.append("PEM JSON lists %d keys, harness generated %d" % (len(listed), len(d["keys"])))
    except (p256_ref.RefError, KeyError, ValueError, TypeError) as e:
        problems.append("PEM JSON not parseable by the reference: %s" % e)
    return keys, problems


def _work(task):
    path, shard, sl, nsl = task
    keysets = {}
    raw_sets = {}
    out = dict(n=0, accepts=0, ecdsa=0, disagreements=[], bad_lines=0)
    with open(path) as f:
        for lineno, line in enumerate(f):
            if line.startswith('{"keyset_def"'):
                d = json.loads(line)
                ks, problems = _load_keyset(d)
                keysets[d["keyset_def"]] = ks
                raw_sets[d["keyset_def"]] = d
                if sl == 0:
                    for pr in problems:
                        out["disagreements"].append(dict(
                            rule="python-reference", signature="python-reference pem-keys-mismatch",
                            detail=pr, replay=d, layer="plain", shard=shard))
                continue
            if lineno % nsl != sl:
                continue
            try:
                rec = json.loads(line)
            except ValueError:
                out["bad_lines"] += 1  # torn last line of a killed shard
                continue
            ksd = raw_sets.get(rec.get("keyset"))
            if ksd is None:
                out["bad_lines"] += 1
                continue
            accept, reason, did_ecdsa, sig = p256_ref.reference_verdict(rec, keysets[rec["keyset"]])
            out["n"] += 1
            out["accepts"] += 1 if accept else 0
            out["ecdsa"] += 1 if did_ecdsa else 0
            expected = "ok" if accept else "err"
            observed = rec["observed"]
            problem = None
            if observed != expected:
                problem = ("library %s, reference %s (%s)" %
                           ("accepted" if observed == "ok" else "rejected",
                            "accepts" if accept else "rejects", reason))
                signature = "python-reference %s observed=%s expected=%s" % (rec.get("kind"), observed, expected)
            elif observed == "ok" and rec.get("api") != "with_signature":
                ret = (rec.get("returned_sig_hex") or "").lower()
                if sig is None or ret != sig.hex():
                    problem = "accepted, but returned signature %s != signature carried in the ETag %s" % (
                        ret, sig.hex() if sig is not None else None)
                    signature = "python-reference %s returned-signature-differs" % rec.get("kind")
            if problem:
                full = dict(rec)
                full["keys"] = ksd["keys"]
                full["keys_pem_json"] = ksd["keys_pem_json"]
                full["expected"] = expected
                if len(out["disagreements"]) < 50:
                    out["disagreements"].append(dict(rule="python-reference", signature=signature,
                                                     detail="case %s kind=%s: %s" % (rec.get("case"), rec.get("kind"), problem),
                                                     replay=full, layer="plain", shard=shard))
    return out


def post(m, layer_results, ctx):
    log = ctx.get("log", lambda *a: None)
    t0 = time.time()
    if "python-reference" not in m.setdefault("required", []):
        m["required"].append("python-reference")
    files = []
    for r in layer_results.get("plain", []):
        p = r["out"] + ".calls.jsonl"
        if os.path.exists(p):
            files.append((p, r["shard"]))
    tasks = [(p, shard, sl, SLICES) for (p, shard) in files for sl in range(SLICES)]
    total = dict(n=0, accepts=0, ecdsa=0, bad_lines=0)
    if tasks:
        with multiprocessing.Pool(16) as pool:
            for res in pool.imap_unordered(_work, tasks):
                for k in total:
                    total[k] += res[k]
                m["violations"].extend(res["disagreements"])
    m["rules"]["python-reference"] = m["rules"].get("python-reference", 0) + total["n"]
    c = m["counters"]
    c["python_ref_accepts"] = c.get("python_ref_accepts", 0) + total["accepts"]
    c["python_ref_ecdsa_verifications"] = c.get("python_ref_ecdsa_verifications", 0) + total["ecdsa"]
    if total["bad_lines"]:
        c["python_ref_unreadable_lines"] = total["bad_lines"]
        m["notes"].append("python-reference: %d unreadable log lines skipped" % total["bad_lines"])
    m["evaluations"] += total["n"]
    for p, _ in files:
        try:
            os.remove(p)
        except OSError:
            pass
    log("[post] C01 python reference: %d calls, %d accepts, %d ECDSA verifications, %.1fs"
        % (total["n"], total["accepts"], total["ecdsa"], time.time() - t0))
