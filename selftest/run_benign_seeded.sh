#!/bin/bash
# selftest/run_benign_seeded.sh [extra checks...]
# Runs, against every behaviour-preserving refactor written by a sub-agent (selftest/benign_seeded/<P>-<k>/patch.diff),
# the check of the property the refactor was written around (plus the given extra checks).  Every line must say
# "silent"; a VIOLATION here is a false alarm of the machinery unless the refactor breaks *another* property than the
# one its author was shown (known cases are listed in selftest/benign_seeded/CROSS_PROPERTY.txt).
cd /verif
for d in selftest/benign_seeded/*/; do
  n=$(basename $d); P=${n%-*}
  for C in $P "$@"; do
    R=$(./selftest/mutant.sh $d/patch.diff $C 2>&1 | grep -E "^VIOLATION|^  rule=" | head -2 | cut -c1-160 | tr '\n' ' ')
    if [ -z "$R" ]; then echo "$n $C silent"; else
      if grep -q "^$n $C\b" selftest/benign_seeded/CROSS_PROPERTY.txt 2>/dev/null; then echo "$n $C alarm (expected: breaks $C, see CROSS_PROPERTY.txt)"; else echo "$n $C FALSE-ALARM: $R"; fi
    fi
  done
done
