#!/bin/bash
# selftest/run_all.sh [pattern]  — run every self-made mutant against the check named by its file prefix
# (cNN_*.patch -> CNN; m40_* -> C04) on a scratch copy; prints one line per mutant.
# Controls expected to stay silent are listed in EXPECT_SILENT.
export VERIF_ST_DIR=${VERIF_ST_DIR:-/tmp/st_all}
EXPECT_SILENT="c13_stream_polled_before_task c11_buffered_control_channel c13_progress_channel_buffered c14_first_seen_failure_changes_flow"
cd /verif
for f in selftest/mutants/${1:-*}.patch; do
  n=$(basename $f .patch)
  case $n in m40_*) P=C04;; c[0-9][0-9]_*) P=C${n:1:2};; *) continue;; esac
  out=$(./selftest/mutant.sh $f $P 2>&1)
  if echo "$out" | grep -q "^VIOLATION"; then v=CAUGHT; rule=$(echo "$out" | grep -m1 "rule=" | sed 's/ occurrences.*//' | cut -c1-110)
  elif echo "$out" | grep -q "^INCONCLUSIVE"; then v=INCONCLUSIVE; rule=$(echo "$out" | grep -m1 "^INCONCLUSIVE" | cut -c1-110)
  else v=silent; rule=""; fi
  exp=CAUGHT; for s in $EXPECT_SILENT; do [ "$s" = "$n" ] && exp=silent; done
  flag=""; [ "$v" != "$exp" ] && flag="  <<< UNEXPECTED (expected $exp)"
  printf "%-52s %-4s %-12s %s%s\n" "$n" "$P" "$v" "$rule" "$flag"
done
./selftest/mutant.sh --clean
