#!/usr/bin/env python3
"""mkmutant.py <name> <repo-relative-file> <<< JSON list of [old, new] replacements (each old must occur exactly once)
Writes selftest/mutants/<name>.patch (unified diff against /repo)."""
import sys, json, subprocess, os, tempfile, shutil
name, rel = sys.argv[1], sys.argv[2]
reps = json.load(sys.stdin)
src = open(os.path.join('/repo', rel)).read()
out = src
for old, new in reps:
    if out.count(old) != 1:
        sys.exit(f"{name}: pattern occurs {out.count(old)} times: {old[:60]!r}")
    out = out.replace(old, new)
d = tempfile.mkdtemp()
try:
    a = os.path.join(d, 'a', rel); b = os.path.join(d, 'b', rel)
    os.makedirs(os.path.dirname(a)); os.makedirs(os.path.dirname(b))
    open(a, 'w').write(src); open(b, 'w').write(out)
    p = subprocess.run(['diff', '-u', os.path.join('a', rel), os.path.join('b', rel)], cwd=d, stdout=subprocess.PIPE, text=True)
    open(os.path.join('/verif/selftest/mutants', name + '.patch'), 'w').write(p.stdout)
finally:
    shutil.rmtree(d)
print("wrote", name)
