#!/bin/bash
# Benign refactors: every listed check must stay SILENT (exit 0).  usage: selftest/run_benign.sh
export VERIF_ST_DIR=${VERIF_ST_DIR:-/tmp/st_benign}
cd /verif
run() { f=$1; shift; for P in "$@"; do out=$(./selftest/mutant.sh selftest/benign/$f.patch $P 2>&1); if echo "$out" | grep -q "^VIOLATION\|^INCONCLUSIVE"; then echo "$f $P FALSE-ALARM: $(echo "$out" | grep -m2 "rule=\|INCONCL" | cut -c1-200)"; else echo "$f $P silent"; fi; done; }
run c12_timers_armed_in_other_order C12 C11 C13
run c08_persist_apps_before_context C08 C09 C07
run c07_reject_plus_sign C07 C06
run c20_reject_plus_sign C20
run c06_metrics_order_swapped C06
run c08_extra_commit C08 C07 C18
run c06_backoff_microsecond_granularity C06
run c04_extra_schedule_event C04 C12 C13
run c10_reports_apps_in_reverse_order C10 C02
run c18_finish_time_committed_after_reboot_question C18
./selftest/mutant.sh --clean
