#!/bin/bash
# selftest/seeded_process.sh <PROP> <k> [check-props...]
# Confirms a sub-agent's seeded change in its scratch worktree (/tmp/wt_<PROP>): demo passes on the
# clean tree, fails with the patch, the unchanged test suite passes with the patch.  Then runs the
# given checks (default: <PROP>) against a scratch copy of /repo with the patch applied
# (selftest/mutant.sh) and files everything under /verif/seeded/<PROP>-<k>/.
P=$1; K=$2; shift 2; CHECKS=${@:-$P}
if [ "$OUTK" = "auto" ]; then n=1; while [ -d /verif/seeded/$P-$n ]; do n=$((n+1)); done; export OUTK=$n; fi
WT=${WTPREFIX:-/tmp/wt_}$P; D=$WT/_deliver; OUT=/verif/seeded/$P-${OUTK:-$K}
[ -f $D/patch$K.diff ] || { echo "no patch $D/patch$K.diff"; exit 2; }
cd $WT || exit 2
git checkout -q -- . 2>/dev/null; rm -rf omaha-client/tests/_seeded_* mock-omaha-server/tests/_seeded_*
mkdir -p $OUT/demo; cp $D/patch$K.diff $OUT/patch.diff; cp -r $D/demo$K/. $OUT/demo/ 2>/dev/null
# install demo test files: either *.rs integration tests (copied into the crate's tests/ dir) or a
# test-only *.diff that appends in-crate tests (applied on top of the clean / patched tree)
CRATE=omaha-client; PKG=omaha_client
if grep -qi "mock-omaha-server/tests\|-p mock-omaha-server" $D/demo$K/RUN.md 2>/dev/null; then CRATE=mock-omaha-server; PKG=mock-omaha-server; fi
NAMES=""; DEMODIFF=""
if ls $D/demo$K/*.rs >/dev/null 2>&1; then
  for f in $D/demo$K/*.rs; do b=$(basename $f .rs); NAMES="$NAMES --test $b"; done
  # mock-omaha-server integration tests need hyper's client feature, which only a --workspace build enables
  if [ "$CRATE" = "mock-omaha-server" ]; then SEL="--workspace"; else SEL="-p $PKG"; fi
  run_demo() { mkdir -p $CRATE/tests; for f in $D/demo$K/*.rs; do cp $f $CRATE/tests/; done; cargo test $SEL --offline $NAMES 2>&1 | tail -40; }
  rm_demo() { for f in $D/demo$K/*.rs; do rm -f $CRATE/tests/$(basename $f); done; rmdir $CRATE/tests 2>/dev/null; }
elif ls $D/demo$K/*.diff >/dev/null 2>&1; then
  DEMODIFF=$(ls $D/demo$K/*.diff | head -1)
  run_demo() { git apply $DEMODIFF && cargo test -p $PKG --offline --lib 2>&1 | tail -40; }
  rm_demo() { git apply -R $DEMODIFF 2>/dev/null; }
else
  echo "RESULT $P-$K: no .rs / .diff demo found (handle manually)"; exit 3
fi
CLEAN=$(run_demo); echo "$CLEAN" | grep -q "test result: FAILED\|error\[" && CLEAN_OK=no || CLEAN_OK=yes
echo "$CLEAN" | grep -q "test result: ok" || CLEAN_OK=no
rm_demo; git checkout -q -- .
git apply $D/patch$K.diff || { echo "RESULT $P-$K: patch does not apply"; exit 3; }
PATCHED=$(run_demo); echo "$PATCHED" | grep -q "test result: FAILED\|panicked\|error: test failed" && PATCHED_FAILS=yes || PATCHED_FAILS=no
rm_demo; git checkout -q -- .; git apply $D/patch$K.diff
SUITE=$(cargo test --workspace --no-fail-fast --offline 2>&1 | grep -E "^test result|FAILED|^error" ); echo "$SUITE" | grep -q "FAILED\|^error\|failed; [1-9]" && SUITE_OK=no || SUITE_OK=yes
NPASS=$(echo "$SUITE" | grep -o "[0-9]* passed" | awk '{s+=$1} END {print s}')
git checkout -q -- .; git status --short | grep -v "_deliver\|PROPERTY.txt\|target" | head -3
cd /verif
CAUGHT=""; DETAIL=""
for c in $CHECKS; do
  R=$(./selftest/mutant.sh $OUT/patch.diff $c 2>&1 | grep -E "^VIOLATION|^  rule=|^OK|^INCONCLUSIVE|^KNOWN" | cut -c1-260)
  if echo "$R" | grep -q "^VIOLATION"; then CAUGHT="$CAUGHT $c"; fi
  DETAIL="$DETAIL
[$c] $(echo "$R" | grep -E "rule=|^OK|^INCONCLUSIVE" | head -3)"
done
python3 - "$P" "$K" "$CLEAN_OK" "$PATCHED_FAILS" "$SUITE_OK" "$NPASS" "$CAUGHT" "$DETAIL" "$CHECKS" <<'PY'
import json,sys,os
P,K,clean,pf,suite,npass,caught,detail,checks=sys.argv[1:10]
OUTK=os.environ.get("OUTK",K); WTP=os.environ.get("WTPREFIX","/tmp/wt_")
out=f"/verif/seeded/{P}-{OUTK}/meta.json"
try: m=json.load(open(f"{WTP}{P}/_deliver/meta{K}.json"))
except Exception as e: m={"property":P,"summary":"(agent meta missing)"}
m["breaks_property"]=P
m["confirmed"]={"demo_passes_on_clean_tree":clean=="yes","demo_fails_with_patch":pf=="yes","existing_suite_passes_with_patch":suite=="yes","tests_passed_with_patch":int(npass or 0),
  "how":"selftest/seeded_process.sh: demo test copied into the crate's tests/ dir of a scratch worktree, cargo test on clean and patched tree, full unchanged suite on patched tree"}
m["checks_run"]=checks.split()
m["caught_by"]=caught.split()
m["check_output"]=detail.strip().splitlines()
json.dump(m,open(out,"w"),indent=1)
print(f"RESULT {P}-{OUTK}: clean_demo_ok={clean} patched_demo_fails={pf} suite_ok={suite}({npass}) caught_by=[{caught.strip()}]")
PY
