#!/bin/bash
# reseed_lane.sh <lane> <nlanes>: re-run every seeded change (own property, or the property it breaks) on a scratch copy
lane=$1; n=$2; i=0
export VERIF_ST_DIR=/tmp/st_lane$lane VERIF_HARNESS_SRC=${VERIF_HARNESS_SRC:-/verif/harness}
for d in /verif/seeded/*/; do
  id=$(basename $d); i=$((i+1)); [ $((i % n)) -eq $lane ] || continue
  P=$(python3 -c "import json;m=json.load(open('$d/meta.json'));print((m.get('caught_by') or [m.get('breaks_property') or '$id'.split('-')[0]])[0])")
  out=$(/verif/selftest/mutant.sh $d/patch.diff $P 2>&1)
  if echo "$out" | grep -q "^VIOLATION"; then echo "$id $P CAUGHT $(echo "$out" | grep -m1 'rule=' | sed 's/ occurrences.*//' | cut -c1-90)"; else echo "$id $P MISSED $(echo "$out" | grep -E '^OK|^INCONCL' | head -1 | cut -c1-100)"; fi
done
rm -rf /tmp/st_lane$lane
