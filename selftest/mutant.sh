#!/bin/sh
# selftest/mutant.sh <patch-file> <PROP> [extra ./check args]
# Applies a patch to a SCRATCH copy of /repo (never to /repo itself), builds a scratch copy of the
# harness against it and runs the given check there.  Exit status = the check's exit status
# (1 = the monitor caught the mutant).  Scratch lives in /tmp/st and is reused between calls to
# keep rebuilds short; `selftest/mutant.sh --clean` removes it.
set -e
S=${VERIF_ST_DIR:-/tmp/st}
if [ "$1" = "--clean" ]; then rm -rf "$S"; exit 0; fi
PATCH=$(readlink -f "$1"); PROP=$2; shift 2
mkdir -p "$S"
rsync -a --no-times --checksum --delete --exclude target --exclude .git /repo/ "$S/repo/"
rsync -a --no-times --checksum --delete --exclude target "${VERIF_HARNESS_SRC:-/verif/harness}/" "$S/harness/"
sed -i "s#/repo/#$S/repo/#g" "$S/harness/Cargo.toml"
rm -f "$S/harness/.cargo/config.toml"; printf '[net]\noffline = true\n' > "$S/harness/.cargo/config.toml"
if [ "$PATCH" != "/dev/null" ]; then (cd "$S/repo" && patch -p1 --no-backup-if-mismatch < "$PATCH" >/dev/null) || { echo "INCONCLUSIVE patch-does-not-apply $PATCH"; exit 3; }; fi
mkdir -p "$S/evidence" "$S/replays" "$S/work"
VERIF_HARNESS_DIR="$S/harness" VERIF_WORK_DIR="$S/work" VERIF_EVIDENCE_DIR="$S/evidence" VERIF_REPLAYS_DIR="$S/replays" \
  python3 /verif/lib/runner.py "$PROP" "$@"
