// Copies the mock server's binary entry point (mock-omaha-server/src/main.rs of the repository this harness is
// built against) into OUT_DIR so that the harness can run it, unchanged, in a child process of itself
// (VERIF_AS_MOCK_MAIN=1), and exports the repository directory.
use std::{env, fs, path::PathBuf};
fn main() {
    let manifest = PathBuf::from(env::var("CARGO_MANIFEST_DIR").unwrap());
    let toml = fs::read_to_string(manifest.join("Cargo.toml")).unwrap();
    let line = toml.lines().find(|l| l.trim_start().starts_with("mock-omaha-server")).expect("mock-omaha-server dependency");
    let path = line.split("path").nth(1).and_then(|r| r.split('"').nth(1)).expect("path of mock-omaha-server").to_string();
    let crate_dir = PathBuf::from(&path);
    let main_rs = crate_dir.join("src/main.rs");
    let out = PathBuf::from(env::var("OUT_DIR").unwrap()).join("mock_main.rs");
    fs::copy(&main_rs, &out).expect("copy mock server main.rs");
    println!("cargo:rerun-if-changed={}", main_rs.display());
    println!("cargo:rerun-if-changed=Cargo.toml");
    println!("cargo:rustc-env=VERIF_REPO_DIR={}", crate_dir.parent().unwrap().display());
}
