//! verif_harness: runtime-monitoring workloads and monitors for google/omaha-client.
//! Usage: harness <PROP> --tier quick|thorough --seed N --shard i/N --out FILE [--replay FILE]

pub mod common;
pub mod model;
pub mod props;
pub mod sim;

use common::{Args, Report};

/// The mock server's own binary entry point (argument parsing, key loading, start-up), compiled in unchanged.
#[allow(dead_code, unused_imports, unexpected_cfgs)]
mod mock_main {
    include!(concat!(env!("OUT_DIR"), "/mock_main.rs"));
    pub fn run() -> Result<(), anyhow::Error> {
        main()
    }
}

fn main() {
    if std::env::var_os("VERIF_AS_MOCK_MAIN").is_some() {
        // child-process mode: behave exactly like the mock-omaha-server binary with the given arguments
        if let Err(e) = mock_main::run() {
            eprintln!("mock server exited: {e}");
            std::process::exit(1);
        }
        return;
    }
    let argv: Vec<String> = std::env::args().skip(1).collect();
    let args = Args::parse(&argv);
    // anyhow captures a backtrace per error when RUST_BACKTRACE is set: slow and irrelevant here
    if std::env::var_os("RUST_LIB_BACKTRACE").is_none() {
        std::env::set_var("RUST_LIB_BACKTRACE", "0");
    }
    common::install_panic_hook();
    sim::logsub::install();
    let mut report = Report::new(&args.prop);
    // a panic that escapes every guard (in a monitor, a model, or in library code running outside a guarded
    // poll) ends the shard: say where it came from, the runner reports the abnormal exit with this text
    let known = match std::panic::catch_unwind(std::panic::AssertUnwindSafe(|| props::run(&args, &mut report))) {
        Ok(k) => k,
        Err(_) => {
            let (msg, loc) = common::take_last_panic().unwrap_or_else(|| ("<unknown>".into(), "<unknown>".into()));
            eprintln!("escaped-panic at {}: {}", loc, msg);
            std::process::exit(101);
        }
    };
    if !known {
        eprintln!("unknown property {}", args.prop);
        std::process::exit(3);
    }
    report.write(&args.out);
    // Exit status of a shard: 0 = ran to completion (violations are in the report).
}
