//! verif_harness: runtime-monitoring workloads and monitors for google/omaha-client.
//! Usage: harness <PROP> --tier quick|thorough --seed N --shard i/N --out FILE [--replay FILE]

pub mod common;
pub mod model;
pub mod props;
pub mod sim;

use common::{Args, Report};

fn main() {
    let argv: Vec<String> = std::env::args().skip(1).collect();
    let args = Args::parse(&argv);
    // anyhow captures a backtrace per error when RUST_BACKTRACE is set: slow and irrelevant here
    if std::env::var_os("RUST_LIB_BACKTRACE").is_none() {
        std::env::set_var("RUST_LIB_BACKTRACE", "0");
    }
    common::install_panic_hook();
    sim::logsub::install();
    let mut report = Report::new(&args.prop);
    let known = props::run(&args, &mut report);
    if !known {
        eprintln!("unknown property {}", args.prop);
        std::process::exit(3);
    }
    report.write(&args.out);
    // Exit status of a shard: 0 = ran to completion (violations are in the report).
}
