//! Shared plumbing: PRNG, CLI arguments, per-shard report, panic capture.

use serde_json::{json, Map, Value};
use std::collections::{BTreeMap, BTreeSet};
use std::panic::{self, AssertUnwindSafe};
use std::sync::Mutex;

/// xoshiro256** seeded through splitmix64.  Deterministic, no external crates.
#[derive(Clone, Debug)]
pub struct Rng {
    s: [u64; 4],
}

fn splitmix(x: &mut u64) -> u64 {
    *x = x.wrapping_add(0x9E3779B97F4A7C15);
    let mut z = *x;
    z = (z ^ (z >> 30)).wrapping_mul(0xBF58476D1CE4E5B9);
    z = (z ^ (z >> 27)).wrapping_mul(0x94D049BB133111EB);
    z ^ (z >> 31)
}

impl Rng {
    pub fn new(seed: u64) -> Self {
        let mut x = seed;
        let s = [
            splitmix(&mut x),
            splitmix(&mut x),
            splitmix(&mut x),
            splitmix(&mut x),
        ];
        Rng { s }
    }
    /// Derive an independent stream from (seed, a, b, c).
    pub fn derive(seed: u64, a: u64, b: u64, c: u64) -> Self {
        let mut x = seed ^ 0xA5A5_5A5A_DEAD_BEEF;
        let mut h = splitmix(&mut x);
        for v in [a, b, c] {
            let mut y = h ^ v.wrapping_mul(0x9E3779B97F4A7C15);
            h = splitmix(&mut y);
        }
        Rng::new(h)
    }
    pub fn next_u64(&mut self) -> u64 {
        let r = self.s[1].wrapping_mul(5).rotate_left(7).wrapping_mul(9);
        let t = self.s[1] << 17;
        self.s[2] ^= self.s[0];
        self.s[3] ^= self.s[1];
        self.s[1] ^= self.s[2];
        self.s[0] ^= self.s[3];
        self.s[2] ^= t;
        self.s[3] = self.s[3].rotate_left(45);
        r
    }
    pub fn next_u32(&mut self) -> u32 {
        (self.next_u64() >> 32) as u32
    }
    /// Uniform in 0..n (n > 0).
    pub fn below(&mut self, n: u64) -> u64 {
        debug_assert!(n > 0);
        // multiply-shift; bias negligible for our n
        ((self.next_u64() as u128 * n as u128) >> 64) as u64
    }
    pub fn usize(&mut self, n: usize) -> usize {
        self.below(n as u64) as usize
    }
    pub fn range(&mut self, lo: i64, hi: i64) -> i64 {
        // inclusive
        let span = (hi as i128 - lo as i128 + 1) as u128;
        let r = ((self.next_u64() as u128 * span) >> 64) as i128;
        (lo as i128 + r) as i64
    }
    pub fn bool(&mut self) -> bool {
        self.next_u64() & 1 == 1
    }
    /// True with probability num/den.
    pub fn chance(&mut self, num: u64, den: u64) -> bool {
        self.below(den) < num
    }
    pub fn pick<'a, T>(&mut self, xs: &'a [T]) -> &'a T {
        &xs[self.usize(xs.len())]
    }
    pub fn bytes(&mut self, n: usize) -> Vec<u8> {
        let mut v = Vec::with_capacity(n);
        while v.len() < n {
            let x = self.next_u64().to_le_bytes();
            let take = (n - v.len()).min(8);
            v.extend_from_slice(&x[..take]);
        }
        v
    }
    pub fn shuffle<T>(&mut self, xs: &mut [T]) {
        for i in (1..xs.len()).rev() {
            let j = self.usize(i + 1);
            xs.swap(i, j);
        }
    }
}

/// FNV-1a 64-bit, used for shape keys and interleaving signatures.
#[derive(Clone, Copy)]
pub struct Fnv(pub u64);
impl Default for Fnv {
    fn default() -> Self {
        Fnv(0xcbf29ce484222325)
    }
}
impl Fnv {
    pub fn new() -> Self {
        Self::default()
    }
    pub fn bytes(&mut self, b: &[u8]) -> &mut Self {
        for x in b {
            self.0 ^= *x as u64;
            self.0 = self.0.wrapping_mul(0x100000001b3);
        }
        self
    }
    pub fn str(&mut self, s: &str) -> &mut Self {
        self.bytes(s.as_bytes());
        self.bytes(&[0xff])
    }
    pub fn u64(&mut self, v: u64) -> &mut Self {
        self.bytes(&v.to_le_bytes())
    }
    pub fn finish(&self) -> u64 {
        self.0
    }
}
pub fn shape_of(parts: &[&str]) -> u64 {
    let mut f = Fnv::new();
    for p in parts {
        f.str(p);
    }
    f.finish()
}

#[derive(Clone, Debug)]
pub struct Args {
    pub prop: String,
    pub tier: String,
    pub seed: u64,
    pub shard: u64,
    pub nshards: u64,
    pub out: Option<String>,
    pub replay: Option<String>,
    pub scale: f64,
    pub layer: String,
    pub extra: BTreeMap<String, String>,
    /// Set from a replay file: run only this case index.
    pub only_case: Option<u64>,
    pub replay_json: Option<Value>,
}

impl Args {
    pub fn parse(argv: &[String]) -> Args {
        let mut a = Args {
            prop: String::new(),
            tier: "quick".into(),
            seed: 1,
            shard: 0,
            nshards: 1,
            out: None,
            replay: None,
            scale: 1.0,
            layer: "plain".into(),
            extra: BTreeMap::new(),
            only_case: None,
            replay_json: None,
        };
        let mut i = 0;
        while i < argv.len() {
            let k = &argv[i];
            let mut val = || {
                i += 1;
                argv.get(i).cloned().unwrap_or_default()
            };
            match k.as_str() {
                "--tier" => a.tier = val(),
                "--seed" => a.seed = val().parse().unwrap_or(1),
                "--shard" => {
                    let v = val();
                    let (x, y) = v.split_once('/').unwrap_or(("0", "1"));
                    a.shard = x.parse().unwrap_or(0);
                    a.nshards = y.parse().unwrap_or(1).max(1);
                }
                "--out" => a.out = Some(val()),
                "--replay" => a.replay = Some(val()),
                "--scale" => a.scale = val().parse().unwrap_or(1.0),
                "--layer" => a.layer = val(),
                s if s.starts_with("--") => {
                    let key = s[2..].to_string();
                    let v = val();
                    a.extra.insert(key, v);
                }
                s => {
                    if a.prop.is_empty() {
                        a.prop = s.to_string()
                    }
                }
            }
            i += 1;
        }
        if let Some(p) = &a.replay {
            if let Ok(txt) = std::fs::read_to_string(p) {
                if let Ok(v) = serde_json::from_str::<Value>(&txt) {
                    let rp = v.get("replay").cloned().unwrap_or(Value::Null);
                    if let Some(c) = rp.get("case").and_then(|x| x.as_u64()) {
                        a.only_case = Some(c);
                        if let Some(x) = rp.get("seed").and_then(|x| x.as_u64()) {
                            a.seed = x;
                        }
                        if let Some(x) = rp.get("shard").and_then(|x| x.as_u64()) {
                            a.shard = x;
                        }
                        if let Some(x) = rp.get("nshards").and_then(|x| x.as_u64()) {
                            a.nshards = x.max(1);
                        }
                        if let Some(x) = rp.get("tier").and_then(|x| x.as_str()) {
                            a.tier = x.to_string();
                        }
                        if let Some(x) = rp.get("scale").and_then(|x| x.as_f64()) {
                            a.scale = x;
                        }
                    }
                    a.replay_json = Some(v);
                }
            }
        }
        a
    }
    /// Replay descriptor of case `i` of this shard (regenerated deterministically on replay).
    pub fn case_replay(&self, i: u64) -> Value {
        json!({"prop": self.prop, "case": i, "seed": self.seed, "shard": self.shard, "nshards": self.nshards,
               "tier": self.tier, "scale": self.scale})
    }
    pub fn skip(&self, i: u64) -> bool {
        matches!(self.only_case, Some(o) if o != i)
    }
    pub fn thorough(&self) -> bool {
        self.tier == "thorough"
    }
    /// Total budget `quick`/`thorough` split across shards and scaled.
    pub fn budget(&self, quick: u64, thorough: u64) -> u64 {
        let total = if self.thorough() { thorough } else { quick };
        let total = (total as f64 * self.scale).ceil() as u64;
        let per = total / self.nshards;
        let rem = total % self.nshards;
        per + if self.shard < rem { 1 } else { 0 }
    }
    /// Does global case index `i` belong to this shard?
    pub fn mine(&self, i: u64) -> bool {
        i % self.nshards == self.shard
    }
    pub fn rng(&self, stream: u64) -> Rng {
        Rng::derive(self.seed, self.shard, stream, 0)
    }
}

#[derive(Clone, Debug)]
pub struct Violation {
    pub rule: String,
    /// Stable signature used for the known-findings match.
    pub signature: String,
    pub detail: String,
    pub replay: Value,
}

/// What a shard reports.  Merged by lib/runner.py.
pub struct Report {
    pub prop: String,
    pub evaluations: u64,
    pub shapes: BTreeSet<u64>,
    pub trivial_shapes: BTreeSet<u64>,
    pub rules: BTreeMap<String, u64>,
    pub samples: Vec<Value>,
    pub max_samples: usize,
    pub violations: Vec<Violation>,
    pub interleavings: BTreeSet<u64>,
    pub counters: BTreeMap<String, u64>,
    pub notes: Vec<String>,
    pub inconclusive: Vec<String>,
    pub exhaustive: Option<bool>,
    /// How cases are generated and what makes one distinct / non-trivial (evidence `rule`).
    pub rule_text: String,
    /// Monitor rules whose antecedent must have been observed for a `held` verdict.
    pub required: Vec<String>,
    pub assumptions: Vec<String>,
}

impl Report {
    pub fn new(prop: &str) -> Self {
        Report {
            prop: prop.to_string(),
            evaluations: 0,
            shapes: BTreeSet::new(),
            trivial_shapes: BTreeSet::new(),
            rules: BTreeMap::new(),
            samples: vec![],
            max_samples: 4,
            violations: vec![],
            interleavings: BTreeSet::new(),
            counters: BTreeMap::new(),
            notes: vec![],
            inconclusive: vec![],
            exhaustive: None,
            rule_text: String::new(),
            required: vec![],
            assumptions: vec![],
        }
    }
    /// One oracle decision; `shape` is the hash of the case skeleton.
    pub fn eval(&mut self, shape: u64, nontrivial: bool) {
        self.evaluations += 1;
        if nontrivial {
            self.shapes.insert(shape);
        } else {
            self.trivial_shapes.insert(shape);
        }
    }
    pub fn evals(&mut self, n: u64) {
        self.evaluations += n;
    }
    /// A monitor rule's antecedent was observed (the rule actually judged something).
    pub fn hit(&mut self, rule: &str) {
        *self.rules.entry(rule.to_string()).or_insert(0) += 1;
    }
    pub fn hits(&mut self, rule: &str, n: u64) {
        *self.rules.entry(rule.to_string()).or_insert(0) += n;
    }
    pub fn require(&mut self, rules: &[&str]) {
        for r in rules {
            if !self.required.iter().any(|x| x == r) {
                self.required.push(r.to_string());
            }
        }
    }
    pub fn assume(&mut self, a: &str) {
        if !self.assumptions.iter().any(|x| x == a) {
            self.assumptions.push(a.to_string());
        }
    }
    pub fn note_once(&mut self, n: &str) {
        if self.notes.len() < 20 && !self.notes.iter().any(|x| x == n) {
            self.notes.push(n.to_string());
        }
    }
    pub fn count(&mut self, name: &str, n: u64) {
        *self.counters.entry(name.to_string()).or_insert(0) += n;
    }
    pub fn want_sample(&self) -> bool {
        self.samples.len() < self.max_samples
    }
    pub fn sample(&mut self, v: Value) {
        if self.samples.len() < self.max_samples {
            self.samples.push(v);
        }
    }
    pub fn violation(&mut self, rule: &str, signature: &str, detail: String, replay: Value) {
        // keep the report bounded: at most 50 violations per shard, dedupe by signature+rule
        if self.violations.len() >= 50 {
            self.count("violations_dropped", 1);
            return;
        }
        self.violations.push(Violation {
            rule: rule.to_string(),
            signature: signature.to_string(),
            detail,
            replay,
        });
    }
    pub fn to_json(&self) -> Value {
        let hexs = |s: &BTreeSet<u64>| -> Vec<String> {
            s.iter().map(|x| format!("{:016x}", x)).collect()
        };
        json!({
            "prop": self.prop,
            "evaluations": self.evaluations,
            "shapes": hexs(&self.shapes),
            "trivial_shapes": self.trivial_shapes.len(),
            "rules": self.rules,
            "samples": self.samples,
            "violations": self.violations.iter().map(|v| json!({
                "rule": v.rule, "signature": v.signature, "detail": v.detail, "replay": v.replay
            })).collect::<Vec<_>>(),
            "interleavings": hexs(&self.interleavings),
            "counters": self.counters,
            "notes": self.notes,
            "inconclusive": self.inconclusive,
            "exhaustive": self.exhaustive,
            "rule_text": self.rule_text,
            "required": self.required,
            "assumptions": self.assumptions,
        })
    }
    pub fn write(&self, out: &Option<String>) {
        let v = self.to_json();
        match out {
            Some(p) => {
                std::fs::write(p, serde_json::to_vec(&v).unwrap()).expect("write shard report")
            }
            None => println!("{}", serde_json::to_string_pretty(&summarize(&v)).unwrap()),
        }
    }
}

fn summarize(v: &Value) -> Value {
    let mut m: Map<String, Value> = v.as_object().cloned().unwrap_or_default();
    if let Some(Value::Array(a)) = m.get("shapes") {
        let n = a.len();
        m.insert("shapes".into(), json!(n));
    }
    if let Some(Value::Array(a)) = m.get("interleavings") {
        let n = a.len();
        m.insert("interleavings".into(), json!(n));
    }
    Value::Object(m)
}

// ---------------------------------------------------------------------------------------------
// Panic capture

static LAST_PANIC: Mutex<Option<(String, String)>> = Mutex::new(None);

/// Install a panic hook that records (message, file:line) instead of printing.
pub fn install_panic_hook() {
    panic::set_hook(Box::new(|info| {
        let msg = if let Some(s) = info.payload().downcast_ref::<&str>() {
            s.to_string()
        } else if let Some(s) = info.payload().downcast_ref::<String>() {
            s.clone()
        } else {
            "<non-string panic payload>".to_string()
        };
        let loc = info
            .location()
            .map(|l| format!("{}:{}", l.file(), l.line()))
            .unwrap_or_else(|| "<unknown>".into());
        if let Ok(mut g) = LAST_PANIC.lock() {
            *g = Some((msg, loc));
        }
    }));
}

#[derive(Debug, Clone)]
pub struct PanicInfo {
    pub msg: String,
    pub loc: String,
}
impl PanicInfo {
    /// `file` part without line, repo-relative where possible: stable across unrelated edits.
    pub fn site(&self) -> String {
        let f = self.loc.rsplit_once(':').map(|x| x.0).unwrap_or(&self.loc);
        let f = f.strip_prefix("/repo/").unwrap_or(f);
        // registry paths: keep crate dir + file
        if let Some(i) = f.find("/registry/src/") {
            let rest = &f[i + 14..];
            let rest = rest.split_once('/').map(|x| x.1).unwrap_or(rest);
            return rest.to_string();
        }
        f.to_string()
    }
    /// Stable signature: site + message with digits removed (so that two different panics in one
    /// file are told apart, while unrelated line-number drift does not matter).
    pub fn sig(&self) -> String {
        let msg: String = self.msg.chars().filter(|c| !c.is_ascii_digit()).take(60).collect();
        format!("panic@{} [{}]", self.site(), msg.trim())
    }
    pub fn in_harness(&self) -> bool {
        self.loc.contains("/verif/harness/") || self.loc.starts_with("src/")
    }
}

pub fn take_last_panic() -> Option<(String, String)> {
    LAST_PANIC.lock().ok().and_then(|mut g| g.take())
}

/// Run `f`, converting a panic into Err(PanicInfo).
pub fn guard<T>(f: impl FnOnce() -> T) -> Result<T, PanicInfo> {
    if let Ok(mut g) = LAST_PANIC.lock() {
        *g = None;
    }
    match panic::catch_unwind(AssertUnwindSafe(f)) {
        Ok(v) => Ok(v),
        Err(_) => {
            let (msg, loc) = LAST_PANIC
                .lock()
                .ok()
                .and_then(|mut g| g.take())
                .unwrap_or_else(|| ("<unknown panic>".into(), "<unknown>".into()));
            Err(PanicInfo { msg, loc })
        }
    }
}

pub fn hex(b: &[u8]) -> String {
    ::hex::encode(b)
}

/// Lossy printable rendering of bytes for samples / replays.
pub fn show_bytes(b: &[u8]) -> Value {
    match std::str::from_utf8(b) {
        Ok(s) if s.len() <= 600 => json!({ "utf8": s }),
        Ok(s) => json!({ "utf8_prefix": &s[..s.char_indices().nth(300).map(|x| x.0).unwrap_or(s.len())], "len": b.len() }),
        Err(_) if b.len() <= 300 => json!({ "hex": hex(b) }),
        Err(_) => json!({ "hex_prefix": hex(&b[..150]), "len": b.len() }),
    }
}
