//! The flow model: a sequential reference for what one update check / ping / reboot wait must
//! look like at the trait boundary, written from the property statements (DESIGN appendix A).
//!
//! `analyze` walks the recorded log once.  It (1) segments it into checks, pings and waits,
//! (2) carries the cross-check protocol state the *statements* prescribe (failure counter,
//! last-contact time, poll interval, per-app cohort / day) using only what the harness itself
//! answered (it produced every outcome, so it knows what "actually happened"), and (3) derives
//! for every check the expectation projections used by the per-property monitors.

use crate::sim::driver::{AppSpec, Setup};
use crate::sim::world::*;
use serde_json::Value;
use std::collections::BTreeMap;

#[derive(Clone, Debug)]
pub struct ReqView {
    pub seq: u64,
    pub idx: usize,
    pub uri: String,
    pub headers: Vec<(String, Vec<u8>)>,
    pub body: Vec<u8>,
    pub json: Value,
    pub kind: ReqKind,
    pub session: Option<String>,
    pub request_id: Option<String>,
    pub resp: Option<(u64, Delivered)>,
    /// poll interval in force (model) just before this exchange's response was processed
    pub poll_before: Option<u128>,
}

#[derive(Clone, Debug, PartialEq)]
pub struct EventExp {
    pub eventtype: u64,
    pub eventresult: u64,
    pub errorcode: Option<i64>,
}

#[derive(Clone, Debug, PartialEq)]
pub struct ReportExp {
    pub what: &'static str,
    /// (app id, previous version, next version, events in order)
    pub apps: Vec<(String, String, Option<String>, Vec<EventExp>)>,
}

#[derive(Clone, Debug, PartialEq)]
pub enum Outcome {
    /// No usable response: request/transport/status/authentication/construction failure.
    Fail(&'static str),
    ParseError,
    NoUpdate,
    PlanError,
    Deferred,
    Denied,
    Installed { failed: usize },
    /// The check did not run to its end in the log (crash / run stopped).
    Incomplete,
}

#[derive(Clone, Debug, Default)]
pub struct Expect {
    pub outcome: Option<Outcome>,
    pub states: Vec<StateSnap>,
    pub server_response: bool,
    pub installer_errors: usize,
    /// Per response app: (id, acceptable actions).  None: result must be Err.
    pub result: Option<Vec<(String, Vec<&'static str>)>>,
    pub reports: Vec<ReportExp>,
    /// May an additional report with an empty app list appear (only unknown ids were offered)?
    pub empty_report_allowed: bool,
    pub counts_failed: bool,
    pub contact: bool,
    pub learns: bool,
    pub failure_reason: Option<&'static str>,
    /// per attempt: is a retry expected after it?
    pub retry_after_attempt: Vec<bool>,
    /// events of reports that cannot even be built (their leading app's id is not a legal header value, so the
    /// X-Goog-Update-AppId header cannot be formed): never on the wire, each counted as lost
    pub unbuildable_lost: usize,
    /// some report of this check names both header-safe and header-unsafe app ids: whether it can be built
    /// depends on which app leads it, and the order of apps inside a report is not fixed by the statement
    pub reports_buildability_undecided: bool,
}

#[derive(Clone, Debug)]
pub struct PlanView {
    pub seq: u64,
    pub params: ParamsSnap,
    pub meta: Option<MetaSnap>,
    pub bytes: Vec<u8>,
    pub signature: Option<Vec<u8>>,
    pub ok: bool,
    pub plan_id: Option<String>,
}

#[derive(Clone, Debug)]
pub struct CheckView {
    pub idx: usize,
    pub allowed: Option<(u64, Decision, bool)>,
    pub params: ParamsSnap,
    pub apps: Vec<AppSnap>,
    pub start_seq: u64,
    pub announced_on_demand: bool,
    pub events: Vec<(u64, EvSnap)>,
    pub uc: Vec<ReqView>,
    pub reports: Vec<ReqView>,
    pub others: Vec<ReqView>,
    pub waits: Vec<(u64, usize, TimerSpec)>,
    pub metrics: Vec<(u64, MetricSnap)>,
    pub plan: Option<PlanView>,
    pub can_start: Option<(u64, UpdDec)>,
    pub install_start: Option<u64>,
    pub install_done: Option<(u64, Vec<InstRes>)>,
    pub progress_sent: Vec<(u64, u32)>,
    pub reboot_needed: Option<(u64, bool)>,
    pub result: Option<(u64, Result<Vec<AppRespSnap>, String>)>,
    pub end_seq: u64,
    pub complete: bool,
    pub exp: Expect,
    /// model state when the check started / after it finished
    pub before: MState,
    pub after: MState,
    /// clock (wall ns) at the final ScheduleChange event
    pub final_clock: Option<(i128, i128)>,
    pub storage_ops: Vec<(u64, Ev)>,
}

#[derive(Clone, Debug)]
pub struct PingView {
    pub req: ReqView,
    pub success: bool,
    pub before: MState,
    pub after: MState,
}

/// Cross-check protocol state as the statements prescribe it.
#[derive(Clone, Debug, PartialEq)]
pub struct MState {
    pub failed: u64,
    pub last_contact_us: Option<i64>,
    pub poll_ns: Option<u128>,
    pub apps: Vec<AppSnap>,
    pub failed_installs: i64,
}

#[derive(Clone, Debug)]
pub struct RebootWait {
    pub start_seq: u64,
    pub allowed: Vec<(u64, bool, bool)>, // seq, on_demand, answer
    pub reboot_seq: Option<u64>,
    pub end_seq: u64,
    pub check_idx: usize,
}

#[derive(Clone, Debug)]
pub struct PolicyNextView {
    pub seq: u64,
    pub apps: Vec<AppSnap>,
    pub sched: SchedSnap,
    pub proto: ProtoSnap,
    pub answer: TimingSnap,
    /// model state at that moment
    pub model: MState,
}

#[derive(Clone, Debug)]
pub struct CommitView {
    pub seq: u64,
    pub ok: bool,
    pub snapshot: BTreeMap<String, Val>,
}

#[derive(Debug, Default)]
pub struct Flow {
    pub checks: Vec<CheckView>,
    pub pings: Vec<PingView>,
    pub nexts: Vec<PolicyNextView>,
    pub alloweds: Vec<(u64, Vec<AppSnap>, SchedSnap, ProtoSnap, bool, Decision, MState)>,
    pub commits: Vec<CommitView>,
    pub idle: Vec<u64>,
    pub waits: Vec<RebootWait>,
    pub stray_requests: Vec<ReqView>,
    pub ended: bool,
    pub proto_events: Vec<(u64, ProtoSnap, MState)>,
    pub sched_events: Vec<(u64, SchedSnap)>,
    /// (seq of the restart, committed storage that survived)
    pub restarts: Vec<(u64, BTreeMap<String, Val>)>,
    /// every (counter, last contact) pair the model held at some completed step
    pub model_pairs: Vec<(u64, Option<i64>)>,
    /// the same with the per-app state that goes with it (None: before anything was persisted by this
    /// incarnation, i.e. whatever the surviving storage holds)
    pub model_tuples: Vec<(u64, Option<i64>, Option<Vec<AppSnap>>)>,
    /// checks (by index) after which the committed per-app records are not judged: their writes were made to
    /// fail on purpose (set by the caller, never by the analysis)
    pub skip_commit_judgement_after_checks: Vec<usize>,
    /// the store was made to fail commits on purpose: what it holds at quiescent points is not judged (set by the caller)
    pub skip_all_commit_judgement: bool,
    /// the store refuses writes of the last-contact entry: only the other book-keeping entries are judged
    pub last_contact_store_faulty: bool,
}

pub fn retry_after(headers: &[(String, Vec<u8>)]) -> RetryAfter {
    let vals: Vec<&Vec<u8>> =
        headers.iter().filter(|h| h.0.eq_ignore_ascii_case("x-retry-after")).map(|h| &h.1).collect();
    if vals.is_empty() {
        return RetryAfter::Is(None);
    }
    if vals.len() > 1 && vals.iter().any(|v| *v != vals[0]) {
        return RetryAfter::DontCare;
    }
    let v = vals[0];
    if v.first() == Some(&b'+') && v.len() > 1 && v[1..].iter().all(|c| c.is_ascii_digit()) {
        return RetryAfter::DontCare;
    }
    if v.is_empty() || !v.iter().all(|c| c.is_ascii_digit()) {
        return RetryAfter::Is(None);
    }
    // fits u64?
    let s = std::str::from_utf8(v).unwrap();
    let t = s.trim_start_matches('0');
    let n: Option<u64> = if t.is_empty() {
        Some(0)
    } else if t.len() > 20 {
        None
    } else {
        t.parse::<u128>().ok().and_then(|x| u64::try_from(x).ok())
    };
    match n {
        Some(n) => RetryAfter::Is(Some(n.min(86400) as u128 * 1_000_000_000)),
        None => RetryAfter::Is(None),
    }
}

#[derive(Clone, Debug, PartialEq)]
pub enum RetryAfter {
    Is(Option<u128>),
    DontCare,
}

pub fn initial_state(setup: &Setup, committed: &BTreeMap<String, Val>) -> MState {
    let failed = match committed.get("consecutive_failed_update_checks") {
        Some(Val::I(v)) if *v >= 0 && *v <= u32::MAX as i64 => *v as u64,
        _ => 0,
    };
    let last_contact_us = match committed.get("last_update_time") {
        Some(Val::I(v)) => Some(*v),
        _ => None,
    };
    let poll_ns = match committed.get("server_dictated_poll_interval") {
        Some(Val::I(v)) if *v >= 0 => Some(*v as u128 * 1000),
        _ => None,
    };
    let failed_installs = match committed.get("consecutive_failed_install_attempts") {
        Some(Val::I(v)) => *v,
        _ => 0,
    };
    let apps = setup.apps.iter().map(|a| load_app(a, committed)).collect();
    MState { failed, last_contact_us, poll_ns, apps, failed_installs }
}

/// What a restarted machine must present for one app: persisted values fill only unset fields.
pub fn load_app(a: &AppSpec, committed: &BTreeMap<String, Val>) -> AppSnap {
    let mut s = AppSnap {
        id: a.id.clone(),
        version: a.version_string(),
        fingerprint: a.fingerprint.clone(),
        cohort: a.cohort.clone(),
        day: a.day,
    };
    if let Some(Val::S(js)) = committed.get(&a.id) {
        if let Some((cohort, day)) = decode_persisted_app(js) {
            for i in 0..3 {
                if s.cohort[i].is_none() {
                    s.cohort[i] = cohort[i].clone();
                }
            }
            if s.day.is_none() {
                s.day = day;
            }
        }
    }
    s
}

/// Decode the per-app JSON record: {"cohort":{cohort?,cohorthint?,cohortname?},"user_counting":{"ClientRegulatedByDate":n|null}}
pub fn decode_persisted_app(js: &str) -> Option<([Option<String>; 3], Option<u32>)> {
    let v: Value = serde_json::from_str(js).ok()?;
    let c = v.get("cohort")?.as_object()?;
    let f = |k: &str| -> Result<Option<String>, ()> {
        match c.get(k) {
            None | Some(Value::Null) => Ok(None),
            Some(Value::String(s)) => Ok(Some(s.clone())),
            _ => Err(()),
        }
    };
    let cohort = [f("cohort").ok()?, f("cohorthint").ok()?, f("cohortname").ok()?];
    let uc = v.get("user_counting")?.as_object()?;
    let day = match uc.get("ClientRegulatedByDate")? {
        Value::Null => None,
        Value::Number(n) => Some(u32::try_from(n.as_u64()?).ok()?),
        _ => return None,
    };
    Some((cohort, day))
}

fn is_2xx(s: u16) -> bool {
    (200..300).contains(&s)
}

/// Merge a response document into the app states (C09 rules).
pub fn merge_doc(apps: &mut [AppSnap], doc: &DocSpec) {
    for app in apps.iter_mut() {
        // first response app naming this app wins (duplicates are a don't-care, never generated)
        if let Some(ra) = doc.apps.iter().find(|r| r.id == app.id) {
            for i in 0..3 {
                if let Some(v) = &ra.cohort[i] {
                    app.cohort[i] = Some(v.clone());
                }
            }
            app.day = doc.daystart.flatten();
        }
    }
}

fn ev(t: u64, r: u64, e: Option<i64>) -> EventExp {
    EventExp { eventtype: t, eventresult: r, errorcode: e }
}

pub fn analyze(log: &[Rec], setup: &Setup, preload: &BTreeMap<String, Val>) -> Flow {
    analyze_multi(log, std::slice::from_ref(setup), preload)
}

/// `setups[i]` is the embedder configuration of the i-th incarnation (after the i-th restart);
/// the last one repeats.
pub fn analyze_multi(log: &[Rec], setups: &[Setup], preload: &BTreeMap<String, Val>) -> Flow {
    let mut f = Flow::default();
    let mut incarnation = 0usize;
    let mut setup = &setups[0];
    let mut st = initial_state(setup, preload);
    f.model_pairs.push((st.failed, st.last_contact_us));
    f.model_tuples.push((st.failed, st.last_contact_us, None));
    let mut cur: Option<CheckView> = None;
    let mut last_allowed: Option<(u64, Decision, bool)> = None;
    let mut cur_wait: Option<RebootWait> = None;
    let mut committed: BTreeMap<String, Val> = preload.clone();
    let url_ok = setup.service_url.parse::<http::Uri>().is_ok() && !setup.service_url.is_empty();
    let _ = url_ok;

    let mut i = 0;
    while i < log.len() {
        let r = &log[i];
        match &r.ev {
            Ev::Restart => {
                if let Some(mut c) = cur.take() {
                    c.complete = false;
                    finish_check(&mut c, &mut st, setup);
                    f.checks.push(c);
                }
                if let Some(wv) = cur_wait.take() {
                    f.waits.push(wv);
                }
                incarnation += 1;
                setup = &setups[incarnation.min(setups.len() - 1)];
                f.restarts.push((r.seq, committed.clone()));
                st = initial_state(setup, &committed);
                f.model_pairs.push((st.failed, st.last_contact_us));
                f.model_tuples.push((st.failed, st.last_contact_us, None));
                last_allowed = None;
            }
            Ev::Commit { ok, snapshot } => {
                if *ok {
                    committed = snapshot.clone();
                }
                f.commits.push(CommitView { seq: r.seq, ok: *ok, snapshot: snapshot.clone() });
                if let Some(c) = cur.as_mut() {
                    c.storage_ops.push((r.seq, r.ev.clone()));
                }
            }
            Ev::StorageSet { .. } | Ev::StorageRemove { .. } | Ev::StorageGet { .. } => {
                if let Some(c) = cur.as_mut() {
                    c.storage_ops.push((r.seq, r.ev.clone()));
                }
            }
            Ev::PolicyNext { apps, sched, proto, answer } => {
                f.nexts.push(PolicyNextView {
                    seq: r.seq,
                    apps: apps.clone(),
                    sched: *sched,
                    proto: *proto,
                    answer: *answer,
                    model: st.clone(),
                });
            }
            Ev::PolicyCheckAllowed { apps, sched, proto, on_demand, answer } => {
                f.alloweds.push((r.seq, apps.clone(), *sched, *proto, *on_demand, *answer, st.clone()));
                last_allowed = Some((r.seq, *answer, *on_demand));
            }
            Ev::Taken(EvSnap::State(StateSnap::Checking(od))) => {
                if let Some(mut c) = cur.take() {
                    c.complete = false;
                    finish_check(&mut c, &mut st, setup);
                    f.checks.push(c);
                }
                let allowed = last_allowed.take();
                let params = allowed.and_then(|a| a.1.params()).unwrap_or_else(ParamsSnap::default_lib);
                cur = Some(CheckView {
                    idx: f.checks.len(),
                    allowed,
                    params,
                    apps: st.apps.clone(),
                    start_seq: r.seq,
                    announced_on_demand: *od,
                    events: vec![(r.seq, EvSnap::State(StateSnap::Checking(*od)))],
                    uc: vec![],
                    reports: vec![],
                    others: vec![],
                    waits: vec![],
                    metrics: vec![],
                    plan: None,
                    can_start: None,
                    install_start: None,
                    install_done: None,
                    progress_sent: vec![],
                    reboot_needed: None,
                    result: None,
                    end_seq: r.seq,
                    complete: false,
                    exp: Expect::default(),
                    before: st.clone(),
                    after: st.clone(),
                    final_clock: None,
                    storage_ops: vec![],
                });
            }
            Ev::Taken(snap) => {
                match snap {
                    EvSnap::State(StateSnap::Idle) => f.idle.push(r.seq),
                    EvSnap::State(StateSnap::WaitingForReboot) => {
                        cur_wait = Some(RebootWait {
                            start_seq: r.seq,
                            allowed: vec![],
                            reboot_seq: None,
                            end_seq: r.seq,
                            check_idx: f.checks.len().saturating_sub(1),
                        });
                    }
                    EvSnap::Proto(p) => f.proto_events.push((r.seq, *p, st.clone())),
                    EvSnap::Schedule(s) => f.sched_events.push((r.seq, *s)),
                    _ => {}
                }
                if let EvSnap::State(StateSnap::Idle) = snap {
                    if let Some(mut wv) = cur_wait.take() {
                        wv.end_seq = r.seq;
                        f.waits.push(wv);
                    }
                }
                let mut finished = false;
                if let Some(c) = cur.as_mut() {
                    c.events.push((r.seq, snap.clone()));
                    if let EvSnap::Schedule(_) = snap {
                        c.final_clock = Some((r.wall, r.mono));
                    }
                    if let EvSnap::Result(res) = snap {
                        c.result = Some((r.seq, res.clone()));
                        c.end_seq = r.seq;
                        c.complete = true;
                        finished = true;
                    }
                }
                if finished {
                    let mut c = cur.take().unwrap();
                    finish_check(&mut c, &mut st, setup);
                    f.checks.push(c);
                    f.model_pairs.push((st.failed, st.last_contact_us));
                    f.model_tuples.push((st.failed, st.last_contact_us, Some(st.apps.clone())));
                }
            }
            Ev::StreamEnd => f.ended = true,
            Ev::HttpReq { idx, uri, headers, body, json, kind, session, request_id, .. } => {
                // find the response (if delivered)
                let resp = log[i + 1..].iter().find_map(|x| match &x.ev {
                    Ev::HttpResp { idx: j, delivered } if j == idx => Some((x.seq, delivered.clone())),
                    _ => None,
                });
                let rv = ReqView {
                    seq: r.seq,
                    idx: *idx,
                    uri: uri.clone(),
                    headers: headers.clone(),
                    body: body.clone(),
                    json: json.clone(),
                    kind: *kind,
                    session: session.clone(),
                    request_id: request_id.clone(),
                    resp,
                    poll_before: st.poll_ns,
                };
                match (cur.as_mut(), kind) {
                    (Some(c), ReqKind::UpdateCheck) => c.uc.push(rv),
                    (Some(c), ReqKind::Event) => c.reports.push(rv),
                    (Some(c), _) => c.others.push(rv),
                    (None, ReqKind::Ping) => {
                        let before = st.clone();
                        f.pings.push(PingView { req: rv, success: false, before: before.clone(), after: before });
                    }
                    (None, _) => f.stray_requests.push(rv),
                }
            }
            Ev::HttpResp { idx, delivered } => {
                // poll interval: every authenticated response sets it (any status, any request kind)
                if let Delivered::Reply { authentic: true, headers, .. } = delivered {
                    match retry_after(headers) {
                        RetryAfter::Is(v) => st.poll_ns = v,
                        RetryAfter::DontCare => st.poll_ns = Some(u128::MAX), // marker: unknown
                    }
                }
                // ping bookkeeping
                if let Some(p) = f.pings.iter_mut().find(|p| p.req.idx == *idx) {
                    let ok_doc = match delivered {
                        Delivered::Reply { authentic: true, status, doc: Some(d), .. } if is_2xx(*status) => Some(d.clone()),
                        _ => None,
                    };
                    if let Some(d) = ok_doc {
                        p.success = true;
                        st.failed = 0;
                        st.last_contact_us = Some(trunc_us(r.wall));
                        merge_doc(&mut st.apps, &d);
                    } else {
                        st.failed += 1;
                    }
                    p.after = st.clone();
                    f.model_pairs.push((st.failed, st.last_contact_us));
                    f.model_tuples.push((st.failed, st.last_contact_us, Some(st.apps.clone())));
                }
            }
            Ev::TimerArm { id, spec } => {
                if let Some(c) = cur.as_mut() {
                    c.waits.push((r.seq, *id, *spec));
                }
            }
            Ev::Metric(m) => {
                if let Some(c) = cur.as_mut() {
                    c.metrics.push((r.seq, m.clone()));
                } else if let Some(c) = f.checks.last_mut() {
                    // metrics reported right after the result event still belong to that check
                    c.metrics.push((r.seq, m.clone()));
                }
            }
            Ev::PlanCreate { params, meta, bytes, signature, answer, .. } => {
                if let Some(c) = cur.as_mut() {
                    c.plan = Some(PlanView {
                        seq: r.seq,
                        params: *params,
                        meta: meta.clone(),
                        bytes: bytes.clone(),
                        signature: signature.clone(),
                        ok: answer.is_ok(),
                        plan_id: answer.clone().ok(),
                    });
                }
            }
            Ev::PolicyCanStart { answer, .. } => {
                if let Some(c) = cur.as_mut() {
                    c.can_start = Some((r.seq, *answer));
                }
            }
            Ev::InstallStart { .. } => {
                if let Some(c) = cur.as_mut() {
                    c.install_start = Some(r.seq);
                }
            }
            Ev::ProgressSent(p) => {
                if let Some(c) = cur.as_mut() {
                    c.progress_sent.push((r.seq, *p));
                }
            }
            Ev::InstallDone { results } => {
                if let Some(c) = cur.as_mut() {
                    c.install_done = Some((r.seq, results.clone()));
                }
            }
            Ev::PolicyRebootNeeded { answer, .. } => {
                if let Some(c) = cur.as_mut() {
                    c.reboot_needed = Some((r.seq, *answer));
                }
            }
            Ev::PolicyRebootAllowed { on_demand, answer } => {
                if let Some(wv) = cur_wait.as_mut() {
                    wv.allowed.push((r.seq, *on_demand, *answer));
                }
            }
            Ev::Reboot => {
                if let Some(wv) = cur_wait.as_mut() {
                    wv.reboot_seq = Some(r.seq);
                }
            }
            _ => {}
        }
        i += 1;
    }
    if let Some(mut c) = cur.take() {
        c.complete = false;
        finish_check(&mut c, &mut st, setup);
        f.checks.push(c);
    }
    if let Some(wv) = cur_wait.take() {
        f.waits.push(wv);
    }
    f
}

pub fn trunc_us(wall_ns: i128) -> i64 {
    // truncation toward the epoch
    (wall_ns / 1000) as i64
}

/// Compute the expectation of a (complete or partial) check from what the environment answered,
/// and advance the model state.
fn finish_check(c: &mut CheckView, st: &mut MState, setup: &Setup) {
    let mut e = Expect::default();
    let apps = c.apps.clone();
    let known = |id: &str| apps.iter().find(|a| a.id == id);
    let all_apps_report = |what: &'static str, evs: Vec<EventExp>| ReportExp {
        what,
        apps: apps.iter().map(|a| (a.id.clone(), a.version.clone(), None, evs.clone())).collect(),
    };

    // ---- attempt loop
    let url_ok = setup.service_url.parse::<http::Uri>().is_ok();
    let mut usable: Option<DocSpec> = None;
    let mut body_unparseable = false;
    let mut fail: Option<&'static str> = None;
    let mut decided = false;
    if !url_ok {
        fail = Some("construction");
        decided = true;
    }
    for (k, a) in c.uc.iter().enumerate() {
        if decided {
            break;
        }
        let d = match &a.resp {
            Some((_, d)) => d,
            None => break, // still in flight when the log ended
        };
        let last = k >= 2;
        let mut retry = false;
        match d {
            Delivered::Transport | Delivered::Timeout => {
                if last || a.poll_before.is_some() {
                    fail = Some("transport");
                    decided = true;
                } else {
                    retry = true;
                }
            }
            Delivered::User => {
                fail = Some("user");
                decided = true;
            }
            Delivered::Reply { authentic: false, .. } => {
                fail = Some("validation");
                decided = true;
            }
            Delivered::Reply { authentic: true, status, headers, doc, .. } => {
                let poll_after = match retry_after(headers) {
                    RetryAfter::Is(v) => v,
                    RetryAfter::DontCare => Some(u128::MAX),
                };
                if !is_2xx(*status) {
                    if last || poll_after.is_some() {
                        fail = Some("status");
                        decided = true;
                    } else {
                        retry = true;
                    }
                } else {
                    match doc {
                        Some(dd) => usable = Some(dd.clone()),
                        None => body_unparseable = true,
                    }
                    decided = true;
                }
            }
        }
        e.retry_after_attempt.push(retry);
    }

    // ---- outcome
    let outcome;
    if !decided {
        outcome = Outcome::Incomplete;
    } else if let Some(why) = fail {
        outcome = Outcome::Fail(why);
        e.states = vec![StateSnap::ErrorChecking];
        e.counts_failed = true;
        e.failure_reason = Some(match why {
            "transport" | "status" | "user" => "Network",
            _ => "Internal",
        });
    } else if body_unparseable {
        outcome = Outcome::ParseError;
        e.states = vec![StateSnap::ErrorChecking];
        e.reports.push(all_apps_report("parse-error", vec![ev(3, 0, Some(0))]));
        e.counts_failed = true;
        e.contact = true;
        e.failure_reason = Some("Omaha");
    } else {
        let doc = usable.clone().unwrap();
        e.server_response = true;
        let offered: Vec<&DocApp> =
            doc.apps.iter().filter(|a| a.updatecheck.as_ref().map(|u| u.status == "ok").unwrap_or(false)).collect();
        let is_offered = |a: &DocApp| a.updatecheck.as_ref().map(|u| u.status == "ok").unwrap_or(false);
        // report over the known offered apps with one event each; app order inside a report is free
        let offered_report = |what: &'static str, evs: Vec<EventExp>| -> ReportExp {
            ReportExp {
                what,
                apps: apps
                    .iter()
                    .filter_map(|app| {
                        offered.iter().find(|o| o.id == app.id).map(|o| {
                            (
                                app.id.clone(),
                                app.version.clone(),
                                o.updatecheck.as_ref().and_then(|u| u.manifest_version.clone()),
                                evs.clone(),
                            )
                        })
                    })
                    .collect(),
            }
        };
        let push_report = |e: &mut Expect, r: ReportExp| {
            if r.apps.is_empty() {
                e.empty_report_allowed = true;
            } else {
                e.reports.push(r);
            }
        };
        if offered.is_empty() {
            outcome = Outcome::NoUpdate;
            e.states = vec![StateSnap::NoUpdate];
            e.result = Some(doc.apps.iter().map(|a| (a.id.clone(), vec!["NoUpdate"])).collect());
            e.contact = true;
            e.learns = true;
        } else {
            match &c.plan {
                None => {
                    outcome = Outcome::Incomplete;
                }
                Some(p) if !p.ok => {
                    outcome = Outcome::PlanError;
                    e.states = vec![StateSnap::Installing, StateSnap::InstallationError];
                    push_report(&mut e, offered_report("plan-error", vec![ev(3, 0, Some(1))]));
                    e.counts_failed = true;
                    e.contact = true;
                    e.failure_reason = Some("Omaha");
                }
                Some(_) => match c.can_start {
                    None => outcome = Outcome::Incomplete,
                    Some((_, UpdDec::Deferred)) => {
                        outcome = Outcome::Deferred;
                        e.states = vec![StateSnap::Deferred];
                        push_report(&mut e, offered_report("deferred", vec![ev(3, 9, None)]));
                        e.result = Some(
                            doc.apps
                                .iter()
                                .map(|a| {
                                    (a.id.clone(), if is_offered(a) { vec!["DeferredByPolicy"] } else { vec!["NoUpdate", "DeferredByPolicy"] })
                                })
                                .collect(),
                        );
                        e.contact = true;
                        e.learns = true;
                    }
                    Some((_, UpdDec::Denied)) => {
                        outcome = Outcome::Denied;
                        e.states = vec![];
                        push_report(&mut e, offered_report("denied", vec![ev(3, 0, Some(3))]));
                        e.result = Some(
                            doc.apps
                                .iter()
                                .map(|a| {
                                    (a.id.clone(), if is_offered(a) { vec!["DeniedByPolicy"] } else { vec!["NoUpdate", "DeniedByPolicy"] })
                                })
                                .collect(),
                        );
                        e.contact = true;
                        e.learns = true;
                    }
                    Some((_, UpdDec::Ok)) => {
                        push_report(&mut e, offered_report("download-started", vec![ev(13, 1, None)]));
                        match &c.install_done {
                            None => {
                                outcome = Outcome::Incomplete;
                                e.states = vec![StateSnap::Installing];
                            }
                            Some((_, results)) => {
                                // per-app result report: known offered apps in response order
                                let mut per_app = vec![];
                                let mut installed = vec![];
                                for (o, res) in offered.iter().zip(results.iter()) {
                                    if let Some(app) = known(&o.id) {
                                        let nv = o.updatecheck.as_ref().and_then(|u| u.manifest_version.clone());
                                        let evx = match res {
                                            InstRes::Installed => ev(14, 1, None),
                                            InstRes::Deferred => ev(3, 9, None),
                                            InstRes::Failed => ev(3, 0, Some(2)),
                                        };
                                        if *res == InstRes::Installed {
                                            installed.push((app.id.clone(), app.version.clone(), nv.clone(), vec![ev(3, 1, None)]));
                                        }
                                        per_app.push((app.id.clone(), app.version.clone(), nv, vec![evx]));
                                    }
                                }
                                push_report(&mut e, ReportExp { what: "install-results", apps: per_app });
                                if !installed.is_empty() {
                                    e.reports.push(ReportExp { what: "update-complete", apps: installed });
                                }
                                let nfailed = results.iter().filter(|r| **r == InstRes::Failed).count();
                                let mut it = results.iter();
                                e.result = Some(
                                    doc.apps
                                        .iter()
                                        .map(|a| {
                                            let act = if is_offered(a) {
                                                match it.next() {
                                                    Some(InstRes::Installed) => "Updated",
                                                    Some(InstRes::Deferred) => "DeferredByPolicy",
                                                    Some(InstRes::Failed) => "InstallPlanExecutionError",
                                                    None => "?",
                                                }
                                            } else {
                                                "NoUpdate"
                                            };
                                            (a.id.clone(), vec![act])
                                        })
                                        .collect(),
                                );
                                e.installer_errors = nfailed;
                                e.states = if nfailed > 0 {
                                    vec![StateSnap::Installing, StateSnap::InstallationError]
                                } else {
                                    vec![StateSnap::Installing]
                                };
                                outcome = Outcome::Installed { failed: nfailed };
                                e.contact = true;
                                e.learns = true;
                            }
                        }
                    }
                },
            }
        }
    }
    e.outcome = Some(outcome.clone());
    {
        let header_safe = |id: &str| id.bytes().all(|b| (0x20..0x7f).contains(&b) || b == b'\t');
        let mut kept = vec![];
        for rep in std::mem::take(&mut e.reports) {
            let unsafe_n = rep.apps.iter().filter(|a| !header_safe(&a.0)).count();
            if unsafe_n > 0 && unsafe_n == rep.apps.len() {
                e.unbuildable_lost += if rep.what == "install-results" { rep.apps.iter().map(|a| a.3.len()).sum::<usize>().max(1) } else { 1 };
            } else {
                if unsafe_n > 0 {
                    e.reports_buildability_undecided = true;
                }
                kept.push(rep);
            }
        }
        e.reports = kept;
    }

    // ---- advance the model state (only for checks that ran to their end)
    if c.complete && outcome != Outcome::Incomplete {
        if e.counts_failed {
            st.failed += 1;
        } else {
            st.failed = 0;
        }
        if e.contact {
            if let Some((wall, _)) = c.final_clock {
                st.last_contact_us = Some(trunc_us(wall));
            }
        }
        if e.learns {
            if let Some(doc) = &usable {
                merge_doc(&mut st.apps, doc);
            }
        }
        if let Outcome::Installed { failed } = outcome {
            let any_updated = c.install_done.as_ref().map(|(_, r)| r.iter().any(|x| *x == InstRes::Installed)).unwrap_or(false);
            if failed > 0 {
                st.failed_installs = st.failed_installs.saturating_add(1);
            } else if any_updated {
                st.failed_installs = 0;
            }
        }
    }
    c.after = st.clone();
    c.exp = e;
}
