//! Reference models (oracles), written from the property statements.
