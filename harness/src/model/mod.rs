//! Reference models (oracles), written from the property statements.
pub mod flow;
