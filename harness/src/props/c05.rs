//! C05 — Policy consent gates every network, install and reboot action.

use crate::common::{Args, Report, Rng};
use crate::props::gen::*;
use crate::props::monitors::*;
use crate::sim::driver::*;
use crate::sim::world::*;
use serde_json::json;

pub fn run(args: &Args, r: &mut Report) {
    r.rule_text = "start()-mode histories of 1..5 checks (all ten paths) in which the policy double answers every update_check_allowed \
        question with one of the five decisions and random RequestParams (16 combinations), update_can_start with one of three \
        decisions, reboot_needed / reboot_allowed with scripted sequences (false^k true); the hostile scheduler fires timers in \
        random order, releases several gates before one poll and injects up to 3 control requests (either source) at arbitrary \
        quiescent points.  A second workload starts the machine on app sets that contain an app with an empty id or version \
        0.0.0.0 at every position.  One-shot checks are included for the install / reboot clauses only (they never consult \
        update_check_allowed by definition).  Shape key = history shape + decision sequence + control-request count.  \
        Non-trivial = a negative / deferred decision, non-default params, a control request or an invalid app."
        .into();
    r.require(&[
        "c05-no-request-outside-check",
        "c05-check-follows-positive-decision",
        "c05-negative-decision-no-action",
        "c05-request-source",
        "c05-updatecheck-flags",
        "c05-install-after-approval",
        "c05-no-install-after-deferral-or-denial",
        "c05-reboot-consent",
        "c05-invalid-app-set-never-starts",
    ]);
    r.assume("oneshot_check() performs one unconditional check with default parameters by definition; the consent and validity clauses are judged on start() runs");
    let n = args.budget(30_000, 300_000);
    for i in 0..n {
        if args.skip(i) {
            continue;
        }
        let mut rng = Rng::derive(args.seed, args.shard, 5, i);
        if i % 10 == 9 {
            invalid_case(args, r, i, &mut rng);
            continue;
        }
        let start_mode = i % 10 != 8;
        let len = if start_mode { 1 + rng.usize(5) } else { 1 };
        let cfg = HistCfg {
            start_mode,
            cup: rng.chance(1, 4),
            n_apps: 1 + rng.usize(3),
            paths: (0..len).map(|_| *rng.pick(&ALL_PATHS)).collect(),
            cohorts: false,
            deliveries: rng.chance(1, 4),
            random_params: true,
            throttles: true,
        };
        let mut case = gen_history(&mut rng, &cfg);
        let apps = case.setup.apps.clone();
        let mut l1 = add_reboot_waits(&mut case.script, &mut rng, false, &apps);
        // the permission is a one-shot answer: whatever the policy would say if it were asked again after its
        // first yes is never consulted by an implementation that acts on the most recent answer
        for c in case.script.checks.iter_mut() {
            if c.reboot_needed && rng.bool() {
                c.reboot_allowed.extend([false, false, true]);
                l1.push_str("tail,");
            }
        }
        // control requests consume extra decisions: make the decision list long enough with random answers
        for _ in 0..6 {
            let p = gen_params(&mut rng);
            case.script.decisions.push(*rng.pick(&[Decision::Ok(p), Decision::Ok(p), Decision::OkDeferred(p), Decision::TooSoon, Decision::Throttled, Decision::Denied]));
        }
        case.shape.push(l1);
        case.shape.push(format!("{:?}", case.script.decisions.iter().map(|d| match d { Decision::Ok(_) => 'O', Decision::OkDeferred(_) => 'o', Decision::TooSoon => 's', Decision::Throttled => 't', Decision::Denied => 'd' }).collect::<String>()));
        let mut h = Hostile { ctl_budget: if start_mode { rng.usize(4) } else { 0 }, ctl_num: 1, ctl_den: 6, spurious: rng.bool(), multi_release: rng.bool(), lag: rng.bool() };
        case.shape.push(format!("ctl{}", h.ctl_budget));
        // policy answers (and the other environment calls) that take time: requests can then arrive while a
        // decision is pending, e.g. before the first answer about the reboot
        if start_mode && rng.bool() {
            case.script.gated = GateCfg { policy: rng.chance(3, 4), plan: rng.bool(), install: rng.bool(), reboot: rng.bool() };
            case.shape.push(format!("gated{}{}{}{}", case.script.gated.policy as u8, case.script.gated.plan as u8, case.script.gated.install as u8, case.script.gated.reboot as u8));
            r.count("cases-with-slow-policy-answers", case.script.gated.policy as u64);
            if case.script.gated.policy && rng.chance(1, 3) {
                // directed: a first yes that is still on its way while requests arrive, and a no behind it
                for c in case.script.checks.iter_mut() {
                    if c.reboot_needed {
                        c.reboot_allowed = vec![true, false, true];
                    }
                }
                h.ctl_budget = 3;
                case.ctl_at_reboot_question = true;
                case.shape.push("yes-then-no".into());
            }
        }
        if start_mode && rng.chance(1, 4) {
            let n = 1 + rng.usize(14);
            case.ctl_on_emission.push((n, rng.bool()));
            case.shape.push(format!("ce{}", n));
        }
        case.nontrivial = true;
        case.max_steps = 8_000;
        let run = run_hostile(&case, &mut rng, &h);
        r.eval(case.shape_key(), case.nontrivial);
        r.interleavings.insert(run.sig);
        let mut m = Mon::default();
        {
            let g = lock(&run.w);
            mon_c05(&g.log, &run.flow, &case.setup, &mut m);
        }
        if let Some(p) = &run.panicked {
            report_panic(r, args, i, p, &run.w, case_desc(&case));
        }
        r.count(&format!("end-{:?}", run.end), 1);
        if r.want_sample() && i % 60 == 7 {
            r.sample(json!({
                "case": i, "shape": case.shape,
                "decisions_and_checks": run.flow.alloweds.iter().map(|a| format!("seq {} options_on_demand={} -> {:?}", a.0, a.4, a.5)).collect::<Vec<_>>(),
                "requests": run.flow.checks.iter().map(|c| format!("check #{} params {:?}: {} update-check requests, {} reports", c.idx, c.params, c.uc.len(), c.reports.len())).collect::<Vec<_>>(),
            }));
        }
        absorb(r, args, i, m, &run.w, case_desc(&case));
    }
}

fn invalid_case(args: &Args, r: &mut Report, i: u64, rng: &mut Rng) {
    let n = 1 + rng.usize(4);
    let mut apps = gen_apps(rng, n);
    let bad = rng.usize(n);
    let kind = rng.below(3);
    match kind {
        0 => apps[bad].id = String::new(),
        1 => apps[bad].version = [0, 0, 0, 0],
        _ => {
            apps[bad].id = String::new();
            apps[bad].version = [0, 0, 0, 0];
        }
    }
    // in a third of the cases the app set is still valid when start() is called and becomes invalid before the
    // returned stream is polled for the first time (the machine has not started yet)
    let late = rng.chance(1, 3);
    let valid_apps = gen_apps(rng, n);
    let setup = Setup { apps: if late { valid_apps } else { apps }, start_mode: true, cup: rng.bool(), ..Default::default() };
    let mut case = FlowCase::new(setup, Script::default());
    case.shape = vec!["invalid-app".into(), format!("n{} pos{} kind{} late={}", n, bad, kind, late)];
    case.nontrivial = true;
    let run = if late {
        let w = make_world(&case);
        let mut d = Driver::new(&w, &case.setup);
        d.max_steps = case.max_steps;
        d.invalidate_app(bad, kind != 1, kind != 0);
        let end = d.run(case.sched, rng, |d| d.count_state(&StateSnap::Idle) >= 1);
        finish_run(&case, w, d, end)
    } else {
        run_case(&case, rng)
    };
    r.eval(case.shape_key(), true);
    let mut m = Mon::default();
    {
        let g = lock(&run.w);
        mon_c05_invalid(&g.log, &mut m);
    }
    m.judge("c05-invalid-app-set-stream-ends", run.end == RunEnd::Ended, "", || format!("stream did not end for an invalid app set: {:?}", run.end));
    if let Some(p) = &run.panicked {
        report_panic(r, args, i, p, &run.w, case_desc(&case));
    }
    absorb(r, args, i, m, &run.w, case_desc(&case));
}
