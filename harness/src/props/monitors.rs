//! Offline monitors over an analysed log.  Each monitor judges only its own property's
//! projection of the flow model, so that no check demands more than its property states.

use crate::model::flow::*;
use crate::sim::driver::Setup;
use crate::sim::world::*;
use serde_json::Value;
use std::collections::{BTreeMap, BTreeSet};

#[derive(Default)]
pub struct Mon {
    pub viols: Vec<(String, String, String)>, // rule, signature, detail
    pub hits: BTreeMap<String, u64>,
}
impl Mon {
    pub fn hit(&mut self, rule: &str) {
        *self.hits.entry(rule.to_string()).or_insert(0) += 1;
    }
    pub fn fail(&mut self, rule: &str, sig: &str, detail: String) {
        self.viols.push((rule.to_string(), format!("{} {}", rule, sig).trim().to_string(), detail));
    }
    /// rule judged; `ok` false => violation
    pub fn judge(&mut self, rule: &str, ok: bool, sig: &str, detail: impl FnOnce() -> String) {
        self.hit(rule);
        if !ok {
            self.fail(rule, sig, detail());
        }
    }
}

fn judged(c: &CheckView) -> bool {
    c.complete && !matches!(c.exp.outcome, Some(Outcome::Incomplete) | None)
}

pub fn outcome_label(c: &CheckView) -> String {
    match &c.exp.outcome {
        Some(Outcome::Fail(w)) => format!("fail-{}", w),
        Some(Outcome::ParseError) => "parse-error".into(),
        Some(Outcome::NoUpdate) => "no-update".into(),
        Some(Outcome::PlanError) => "plan-error".into(),
        Some(Outcome::Deferred) => "deferred".into(),
        Some(Outcome::Denied) => "denied".into(),
        Some(Outcome::Installed { failed }) => {
            if *failed > 0 {
                "install-failed".into()
            } else {
                "installed".into()
            }
        }
        Some(Outcome::Incomplete) | None => "incomplete".into(),
    }
}

// ---------------------------------------------------------------------------------------------
// C04: announced states and result match what happened

pub fn mon_c04(f: &Flow, setup: &Setup, m: &mut Mon) {
    // a check that delivered its result although a step its response required never happened (no install
    // plan requested for an offered update, policy never asked, installer never run): the model cannot name
    // an outcome for it, which is itself the violation ("the states name the path actually taken")
    for c in f.checks.iter().filter(|c| c.complete && matches!(c.exp.outcome, Some(Outcome::Incomplete))) {
        m.judge("c04-result-without-required-steps", false, "", || {
            format!(
                "check #{} delivered {:?} but the flow its response required was not carried out (plan requested: {}, policy asked: {}, install finished: {}); events {:?}",
                c.idx,
                c.result.as_ref().map(|r| r.1.as_ref().map(|l| l.len()).map_err(|e| e.clone())),
                c.plan.is_some(),
                c.can_start.is_some(),
                c.install_done.is_some(),
                c.events.iter().map(|e| short(&e.1)).collect::<Vec<_>>()
            )
        });
    }
    for c in f.checks.iter().filter(|c| judged(c)) {
        m.hit("c04-result-without-required-steps");
        let lab = outcome_label(c);
        let e = &c.exp;
        // first event is CheckingForUpdates by segmentation; exactly one result closes the check
        let n = c.events.len();
        // "preceded by the final schedule and protocol state": both, directly before the result; the statement
        // fixes no order between the two
        let tail_ok = n >= 4
            && matches!(c.events[n - 1].1, EvSnap::Result(_))
            && matches!(
                (&c.events[n - 3].1, &c.events[n - 2].1),
                (EvSnap::Schedule(_), EvSnap::Proto(_)) | (EvSnap::Proto(_), EvSnap::Schedule(_))
            );
        m.judge("c04-final-schedule-protocol-result", tail_ok, &lab, || {
            format!("check #{}: last events {:?}", c.idx, c.events.iter().rev().take(4).map(|x| short(&x.1)).collect::<Vec<_>>())
        });
        let results = c.events.iter().filter(|x| matches!(x.1, EvSnap::Result(_))).count();
        m.judge("c04-exactly-one-result", results == 1, &lab, || format!("check #{}: {} results", c.idx, results));
        let states: Vec<StateSnap> = c
            .events
            .iter()
            .skip(1)
            .filter_map(|x| if let EvSnap::State(s) = &x.1 { Some(s.clone()) } else { None })
            .collect();
        m.judge("c04-states-path", states == e.states, &lab, || {
            format!("check #{} ({}): states announced {:?}, expected {:?}", c.idx, lab, states, e.states)
        });
        let resp_ev = c.events.iter().filter(|x| matches!(x.1, EvSnap::Response(_))).count();
        m.judge("c04-server-response-iff", resp_ev == if e.server_response { 1 } else { 0 }, &lab, || {
            format!("check #{} ({}): {} OmahaServerResponse events, expected {}", c.idx, lab, resp_ev, e.server_response)
        });
        // installer-error events: one per failed app, all before InstallationError
        let ierr: Vec<u64> =
            c.events.iter().filter(|x| matches!(x.1, EvSnap::InstallerError(_))).map(|x| x.0).collect();
        let ie_state = c.events.iter().find(|x| matches!(x.1, EvSnap::State(StateSnap::InstallationError))).map(|x| x.0);
        let order_ok = match ie_state {
            Some(s) => ierr.iter().all(|x| *x < s),
            None => ierr.is_empty(),
        };
        m.judge("c04-installer-errors", ierr.len() == e.installer_errors && order_ok, &lab, || {
            format!("check #{} ({}): {} InstallerError events (expected {}), ordered-before-state={}", c.idx, lab, ierr.len(), e.installer_errors, order_ok)
        });
        // result
        let (ok, why) = match (&c.result, &e.result) {
            (Some((_, Err(_))), None) => (true, String::new()),
            (Some((_, Ok(list))), Some(exp)) => {
                if list.len() != exp.len() {
                    (false, format!("result lists {} apps, response had {}", list.len(), exp.len()))
                } else {
                    let mut bad = String::new();
                    for (a, (id, acts)) in list.iter().zip(exp.iter()) {
                        if &a.app_id != id || !acts.iter().any(|x| *x == a.action) {
                            bad = format!("app {} got action {}, expected {} {:?}", a.app_id, a.action, id, acts);
                            break;
                        }
                    }
                    (bad.is_empty(), bad)
                }
            }
            (Some((_, Ok(_))), None) => (false, "result is Ok but the check failed".into()),
            (Some((_, Err(e))), Some(_)) => (false, format!("result is Err({}) but the check succeeded", e)),
            (None, _) => (false, "no result".into()),
        };
        m.judge("c04-result-actions", ok, &lab, || format!("check #{} ({}): {}", c.idx, lab, why));
    }
    if setup.start_mode {
        // after each completed check: Idle, with WaitingForReboot in between iff a reboot is pending
        for c in f.checks.iter().filter(|c| judged(c)) {
            let end = c.end_seq;
            let wait = f.waits.iter().find(|wv| wv.start_seq > end && f.checks.get(c.idx + 1).map(|n| wv.start_seq < n.start_seq).unwrap_or(true));
            let idle = f.idle.iter().find(|s| **s > end && f.checks.get(c.idx + 1).map(|n| **s < n.start_seq).unwrap_or(true));
            let reboot_pending = matches!(c.exp.outcome, Some(Outcome::Installed { failed: 0 })) && matches!(c.reboot_needed, Some((_, true)));
            // only judge if the log continued far enough (a later check, or an idle, exists)
            let continued = idle.is_some() || f.checks.len() > c.idx + 1;
            if continued {
                m.judge("c04-idle-after-check", idle.is_some(), "", || format!("check #{}: no Idle after the result", c.idx));
                m.judge("c04-waiting-for-reboot-iff", wait.is_some() == reboot_pending, if reboot_pending { "missing" } else { "spurious" }, || {
                    format!("check #{}: WaitingForReboot announced={} reboot pending={}", c.idx, wait.is_some(), reboot_pending)
                });
            }
        }
    }
}

pub fn short(e: &EvSnap) -> String {
    match e {
        EvSnap::State(s) => format!("{:?}", s),
        EvSnap::Schedule(_) => "Schedule".into(),
        EvSnap::Proto(_) => "Proto".into(),
        EvSnap::Result(Ok(_)) => "Result(Ok)".into(),
        EvSnap::Result(Err(_)) => "Result(Err)".into(),
        EvSnap::Progress(_) => "Progress".into(),
        EvSnap::Response(_) => "Response".into(),
        EvSnap::InstallerError(_) => "InstallerError".into(),
    }
}

// ---------------------------------------------------------------------------------------------
// C06: retries bounded, only transient, backed off; metrics account for the attempts

fn strip_request_id(v: &Value) -> Value {
    let mut v = v.clone();
    if let Some(r) = v.get_mut("request").and_then(|r| r.as_object_mut()) {
        r.remove("requestid");
    }
    v
}

pub fn mon_c06(f: &Flow, m: &mut Mon, backoffs: &mut Vec<(usize, u128)>) {
    for c in f.checks.iter() {
        let lab = outcome_label(c);
        m.judge("c06-max-three-attempts", c.uc.len() <= 3, "", || format!("check #{}: {} update-check requests", c.idx, c.uc.len()));
        for (k, a) in c.uc.iter().enumerate() {
            let Some((rseq, d)) = &a.resp else { continue };
            let Some(retry) = c.exp.retry_after_attempt.get(k) else { continue };
            let next = c.uc.get(k + 1);
            let cls = d.class();
            let cls = cls.trim_end_matches(char::is_numeric).to_string();
            // waits armed between this response and the next request (or the end of the check)
            let hi = next.map(|n| n.seq).unwrap_or(c.end_seq);
            let waits: Vec<&(u64, usize, TimerSpec)> = c.waits.iter().filter(|wt| wt.0 > *rseq && wt.0 < hi).collect();
            if *retry {
                // only judge when the check went on (not cut by a crash / end of run)
                if next.is_some() || c.complete {
                    m.judge("c06-retry-after-transient", next.is_some(), &format!("missing k={} {}", k + 1, cls), || {
                        format!("check #{}: attempt {} ended with {} and no poll interval in force, but no further attempt was made", c.idx, k + 1, d.class())
                    });
                }
                if next.is_some() {
                    let centre = (1u128 << k) * 1000;
                    let ok = waits.len() == 1
                        && match waits[0].2 {
                            TimerSpec::For(ns) => {
                                backoffs.push((k, ns));
                                ns >= (centre - 500) * 1_000_000 && ns <= (centre + 500) * 1_000_000
                            }
                            _ => false,
                        };
                    m.judge("c06-backoff-window", ok, &format!("k={}", k + 1), || {
                        format!("check #{}: waits between attempt {} and {}: {:?}; expected exactly one wait_for in [{}, {}) ms", c.idx, k + 1, k + 2, waits, centre - 500, centre + 500)
                    });
                }
            } else {
                m.judge("c06-no-retry", next.is_none(), &format!("after-{} k={}", cls, k + 1), || {
                    format!("check #{} ({}): attempt {} ended with {} (poll interval before={:?}) but another update-check request followed", c.idx, lab, k + 1, d.class(), a.poll_before)
                });
            }
        }
        // attempts share session and payload, never a request id
        if c.uc.len() > 1 {
            let s0 = &c.uc[0].session;
            let p0 = strip_request_id(&c.uc[0].json);
            let same = c.uc.iter().all(|a| &a.session == s0 && a.session.is_some() && strip_request_id(&a.json) == p0);
            m.judge("c06-attempts-same-session-payload", same, "", || format!("check #{}: attempts differ in session or payload", c.idx));
            let ids: BTreeSet<_> = c.uc.iter().filter_map(|a| a.request_id.clone()).collect();
            m.judge("c06-fresh-request-id", ids.len() == c.uc.len(), "", || format!("check #{}: request ids {:?}", c.idx, c.uc.iter().map(|a| a.request_id.clone()).collect::<Vec<_>>()));
        }
        // a report is sent once: no two reports of a check identical modulo requestid
        if c.reports.len() > 1 {
            let mut seen = BTreeSet::new();
            let mut dup = false;
            for r in &c.reports {
                if !seen.insert(strip_request_id(&r.json).to_string()) {
                    dup = true;
                }
            }
            m.judge("c06-report-sent-once", !dup, "", || format!("check #{}: a report was sent twice", c.idx));
        }
        // metrics
        if judged(c) && !matches!(c.exp.outcome, Some(Outcome::Fail("construction"))) {
            let attempts = c.uc.iter().filter(|a| a.resp.is_some()).count();
            let rt = c.metrics.iter().filter(|x| matches!(x.1, MetricSnap::ResponseTime { .. })).count();
            m.judge("c06-response-time-per-attempt", rt == attempts, "", || format!("check #{}: {} UpdateCheckResponseTime metrics for {} attempts", c.idx, rt, attempts));
            let rpc: Vec<&MetricSnap> = c.metrics.iter().filter(|x| matches!(x.1, MetricSnap::RequestsPerCheck { .. })).map(|x| &x.1).collect();
            let got_usable = !matches!(c.exp.outcome, Some(Outcome::Fail(_)));
            let ok = rpc.len() == 1 && matches!(rpc[0], MetricSnap::RequestsPerCheck { count, ok } if *count as usize == attempts && *ok == got_usable);
            m.judge("c06-requests-per-check", ok, "", || format!("check #{} ({}): RequestsPerCheck {:?}, attempts made {}, usable={}", c.idx, lab, rpc, attempts, got_usable));
        }
    }
    // pings are sent once: no two pings share a request id
    let ids: BTreeSet<_> = f.pings.iter().filter_map(|p| p.req.request_id.clone()).collect();
    if f.pings.len() > 1 {
        m.judge("c06-ping-fresh-request-id", ids.len() == f.pings.len(), "", || "two pings share a request id".into());
    }
}

// ---------------------------------------------------------------------------------------------
// C10: every update outcome is reported exactly once

fn find_app<'a>(json: &'a Value, id: &str) -> Vec<&'a Value> {
    json.get("request")
        .and_then(|r| r.get("app"))
        .and_then(|a| a.as_array())
        .map(|a| a.iter().filter(|x| x.get("appid").and_then(|v| v.as_str()) == Some(id)).collect())
        .unwrap_or_default()
}
fn app_count(json: &Value) -> usize {
    json.get("request").and_then(|r| r.get("app")).and_then(|a| a.as_array()).map(|a| a.len()).unwrap_or(0)
}

fn delivery_failed(r: &ReqView) -> Option<bool> {
    match &r.resp {
        None => None,
        Some((_, Delivered::Reply { authentic: true, status, .. })) if (200..300).contains(status) => Some(false),
        Some(_) => Some(true),
    }
}

pub fn mon_c10(f: &Flow, m: &mut Mon) {
    let mut all_ids: BTreeSet<String> = BTreeSet::new();
    let mut dup_id = false;
    for c in f.checks.iter() {
        for r in c.uc.iter().chain(c.reports.iter()).chain(c.others.iter()) {
            if let Some(id) = &r.request_id {
                if !all_ids.insert(id.clone()) {
                    dup_id = true;
                }
            }
        }
    }
    for c in f.checks.iter().filter(|c| judged(c)) {
        let lab = outcome_label(c);
        let e = &c.exp;
        if e.reports_buildability_undecided {
            m.hit("c10-report-buildability-undecided-skipped");
            continue;
        }
        // reports observed: event requests, plus (optionally) requests with an empty app list
        let empties: Vec<&ReqView> = c.others.iter().filter(|r| app_count(&r.json) == 0).collect();
        let stray_other = c.others.len() - empties.len();
        m.judge("c10-no-unclassifiable-request", stray_other == 0, "", || format!("check #{}: request that is neither update check, event report nor ping", c.idx));
        if !e.empty_report_allowed {
            m.judge("c10-no-empty-report", empties.is_empty(), &lab, || format!("check #{} ({}): report with an empty app list", c.idx, lab));
        }
        m.judge("c10-report-sequence", c.reports.len() == e.reports.len(), &format!("{} got={} want={}", lab, c.reports.len(), e.reports.len()), || {
            format!(
                "check #{} ({}): {} event reports sent, expected {} ({:?})",
                c.idx,
                lab,
                c.reports.len(),
                e.reports.len(),
                e.reports.iter().map(|r| r.what).collect::<Vec<_>>()
            )
        });
        let session = c.uc.first().and_then(|a| a.session.clone());
        for (r, x) in c.reports.iter().zip(e.reports.iter()) {
            m.judge("c10-report-session", r.session.is_some() && r.session == session, x.what, || {
                format!("check #{}: report {} has session {:?}, update check had {:?}", c.idx, x.what, r.session, session)
            });
            // apps as a set
            let n = app_count(&r.json);
            let mut ok = n == x.apps.len();
            let mut why = if ok { String::new() } else { format!("{} apps in report, expected {:?}", n, x.apps.iter().map(|a| &a.0).collect::<Vec<_>>()) };
            if ok {
                for (id, prev, next, evs) in &x.apps {
                    let found = find_app(&r.json, id);
                    if found.len() != 1 {
                        ok = false;
                        why = format!("app {} appears {} times", id, found.len());
                        break;
                    }
                    let got: Vec<&Value> = found[0].get("event").and_then(|e| e.as_array()).map(|a| a.iter().collect()).unwrap_or_default();
                    if got.len() != evs.len() {
                        ok = false;
                        why = format!("app {}: {} events, expected {}", id, got.len(), evs.len());
                        break;
                    }
                    for (g, w) in got.iter().zip(evs.iter()) {
                        let t = g.get("eventtype").and_then(|v| v.as_u64());
                        let rs = g.get("eventresult").and_then(|v| v.as_u64());
                        let ec = g.get("errorcode").and_then(|v| v.as_i64());
                        let pv = g.get("previousversion").and_then(|v| v.as_str());
                        let nv = g.get("nextversion").and_then(|v| v.as_str());
                        if t != Some(w.eventtype) || rs != Some(w.eventresult) || ec != w.errorcode {
                            ok = false;
                            why = format!("app {}: event codes {:?}/{:?}/{:?}, expected {:?}", id, t, rs, ec, w);
                        } else if pv != Some(prev.as_str()) {
                            ok = false;
                            why = format!("app {}: previousversion {:?}, expected {}", id, pv, prev);
                        } else if nv != next.as_deref() {
                            ok = false;
                            why = format!("app {}: nextversion {:?}, expected {:?}", id, nv, next);
                        }
                    }
                    if !ok {
                        break;
                    }
                }
            }
            m.judge("c10-report-content", ok, x.what, || format!("check #{} ({}): report {}: {}\nbody={}", c.idx, lab, x.what, why, r.json));
        }
        // lost-event accounting
        let mut lo = 0usize;
        let mut hi = 0usize;
        let mut all_known = true;
        for (r, x) in c.reports.iter().zip(e.reports.iter()) {
            match delivery_failed(r) {
                Some(true) => {
                    // "counted once per event": the per-app result report carries one event per app, every
                    // other report carries one event shared by its apps
                    let n = if x.what == "install-results" { x.apps.iter().map(|a| a.3.len()).sum::<usize>().max(1) } else { 1 };
                    lo += n;
                    hi += n;
                }
                Some(false) => {}
                None => all_known = false,
            }
        }
        for r in &empties {
            if delivery_failed(r) == Some(true) {
                hi += 1; // an (optional) empty report may be counted or not
            }
        }
        lo += e.unbuildable_lost;
        hi += e.unbuildable_lost;
        let lost = c.metrics.iter().filter(|x| matches!(x.1, MetricSnap::EventLost(_))).count();
        if all_known && c.reports.len() == e.reports.len() {
            m.judge("c10-lost-event-accounting", lost >= lo && lost <= hi, if lost < lo { "undercounted" } else { "overcounted" }, || {
                format!("check #{} ({}): {} OmahaEventLost metrics, expected between {} and {}", c.idx, lab, lost, lo, hi)
            });
        }
    }
    if all_ids.len() > 1 {
        m.judge("c10-fresh-request-ids", !dup_id, "", || "a request id was reused within the run".into());
    }
}

// ---------------------------------------------------------------------------------------------
// State carried across checks (C07 poll interval, C08 counter / last contact, C09 cohorts):
// compare the model with what the policy is shown, what observers are told and what is committed.

#[derive(Clone, Copy, PartialEq)]
pub enum Proj {
    Poll,
    Book,
    Cohort,
}

fn poll_known(p: Option<u128>) -> bool {
    p != Some(u128::MAX)
}

pub fn decode_book(snap: &BTreeMap<String, Val>) -> (u64, Option<i64>, Option<u128>) {
    let failed = match snap.get("consecutive_failed_update_checks") {
        Some(Val::I(v)) if *v >= 0 => *v as u64,
        _ => 0,
    };
    let lc = match snap.get("last_update_time") {
        Some(Val::I(v)) => Some(*v),
        _ => None,
    };
    let poll = match snap.get("server_dictated_poll_interval") {
        Some(Val::I(v)) if *v >= 0 => Some(*v as u128 * 1000),
        _ => None,
    };
    (failed, lc, poll)
}

pub fn mon_state(f: &Flow, setup: &Setup, which: Proj, m: &mut Mon) {
    let pfx = match which {
        Proj::Poll => "c07",
        Proj::Book => "c08",
        Proj::Cohort => "c09",
    };
    let cmp = |m: &mut Mon, seq: u64, place: &str, apps: Option<&Vec<AppSnap>>, sched: Option<&SchedSnap>, proto: Option<&ProtoSnap>, model: &MState| {
        match which {
            Proj::Poll => {
                if let Some(p) = proto {
                    if poll_known(model.poll_ns) {
                        m.judge(&format!("{}-poll-{}", pfx, place), p.poll_ns == model.poll_ns, "", || {
                            format!("at seq {} ({}): poll interval shown {:?}, expected {:?}", seq, place, p.poll_ns, model.poll_ns)
                        });
                    }
                }
            }
            Proj::Book => {
                if let Some(p) = proto {
                    m.judge(&format!("{}-counter-{}", pfx, place), p.failed as u64 == model.failed, "", || {
                        format!("at seq {} ({}): consecutive failed checks shown {}, expected {}", seq, place, p.failed, model.failed)
                    });
                }
                if let (Some(s), false) = (sched, f.last_contact_store_faulty) {
                    let shown = s.last_update_time.and_then(|p| p.wall()).map(trunc_us);
                    m.judge(&format!("{}-last-contact-{}", pfx, place), shown == model.last_contact_us, "", || {
                        format!("at seq {} ({}): last contact shown {:?} us, expected {:?} us", seq, place, shown, model.last_contact_us)
                    });
                }
            }
            Proj::Cohort => {
                if let Some(a) = apps {
                    let got: Vec<_> = a.iter().map(|x| (x.id.clone(), x.cohort.clone(), x.day)).collect();
                    let want: Vec<_> = model.apps.iter().map(|x| (x.id.clone(), x.cohort.clone(), x.day)).collect();
                    m.judge(&format!("{}-apps-{}", pfx, place), got == want, "", || {
                        format!("at seq {} ({}): apps shown {:?}\nexpected {:?}", seq, place, got, want)
                    });
                }
            }
        }
    };
    for n in &f.nexts {
        cmp(m, n.seq, "policy-next", Some(&n.apps), Some(&n.sched), Some(&n.proto), &n.model);
    }
    for a in &f.alloweds {
        cmp(m, a.0, "policy-allowed", Some(&a.1), Some(&a.2), Some(&a.3), &a.6);
    }
    if which == Proj::Poll {
        // every ProtocolStateChange event carries the model's interval
        for (seq, p, model) in &f.proto_events {
            if poll_known(model.poll_ns) {
                m.judge("c07-poll-announced", p.poll_ns == model.poll_ns, "", || {
                    format!("ProtocolStateChange at seq {} announces {:?}, expected {:?}", seq, p.poll_ns, model.poll_ns)
                });
            }
        }
    }
    // what the next request sends (C09): cohort attributes and both ping dates
    if which == Proj::Cohort {
        for c in f.checks.iter() {
            for a in c.uc.iter() {
                check_wire_apps(m, &a.json, &c.before.apps, true, a.seq);
            }
        }
        for p in &f.pings {
            check_wire_apps(m, &p.req.json, &p.before.apps, true, p.req.seq);
        }
    }
    // committed storage at quiescent points: after a complete check (+ its reboot wait) the
    // first Idle (start mode) / stream end (one-shot).
    let quiescent: Vec<u64> = if f.skip_all_commit_judgement { vec![] } else if setup.start_mode { f.idle.clone() } else { vec![u64::MAX] };
    for q in quiescent {
        if q == u64::MAX && !f.ended {
            continue;
        }
        // model state at q = state after the last check / ping that finished before q
        let mut model: Option<&MState> = None;
        let mut at = 0;
        let mut last_check_idx: Option<usize> = None;
        for c in f.checks.iter().filter(|c| c.complete && c.end_seq < q) {
            if c.end_seq >= at {
                at = c.end_seq;
                model = Some(&c.after);
                last_check_idx = Some(c.idx);
            }
        }
        if which == Proj::Cohort && last_check_idx.map(|k| f.skip_commit_judgement_after_checks.contains(&k)).unwrap_or(false) {
            continue;
        }
        for p in f.pings.iter().filter(|p| p.req.resp.as_ref().map(|r| r.0 < q).unwrap_or(false)) {
            let s = p.req.resp.as_ref().unwrap().0;
            if s >= at {
                at = s;
                model = Some(&p.after);
            }
        }
        let Some(model) = model else { continue };
        let Some(cm) = f.commits.iter().filter(|c| c.ok && c.seq < q).last() else {
            m.judge(&format!("{}-committed-at-quiescence", pfx), false, "no-commit", || format!("no successful commit before quiescent point {}", q));
            continue;
        };
        let (failed, lc, poll) = decode_book(&cm.snapshot);
        match which {
            Proj::Poll => {
                if poll_known(model.poll_ns) {
                    m.judge("c07-committed-at-quiescence", poll == model.poll_ns, "", || format!("committed poll interval {:?}, expected {:?} (quiescent point {})", poll, model.poll_ns, q));
                }
            }
            Proj::Book => {
                let lc_ok = f.last_contact_store_faulty || lc == model.last_contact_us;
                m.judge("c08-committed-at-quiescence", failed == model.failed && lc_ok, if failed != model.failed { "counter" } else { "last-contact" }, || {
                    format!("committed (counter {}, last contact {:?}) expected ({}, {:?}) at quiescent point {}", failed, lc, model.failed, model.last_contact_us, q)
                });
            }
            Proj::Cohort => {
                let mut ok = true;
                let mut why = String::new();
                for a in &model.apps {
                    let dec = match cm.snapshot.get(&a.id) {
                        Some(Val::S(js)) => decode_persisted_app(js),
                        _ => None,
                    };
                    if dec != Some((a.cohort.clone(), a.day)) {
                        ok = false;
                        why = format!("app {}: committed {:?}, expected {:?}", a.id, dec, (a.cohort.clone(), a.day));
                    }
                }
                m.judge("c09-committed-at-quiescence", ok, "", || format!("{} (quiescent point {})", why, q));
            }
        }
    }
}

/// The apps of a request body must carry exactly the model's cohort fields and ping dates.
fn check_wire_apps(m: &mut Mon, json: &Value, apps: &[AppSnap], expect_ping: bool, seq: u64) {
    for a in apps {
        let found = find_app(json, &a.id);
        if found.len() != 1 {
            m.judge("c09-wire-app-present", false, "", || format!("request at seq {}: app {} appears {} times", seq, a.id, found.len()));
            continue;
        }
        let o = found[0];
        let mut ok = true;
        let mut why = String::new();
        for (k, v) in ["cohort", "cohorthint", "cohortname"].iter().zip(a.cohort.iter()) {
            let got = o.get(*k).and_then(|x| x.as_str()).map(|s| s.to_string());
            if o.get(*k).is_some() != v.is_some() || got != *v {
                ok = false;
                why = format!("app {} attribute {}: sent {:?}, expected {:?}", a.id, k, o.get(*k), v);
            }
        }
        if expect_ping {
            let p = o.get("ping");
            let ad = p.and_then(|p| p.get("ad")).and_then(|v| v.as_u64());
            let rd = p.and_then(|p| p.get("rd")).and_then(|v| v.as_u64());
            let want = a.day.map(|d| d as u64);
            if p.is_none() || ad != want || rd != want {
                ok = false;
                why = format!("app {} ping: sent {:?}, expected ad=rd={:?}", a.id, p, want);
            }
        }
        m.judge("c09-wire-cohort-and-ping", ok, "", || format!("request at seq {}: {}", seq, why));
    }
}

// ---------------------------------------------------------------------------------------------
// C07 (log order): a changed poll interval is announced and committed before the flow continues

pub fn mon_c07_order(log: &[Rec], f: &Flow, m: &mut Mon) {
    // model poll before/after each authenticated response: replay the same rule as the flow model
    let mut poll: Option<u128> = f.checks.first().map(|c| c.before.poll_ns).or_else(|| f.nexts.first().map(|n| n.model.poll_ns)).unwrap_or(None);
    let mut restarts = f.restarts.iter();
    let mut next_restart = restarts.next();
    for (i, r) in log.iter().enumerate() {
        if let Some((seq, committed)) = next_restart {
            if r.seq >= *seq {
                poll = decode_book(committed).2;
                next_restart = restarts.next();
            }
        }
        let Ev::HttpResp { delivered, .. } = &r.ev else { continue };
        match delivered {
            Delivered::Reply { authentic: true, headers, .. } => {
                let new = match retry_after(headers) {
                    RetryAfter::Is(v) => v,
                    RetryAfter::DontCare => {
                        poll = Some(u128::MAX);
                        continue;
                    }
                };
                let changed = poll != new && poll != Some(u128::MAX);
                let was_unknown = poll == Some(u128::MAX);
                poll = new;
                if was_unknown || !changed {
                    if !was_unknown {
                        // unchanged: nothing has to be announced
                        m.hit("c07-unchanged-seen");
                    }
                    continue;
                }
                // scan forward: before the first "flow continues" entry we need the announcement and the commit
                let mut announced = false;
                let mut committed = false;
                let mut offender = None;
                for x in &log[i + 1..] {
                    match &x.ev {
                        Ev::PollStart | Ev::PollEnd | Ev::Metric(_) | Ev::StorageSet { .. } | Ev::StorageRemove { .. } | Ev::StorageGet { .. } => {}
                        Ev::Taken(EvSnap::Proto(p)) => {
                            if p.poll_ns == new {
                                announced = true;
                            }
                        }
                        Ev::Commit { ok: true, snapshot } => {
                            if decode_book(snapshot).2 == new {
                                committed = true;
                            }
                        }
                        Ev::Crash { .. } | Ev::Restart | Ev::Note(_) | Ev::GateRelease { .. } | Ev::Clock { .. } | Ev::CtlSend { .. } | Ev::CtlReply { .. } | Ev::HandleDrop { .. } => {
                            if matches!(x.ev, Ev::Crash { .. } | Ev::Restart) {
                                offender = Some("crash".to_string());
                                break;
                            }
                        }
                        other => {
                            offender = Some(format!("{:?}", other).chars().take(80).collect());
                            break;
                        }
                    }
                    if announced && committed {
                        break;
                    }
                }
                if offender.as_deref() == Some("crash") {
                    continue;
                }
                if offender.is_none() && !(announced && committed) {
                    // log ended before anything else happened: cannot judge
                    continue;
                }
                m.judge("c07-change-announced-and-committed-first", announced && committed, if !announced { "not-announced" } else { "not-committed" }, || {
                    format!("response at seq {} changed the poll interval to {:?}; announced={} committed={} before the flow continued with {:?}", r.seq, new, announced, committed, offender)
                });
            }
            _ => {}
        }
    }
}

// ---------------------------------------------------------------------------------------------
// C08: every committed (counter, last contact) pair is one the model held together

pub fn mon_c08_mixture(f: &Flow, m: &mut Mon) {
    for cm in f.commits.iter().filter(|c| c.ok) {
        let (failed, lc, _) = decode_book(&cm.snapshot);
        let ok = f.model_pairs.iter().any(|p| p.0 == failed && p.1 == lc);
        m.judge("c08-no-mixture", ok, "", || {
            format!("commit at seq {} holds (counter {}, last contact {:?}), a pair the model never held together; model pairs {:?}", cm.seq, failed, lc, f.model_pairs)
        });
    }
}

// ---------------------------------------------------------------------------------------------
// C09: per-app data is committed together with the check's result (never one without the other)

pub fn mon_c09_together(f: &Flow, m: &mut Mon) {
    let mut last_apps: Option<Vec<(String, Option<([Option<String>; 3], Option<u32>)>)>> = None;
    for cm in f.commits.iter().filter(|c| c.ok) {
        let (failed, lc, _) = decode_book(&cm.snapshot);
        let candidates: Vec<&(u64, Option<i64>, Option<Vec<AppSnap>>)> = f.model_tuples.iter().filter(|t| t.0 == failed && t.1 == lc).collect();
        if candidates.is_empty() {
            continue; // C08's no-mixture rule reports this
        }
        let rec = |id: &str| match cm.snapshot.get(id) {
            Some(Val::S(js)) => decode_persisted_app(js),
            _ => None,
        };
        // the per-app records either match the model state that belongs to this (counter, last contact)
        // pair, or (pair unchanged since the previous commit) are simply the same as in the previous commit
        let ok = candidates.iter().any(|t| match &t.2 {
            None => true,
            Some(apps) => apps.iter().all(|a| rec(&a.id) == Some((a.cohort.clone(), a.day))),
        });
        let cur: Vec<(String, Option<([Option<String>; 3], Option<u32>)>)> = f.model_tuples.iter().filter_map(|t| t.2.as_ref()).flat_map(|a| a.iter().map(|x| x.id.clone())).collect::<BTreeSet<_>>().into_iter().map(|id| { let r = rec(&id); (id, r) }).collect();
        let unchanged = last_apps.as_ref() == Some(&cur);
        m.judge("c09-apps-committed-with-result", ok || unchanged && candidates.len() > 1, "", || {
            format!("commit at seq {} stores (counter {}, last contact {:?}) together with per-app records {:?}, which do not belong to that check result", cm.seq, failed, lc, cur)
        });
        last_apps = Some(cur);
    }
}

// ---------------------------------------------------------------------------------------------
// C05: policy consent gates every network, install and reboot action

/// Every request of a check (update check, retries, event reports) carries the parameters the policy
/// decided for that check.
pub fn mon_request_params(f: &Flow, m: &mut Mon, src_rule: &str, flags_rule: &str) {
    for c in &f.checks {
        let p = c.params;
        for q in c.uc.iter().chain(c.reports.iter()) {
            let src = q.json.get("request").and_then(|r| r.get("installsource")).and_then(|v| v.as_str()).unwrap_or("");
            let want_src = if p.on_demand { "ondemand" } else { "scheduledtask" };
            let inter = q.headers.iter().find(|h| h.0.eq_ignore_ascii_case("x-goog-update-interactivity")).map(|h| String::from_utf8_lossy(&h.1).to_string());
            let want_inter = if p.on_demand { "fg" } else { "bg" };
            let kind = if q.kind == ReqKind::UpdateCheck { "update-check" } else { "event-report" };
            m.judge(src_rule, src == want_src && inter.as_deref() == Some(want_inter), kind, || {
                format!("check #{} {} request at seq {}: installsource={} interactivity={:?}, policy params {:?}", c.idx, kind, q.seq, src, inter, p)
            });
            if q.kind == ReqKind::UpdateCheck {
                let apps = q.json.get("request").and_then(|r| r.get("app")).and_then(|a| a.as_array()).cloned().unwrap_or_default();
                let ok = apps.iter().all(|a| {
                    let uc = a.get("updatecheck");
                    let dis = uc.and_then(|u| u.get("updatedisabled")).and_then(|v| v.as_bool()).unwrap_or(false);
                    let same = uc.and_then(|u| u.get("sameversionupdate")).and_then(|v| v.as_bool()).unwrap_or(false);
                    uc.is_some() && dis == p.disable && same == p.same_version
                });
                m.judge(flags_rule, ok, "", || format!("check #{} request at seq {}: updatecheck flags differ from policy params {:?}: {}", c.idx, q.seq, p, q.json));
            }
        }
    }
}

pub fn mon_c05(log: &[Rec], f: &Flow, setup: &Setup, m: &mut Mon) {
    // (a) every request lies inside an allowed window and carries the parameters of that check
    if setup.start_mode {
        m.judge("c05-no-request-outside-check", f.stray_requests.is_empty(), "", || {
            format!("request outside any allowed check: {:?}", f.stray_requests.iter().map(|r| (r.seq, r.kind)).collect::<Vec<_>>())
        });
        for c in &f.checks {
            let ok = matches!(c.allowed, Some((_, Decision::Ok(_) | Decision::OkDeferred(_), _)));
            m.judge("c05-check-follows-positive-decision", ok, "", || format!("check #{} started without a positive update_check_allowed answer: {:?}", c.idx, c.allowed));
        }
        // a negative decision is followed by no request / check before the next policy question
        for (k, a) in f.alloweds.iter().enumerate() {
            if a.5.params().is_none() {
                let until = f.alloweds.get(k + 1).map(|n| n.0).unwrap_or(u64::MAX);
                let bad = log.iter().any(|r| r.seq > a.0 && r.seq < until && matches!(r.ev, Ev::HttpReq { .. } | Ev::PlanCreate { .. } | Ev::InstallStart { .. } | Ev::Taken(EvSnap::State(StateSnap::Checking(_)))));
                m.judge("c05-negative-decision-no-action", !bad, "", || format!("update_check_allowed answered {:?} at seq {} but a check / request followed", a.5, a.0));
            }
        }
    }
    mon_request_params(f, m, "c05-request-source", "c05-updatecheck-flags");
    for c in &f.checks {
        // (b) the install plan is created with the parameters of the check and installed only after approval
        if let Some(s) = c.install_start {
            let ok = matches!(c.can_start, Some((q, UpdDec::Ok)) if q < s);
            m.judge("c05-install-after-approval", ok, "", || format!("check #{}: perform_install at seq {} without prior update_can_start -> Ok ({:?})", c.idx, s, c.can_start));
        } else if let Some((_, d)) = c.can_start {
            if d != UpdDec::Ok && c.complete {
                m.hit("c05-no-install-after-deferral-or-denial");
            }
        }
    }
    // (c) reboot only after an install with no failed app, reboot_needed = yes, latest reboot_allowed = yes
    let mut last_allowed: Option<bool> = None;
    let mut last_install_ok = false;
    let mut needed = false;
    for r in log {
        match &r.ev {
            Ev::InstallDone { results } => {
                last_install_ok = !results.iter().any(|x| *x == InstRes::Failed);
                needed = false;
                last_allowed = None;
            }
            Ev::PolicyRebootNeeded { answer, .. } => needed = *answer,
            Ev::PolicyRebootAllowed { answer, .. } => last_allowed = Some(*answer),
            Ev::Taken(EvSnap::State(StateSnap::Checking(_))) => {
                last_install_ok = false;
                needed = false;
                last_allowed = None;
            }
            Ev::Restart => {
                last_install_ok = false;
                needed = false;
                last_allowed = None;
            }
            Ev::Reboot => {
                let ok = last_install_ok && needed && last_allowed == Some(true);
                m.judge("c05-reboot-consent", ok, if !last_install_ok { "after-failed-install" } else if !needed { "not-needed" } else { "not-allowed" }, || {
                    format!("perform_reboot at seq {}: install without failure={} reboot_needed={} latest reboot_allowed={:?}", r.seq, last_install_ok, needed, last_allowed)
                });
            }
            _ => {}
        }
    }
}

/// Invalid app set: the machine never starts — no policy / HTTP / timer / installer call at all.
pub fn mon_c05_invalid(log: &[Rec], m: &mut Mon) {
    let bad: Vec<String> = log
        .iter()
        .filter(|r| {
            matches!(
                r.ev,
                Ev::PolicyNext { .. } | Ev::PolicyCheckAllowed { .. } | Ev::PolicyCanStart { .. } | Ev::PolicyRebootAllowed { .. } | Ev::PolicyRebootNeeded { .. } | Ev::HttpReq { .. } | Ev::TimerArm { .. } | Ev::PlanCreate { .. } | Ev::InstallStart { .. } | Ev::Reboot
            )
        })
        .map(|r| format!("{:?}", r.ev).chars().take(60).collect())
        .collect();
    m.judge("c05-invalid-app-set-never-starts", bad.is_empty(), "", || format!("app set contains an invalid app but the machine acted: {:?}", bad));
}

// ---------------------------------------------------------------------------------------------
// C12: scheduled checks wait for the policy's time and minimum wait

pub fn mon_c12(log: &[Rec], m: &mut Mon) {
    const REBOOT_NS: u128 = 1_800_000_000_000;
    #[derive(Default)]
    struct Wait {
        answer: Option<TimingSnap>,
        announced: bool,
        timers: Vec<(usize, TimerSpec)>,
        fired: Vec<usize>,
        armed_complete_checked: bool,
    }
    let mut wait: Option<Wait> = None; // the wait whose timers gate the next unrequested check / ping
    let mut in_reboot_wait = false;
    let mut reboot_timer: Option<(usize, bool)> = None; // id, fired
    let mut reboot_asks = 0usize;
    // control requests: (req id, on_demand, replied, used to justify a reboot question)
    let mut reqs: Vec<(usize, bool, bool, bool)> = vec![];
    let check_wait_timers = |m: &mut Mon, w: &mut Wait, ctx: &str| {
        if w.armed_complete_checked {
            return;
        }
        w.armed_complete_checked = true;
        let Some(a) = w.answer else { return };
        let mut want = vec![TimerSpec::Until(a.time)];
        if let Some(mw) = a.min_wait_ns {
            want.push(TimerSpec::For(mw));
        }
        let mut got: Vec<TimerSpec> = w.timers.iter().map(|t| t.1).collect();
        let same = got.len() == want.len() && want.iter().all(|x| {
            if let Some(i) = got.iter().position(|g| g == x) {
                got.remove(i);
                true
            } else {
                false
            }
        });
        m.judge("c12-timers-armed-exactly", same, if w.timers.len() < want.len() { "missing" } else if w.timers.len() > want.len() { "extra" } else { "wrong-argument" }, || {
            format!("{}: policy answered {:?}; timers armed {:?}; expected exactly {:?}", ctx, a, w.timers, want)
        });
    };
    // "arms a timer": every timer the machine created for a wait is running when the machine suspends, also for a
    // timer implementation that only starts on its first poll
    let lazy = log.iter().find(|r| matches!(r.ev, Ev::TimerNotStarted { .. }));
    m.judge("c12-armed-timers-are-started", lazy.is_none(), "", || format!("a timer was created but not polled before the machine suspended: {:?}", lazy.map(|r| (r.seq, &r.ev))));
    for r in log {
        match &r.ev {
            Ev::Restart | Ev::Built => {
                wait = None;
                in_reboot_wait = false;
                reboot_timer = None;
                reqs.clear();
            }
            Ev::PolicyNext { answer, .. } => {
                wait = Some(Wait { answer: Some(*answer), ..Default::default() });
            }
            Ev::Taken(EvSnap::Schedule(s)) => {
                if let Some(w) = wait.as_mut() {
                    if !w.announced && w.timers.is_empty() {
                        w.announced = true;
                        m.judge("c12-next-update-time-announced", s.next == w.answer, "", || format!("ScheduleChange at seq {} announces {:?}, policy answered {:?}", r.seq, s.next, w.answer));
                    }
                }
            }
            Ev::TimerArm { id, spec } => {
                if in_reboot_wait && *spec == TimerSpec::For(REBOOT_NS) && !matches!(&wait, Some(w) if w.answer.and_then(|a| a.min_wait_ns) == Some(REBOOT_NS) && w.timers.len() < 2 && w.announced) {
                    reboot_timer = Some((*id, false));
                } else if let Some(w) = wait.as_mut() {
                    if matches!(spec, TimerSpec::For(d) if *d < 10_000_000_000 && w.answer.and_then(|a| a.min_wait_ns) != Some(*d)) {
                        // a retry back-off inside a check: not a scheduling timer
                    } else {
                        m.judge("c12-wait-preceded-by-policy-question", w.answer.is_some() && w.announced, "", || format!("timer armed at seq {} before the schedule was computed and announced", r.seq));
                        w.timers.push((*id, *spec));
                    }
                } else if !matches!(spec, TimerSpec::For(d) if *d < 10_000_000_000) {
                    m.judge("c12-wait-preceded-by-policy-question", false, "no-question", || format!("timer {:?} armed at seq {} without a preceding compute_next_update_time", spec, r.seq));
                }
            }
            Ev::TimerFire { id } => {
                if let Some(w) = wait.as_mut() {
                    if w.timers.iter().any(|t| t.0 == *id) {
                        w.fired.push(*id);
                    }
                }
                if let Some((rid, f)) = reboot_timer.as_mut() {
                    if rid == id {
                        *f = true;
                    }
                }
            }
            Ev::CtlSend { req, on_demand, .. } => reqs.push((*req, *on_demand, false, false)),
            Ev::CtlReply { req, .. } => {
                if let Some(x) = reqs.iter_mut().find(|x| x.0 == *req) {
                    x.2 = true;
                }
            }
            Ev::PolicyCheckAllowed { .. } => {
                if let Some(w) = wait.as_mut() {
                    check_wait_timers(m, w, "before update_check_allowed");
                    let all_fired = !w.timers.is_empty() && w.timers.iter().all(|t| w.fired.contains(&t.0));
                    // a request that is still unanswered may be what started this check
                    if !reqs.iter().any(|x| !x.2) {
                        // nobody asked for this check: every timer of the wait must have fired
                        m.judge("c12-unrequested-check-after-all-timers", all_fired, &format!("{}of{}", w.fired.len(), w.timers.len()), || {
                            format!("update_check_allowed at seq {} without any control request; timers of the wait {:?}, fired {:?}", r.seq, w.timers, w.fired)
                        });
                    }
                } else {
                    m.judge("c12-wait-preceded-by-policy-question", false, "check-without-wait", || format!("update_check_allowed at seq {} without a preceding wait", r.seq));
                }
                wait = None;
            }
            Ev::Taken(EvSnap::State(StateSnap::WaitingForReboot)) => {
                in_reboot_wait = true;
                reboot_timer = None;
                reboot_asks = 0;
                wait = None;
            }
            Ev::Taken(EvSnap::State(StateSnap::Idle)) => {
                in_reboot_wait = false;
                reboot_timer = None;
            }
            Ev::PolicyRebootAllowed { .. } => {
                if in_reboot_wait {
                    if reboot_asks > 0 {
                        let timer_fired = matches!(reboot_timer, Some((_, true)));
                        // an on-demand request that is still unanswered in the log (its reply is
                        // recorded after the poll) and has not yet justified a question
                        let od = reqs.iter_mut().find(|x| x.1 && !x.2 && !x.3);
                        let od_ok = od.is_some();
                        m.judge("c12-reboot-question-reasked-only-on-timer-or-on-demand", timer_fired || od_ok, "", || {
                            format!("reboot_allowed re-asked at seq {}: its 30-minute timer fired={} unanswered on-demand request={}", r.seq, timer_fired, od_ok)
                        });
                        if timer_fired {
                            reboot_timer = None;
                        } else if let Some(x) = od {
                            x.3 = true;
                        }
                    }
                    reboot_asks += 1;
                }
            }
            Ev::HttpReq { kind: ReqKind::Ping, .. } => {
                if let Some(w) = wait.as_mut() {
                    check_wait_timers(m, w, "before ping");
                    let all_fired = !w.timers.is_empty() && w.timers.iter().all(|t| w.fired.contains(&t.0));
                    m.judge("c12-ping-after-all-timers", all_fired, &format!("{}of{}", w.fired.len(), w.timers.len()), || {
                        format!("ping at seq {}: timers of the wait {:?}, fired {:?}", r.seq, w.timers, w.fired)
                    });
                } else {
                    m.judge("c12-ping-after-all-timers", false, "no-wait", || format!("ping at seq {} without a computed wait", r.seq));
                }
                wait = None;
            }
            _ => {}
        }
    }
}

// ---------------------------------------------------------------------------------------------
// C11: every control request gets exactly one, truthful reply

pub struct CtlReq {
    pub req: usize,
    pub on_demand: bool,
    pub send_seq: u64,
    pub reply: Option<(String, u64, u64)>, // reply, lo, hi
    pub gone_expected: bool,
    /// the caller dropped the future before a reply arrived; the machine may still take the request
    pub abandoned: bool,
}

pub fn collect_ctl(log: &[Rec]) -> Vec<CtlReq> {
    let mut v: Vec<CtlReq> = vec![];
    let mut gone = false;
    for r in log {
        match &r.ev {
            Ev::Note(s) if s == "stream dropped" => gone = true,
            Ev::StreamEnd => gone = true,
            Ev::Crash { .. } => gone = true,
            Ev::Built => gone = false,
            Ev::CtlSend { req, on_demand, .. } => v.push(CtlReq { req: *req, on_demand: *on_demand, send_seq: r.seq, reply: None, gone_expected: gone, abandoned: false }),
            Ev::CtlAbandon { req } => {
                if let Some(x) = v.iter_mut().find(|x| x.req == *req) {
                    x.abandoned = true;
                }
            }
            Ev::CtlReply { req, reply, lo, hi } => {
                if let Some(x) = v.iter_mut().find(|x| x.req == *req) {
                    x.reply = Some((reply.clone(), *lo, *hi));
                }
            }
            _ => {}
        }
    }
    v
}

/// `drained`: the scheduler stopped injecting and released every gate until nothing moved.
pub fn mon_c11(log: &[Rec], f: &Flow, drained: bool, m: &mut Mon) {
    let reqs = collect_ctl(log);
    // replies appear at most once per request by construction of the log (a future resolves once);
    // the driver would have logged a second CtlReply if a future were polled to completion twice.
    let mut seen = BTreeSet::new();
    for r in log {
        if let Ev::CtlReply { req, .. } = &r.ev {
            m.judge("c11-at-most-one-reply", seen.insert(*req), "", || format!("request {} got a second reply at seq {}", req, r.seq));
        }
    }
    // brackets during which the machine is busy: [positive decision, next Idle taken]
    let mut brackets: Vec<(u64, u64)> = vec![];
    for a in f.alloweds.iter().filter(|a| a.5.params().is_some()) {
        let end = f.idle.iter().find(|s| **s > a.0).copied().unwrap_or(u64::MAX);
        brackets.push((a.0, end));
    }
    // policy calls available for attribution
    let calls: Vec<(u64, bool, bool)> = f.alloweds.iter().map(|a| (a.0, a.4, a.5.params().is_some())).collect();
    // which calls can be explained by timers alone (all timers of the preceding wait fired)?
    let timer_ok = timer_explained(log);
    for q in &reqs {
        match &q.reply {
            None if q.abandoned => {}
            None => {
                if drained {
                    m.judge("c11-every-request-answered", false, if q.gone_expected { "after-machine-gone" } else { "pending" }, || {
                        format!("request {} (on_demand={}) sent at seq {} never got a reply although the run was drained", q.req, q.on_demand, q.send_seq)
                    });
                }
            }
            Some((reply, lo, hi)) => {
                m.hit("c11-every-request-answered");
                if q.gone_expected {
                    m.judge("c11-gone-after-machine-gone", reply == "Gone", "", || format!("request {} sent after the machine was gone got {:?}", q.req, reply));
                    continue;
                }
                match reply.as_str() {
                    "AlreadyRunning" => {
                        let ok = brackets.iter().any(|(s, e)| *s <= *hi && *e >= (*lo).max(q.send_seq));
                        m.judge("c11-already-running-truthful", ok, "", || {
                            format!("request {} replied AlreadyRunning in [{}, {}] but no check / reboot wait was in progress then (brackets {:?})", q.req, lo, hi, brackets)
                        });
                    }
                    "Gone" => {
                        // legitimate only if the machine disappeared before the reply
                        let died = log.iter().any(|r| r.seq <= *hi && matches!(&r.ev, Ev::StreamEnd | Ev::Crash { .. }) || matches!(&r.ev, Ev::Note(s) if s == "stream dropped" && r.seq <= *hi));
                        m.judge("c11-gone-only-when-gone", died, "", || format!("request {} replied Gone at [{}, {}] while the machine was alive", q.req, lo, hi));
                    }
                    _ => {}
                }
            }
        }
    }
    // Started / Throttled: find an injective assignment of policy calls to these requests
    let st: Vec<&CtlReq> = reqs.iter().filter(|q| matches!(&q.reply, Some((r, _, _)) if r == "Started" || r == "Throttled") && !q.gone_expected).collect();
    // requests whose reply never came or was Gone (the machine went away after taking them)
    let loose: Vec<(u64, bool)> = reqs
        .iter()
        .filter(|q| !q.gone_expected && matches!(&q.reply, None | Some((_, _, _))) && !matches!(&q.reply, Some((r, _, _)) if r == "Started" || r == "Throttled" || r == "AlreadyRunning"))
        .map(|q| (q.send_seq, q.on_demand))
        .collect();
    fn assign(i: usize, st: &[&CtlReq], calls: &[(u64, bool, bool)], used: &mut Vec<bool>, timer_ok: &BTreeMap<u64, bool>, loose: &[(u64, bool)]) -> bool {
        if i == st.len() {
            // every unassigned call must be explainable by timers (or by a request that was taken
            // by the machine but never answered because the machine went away)
            return calls.iter().enumerate().all(|(k, c)| used[k] || *timer_ok.get(&c.0).unwrap_or(&false) || loose.iter().any(|l| l.0 < c.0 && l.1 == c.1));
        }
        let q = st[i];
        let (reply, _lo, hi) = q.reply.as_ref().unwrap();
        let want_pos = reply == "Started";
        for (k, c) in calls.iter().enumerate() {
            if !used[k] && c.0 > q.send_seq && c.0 <= *hi && c.1 == q.on_demand && c.2 == want_pos {
                used[k] = true;
                if assign(i + 1, st, calls, used, timer_ok, loose) {
                    return true;
                }
                used[k] = false;
            }
        }
        false
    }
    if !st.is_empty() || !calls.is_empty() {
        let mut used = vec![false; calls.len()];
        let ok = assign(0, &st, &calls, &mut used, &timer_ok, &loose);
        m.judge("c11-started-throttled-attribution", ok, "", || {
            format!(
                "no consistent attribution: requests {:?}; update_check_allowed calls (seq, on_demand, positive) {:?}; timer-explainable {:?}",
                st.iter().map(|q| (q.req, q.on_demand, q.send_seq, q.reply.clone())).collect::<Vec<_>>(),
                calls,
                timer_ok
            )
        });
    }
    // reboot question carries on-demand only if an on-demand request justifies it
    for wv in &f.waits {
        let check = f.checks.iter().find(|c| c.end_seq < wv.start_seq && c.idx == wv.check_idx).or_else(|| f.checks.iter().filter(|c| c.end_seq < wv.start_seq).last());
        let Some(check) = check else { continue };
        let started_od = check.allowed.map(|a| a.2).unwrap_or(false);
        let begin = check.allowed.map(|a| a.0).unwrap_or(check.start_seq);
        for (seq, od, _) in &wv.allowed {
            if *od {
                let justified = started_od
                    || reqs.iter().any(|q| q.on_demand && q.send_seq < *seq && q.reply.as_ref().map(|x| x.2 > begin).unwrap_or(true));
                m.judge("c11-reboot-question-on-demand-justified", justified, "", || {
                    format!("reboot_allowed asked with OnDemand at seq {} but no on-demand request arrived since the check began at seq {}", seq, begin)
                });
            }
        }
        // once the pending reboot question has been upgraded to on-demand it stays upgraded
        if let Some(first_od) = wv.allowed.iter().position(|a| a.1) {
            let later_all_od = wv.allowed[first_od..].iter().all(|a| a.1);
            m.judge("c11-on-demand-upgrade-is-kept", later_all_od, "", || {
                format!("reboot wait starting at seq {}: reboot_allowed questions (seq, on_demand, answer) {:?} fall back to ScheduledTask after the upgrade", wv.start_seq, wv.allowed)
            });
        }
        // a check that began on demand, or that itself answered an on-demand request (AlreadyRunning, resolved after
        // the check began and before its reboot wait), asks its first reboot question on demand — whatever other
        // requests it answered in between
        let upgraded_in_check = reqs.iter().any(|q| q.on_demand && matches!(&q.reply, Some((r, lo, hi)) if r == "AlreadyRunning" && *lo > begin && *hi < wv.start_seq));
        if started_od || upgraded_in_check {
            if let Some(first) = wv.allowed.first() {
                m.judge("c11-on-demand-check-asks-reboot-on-demand", first.1, if started_od { "started-on-demand" } else { "upgraded-in-check" }, || {
                    format!("check #{} ran on demand (started on demand: {}, upgraded by a request it answered: {}) but its first reboot question at seq {} was asked as ScheduledTask", check.idx, started_od, upgraded_in_check, first.0)
                });
            }
        }
        // an on-demand request answered during the reboot wait is followed by an on-demand reboot question
        for q in reqs.iter().filter(|q| q.on_demand && q.send_seq > wv.start_seq) {
            let Some((reply, _lo, hi)) = &q.reply else { continue };
            if reply != "AlreadyRunning" || *hi > wv.end_seq {
                continue;
            }
            // the machine must still have been waiting when it took the request: a reboot question
            // with OnDemand at or before the reply's hi bound + the poll it was logged in
            let asked = wv.allowed.iter().any(|(s, od, _)| *od && *s > q.send_seq);
            let rebooted_before = wv.reboot_seq.map(|s| s < q.send_seq).unwrap_or(false);
            // the request was taken by the reboot-wait loop itself (reply resolved by a poll inside the
            // wait, before the reboot started): THAT poll must contain an on-demand reboot question
            let (lo, _) = (q.reply.as_ref().unwrap().1, 0);
            let in_wait = lo >= wv.start_seq && wv.reboot_seq.map(|r| *hi < r).unwrap_or(*hi <= wv.end_seq);
            if in_wait {
                let asked_now = wv.allowed.iter().any(|(s, od, _)| *od && *s > lo && *s <= *hi);
                m.judge("c11-every-on-demand-request-asks-reboot-question", asked_now, "", || {
                    format!("on-demand request {} was handled by the reboot wait in the poll [{}..{}] but reboot_allowed was not asked in that poll; questions {:?}", q.req, lo, hi, wv.allowed)
                });
            }
            if !rebooted_before {
                m.judge("c11-on-demand-upgrades-reboot-question", asked, "", || {
                    format!("on-demand request {} was answered AlreadyRunning during the reboot wait (reply in [{}..{}]) but reboot_allowed was never asked with OnDemand afterwards; questions {:?}", q.req, q.send_seq, hi, wv.allowed)
                });
            }
        }
    }
}

/// For every update_check_allowed call: had all timers of the preceding wait fired?
fn timer_explained(log: &[Rec]) -> BTreeMap<u64, bool> {
    let mut out = BTreeMap::new();
    let mut timers: Vec<usize> = vec![];
    let mut fired: Vec<usize> = vec![];
    let mut have_wait = false;
    for r in log {
        match &r.ev {
            Ev::PolicyNext { .. } => {
                timers.clear();
                fired.clear();
                have_wait = true;
            }
            Ev::TimerArm { id, spec } => {
                if have_wait && !matches!(spec, TimerSpec::For(d) if *d < 10_000_000_000) {
                    timers.push(*id);
                }
            }
            Ev::TimerFire { id } => fired.push(*id),
            Ev::PolicyCheckAllowed { .. } => {
                let ok = have_wait && !timers.is_empty() && timers.iter().all(|t| fired.contains(t));
                out.insert(r.seq, ok);
                have_wait = false;
            }
            _ => {}
        }
    }
    out
}

// ---------------------------------------------------------------------------------------------
// C13 (state machine part): every emitted event is taken before the code that follows the
// emission runs; progress values are delivered in order before the install's outcome is used.

pub fn mon_c13_flow(log: &[Rec], m: &mut Mon) {
    #[derive(Clone, Debug)]
    enum Need {
        Checking,
        Installing,
        Schedule(TimingSnap),
        WaitingForReboot,
    }
    // the machine never sits on an emission while holding the app-set lock it shares with its embedder
    // (an observer that looks at the app set before polling again would wait for the producer, which waits
    // for the observer's next poll)
    let blocked = log.iter().find(|r| matches!(r.ev, Ev::ObserverBlocked { .. }));
    m.judge("c13-no-shared-lock-held-across-emission", blocked.is_none(), "", || {
        let b = blocked.unwrap();
        let prev = log.iter().rev().find(|r| r.seq < b.seq && matches!(r.ev, Ev::Taken(_))).map(|r| format!("{:?}", r.ev)).unwrap_or_default();
        format!("after taking {} (seq {}) the observer cannot lock the shared app set: the producer holds it while parked on the emission", prev.chars().take(80).collect::<String>(), b.seq)
    });
    let mut need: Option<(Need, u64)> = None;
    let mut sent: Vec<u32> = vec![];
    let mut taken_progress: Vec<u32> = vec![];
    let mut install_open = false;
    let mut install_done = false;
    for r in log {
        // 1. does this entry satisfy / violate the pending obligation?
        if let Some((n, since)) = need.clone() {
            let satisfied = match (&n, &r.ev) {
                (Need::Checking, Ev::Taken(EvSnap::State(StateSnap::Checking(_)))) => true,
                (Need::Installing, Ev::Taken(EvSnap::State(StateSnap::Installing))) => true,
                (Need::Schedule(a), Ev::Taken(EvSnap::Schedule(s))) => s.next == Some(*a),
                (Need::WaitingForReboot, Ev::Taken(EvSnap::State(StateSnap::WaitingForReboot))) => true,
                _ => false,
            };
            if satisfied {
                m.hit("c13-event-taken-before-following-call");
                need = None;
            } else {
                let forbidden = match (&n, &r.ev) {
                    // only the orderings the statements name: first request after CheckingForUpdates,
                    // installer start after InstallingUpdate, reboot after WaitingForReboot (C13), and
                    // announce-before-arm (C12); anything else could legitimately be reordered
                    (Need::Checking, Ev::HttpReq { .. }) => true,
                    (Need::Installing, Ev::InstallStart { .. }) => true,
                    (Need::Schedule(_), Ev::TimerArm { .. }) => true,
                    (Need::WaitingForReboot, Ev::Reboot) => true,
                    _ => false,
                };
                if forbidden {
                    m.judge("c13-event-taken-before-following-call", false, &format!("{:?}", n).split('(').next().unwrap_or("").to_string(), || {
                        format!("after seq {} the observer had to take {:?} before the flow continued, but at seq {} the machine already did {:?}", since, n, r.seq, format!("{:?}", r.ev).chars().take(80).collect::<String>())
                    });
                    need = None;
                }
                if matches!(r.ev, Ev::Crash { .. } | Ev::Restart | Ev::StreamEnd) {
                    need = None;
                }
            }
        }
        // 2. new obligations
        match &r.ev {
            Ev::PolicyCheckAllowed { answer, .. } if answer.params().is_some() => need = Some((Need::Checking, r.seq)),
            Ev::PolicyCanStart { answer: UpdDec::Ok, .. } => need = Some((Need::Installing, r.seq)),
            Ev::PolicyNext { answer, .. } => need = Some((Need::Schedule(*answer), r.seq)),
            Ev::PolicyRebootNeeded { answer: true, .. } => need = Some((Need::WaitingForReboot, r.seq)),
            Ev::InstallStart { .. } => {
                sent.clear();
                taken_progress.clear();
                install_open = true;
                install_done = false;
            }
            Ev::ProgressSent(p) => sent.push(*p),
            Ev::ProgressReturned(_) => {
                // the installer may be at most one value ahead of the observer
                let returned = log.iter().filter(|x| x.seq <= r.seq && x.seq > 0 && matches!(x.ev, Ev::ProgressReturned(_))).count();
                let _ = returned;
            }
            Ev::Taken(EvSnap::Progress(p)) => {
                taken_progress.push(*p);
                let k = taken_progress.len();
                let ok = install_open && sent.len() >= k && sent[k - 1] == *p;
                m.judge("c13-progress-in-order", ok, "", || format!("progress event #{} = {} at seq {}; installer sent {:?}", k, f32::from_bits(*p), r.seq, sent.iter().map(|x| f32::from_bits(*x)).collect::<Vec<_>>()));
            }
            Ev::InstallDone { .. } => install_done = true,
            Ev::HttpReq { .. } | Ev::Taken(EvSnap::State(_)) | Ev::Taken(EvSnap::InstallerError(_)) | Ev::PolicyRebootNeeded { .. } | Ev::Taken(EvSnap::Result(_)) => {
                if install_open && install_done {
                    // first boundary call / announcement after the install: every progress value delivered
                    m.judge("c13-all-progress-before-outcome", taken_progress == sent, "", || {
                        format!("at seq {} the install outcome is used but progress delivered {:?} != sent {:?}", r.seq, taken_progress.iter().map(|x| f32::from_bits(*x)).collect::<Vec<_>>(), sent.iter().map(|x| f32::from_bits(*x)).collect::<Vec<_>>())
                    });
                    install_open = false;
                }
            }
            Ev::Crash { .. } | Ev::Restart => {
                install_open = false;
            }
            _ => {}
        }
    }
}
