//! Smoke scenario: prints the log of a full install flow (not a check).
use crate::common::{Args, Report, Rng};
use crate::sim::driver::*;
use crate::sim::omaha::ServerKeys;
use crate::sim::world::*;

pub fn run(args: &Args, _r: &mut Report) {
    let mut rng = Rng::new(args.seed);
    let mut script = Script::default();
    let doc = DocSpec {
        daystart: Some(Some(4242)),
        apps: vec![DocApp {
            id: "{app-1}".into(),
            status: "ok".into(),
            cohort: [Some("c1".into()), None, Some("".into())],
            updatecheck: Some(UcSpec::ok(Some("2.0.0.0"))),
        }],
        wrap: 0,
    };
    script.checks.push(CheckScript {
        attempts: vec![RespSpec::Transport, RespSpec::Reply(ReplySpec::ok(BodySpec::Doc(doc)))],
        progress: vec![0.25, 0.75],
        results: vec![InstRes::Installed],
        reboot_needed: true,
        reboot_allowed: vec![false, true],
        ..Default::default()
    });
    let w = World::new(script);
    let cup = args.extra.get("cup").is_some();
    if cup {
        lock(&w).cup = Some(ServerKeys::generate(&mut rng, &[7, 3]));
    }
    let setup = Setup { cup, start_mode: args.extra.get("start").is_some(), ..Default::default() };
    let mut d = Driver::new(&w, &setup);
    let end = d.run(Sched::Fifo, &mut rng, |d| d.count_state(&StateSnap::Idle) >= 2);
    for l in dump_log(&w, 400) {
        println!("{}", l);
    }
    println!("end={:?} steps={} lost={:?} panicked={:?}", end, d.steps, d.lost_wakes, d.panicked);
}
