//! One module per property: workload generator + monitors.

use crate::common::{Args, Report};

pub mod c01;
pub mod c02;
pub mod c03;
pub mod c04;
pub mod c05;
pub mod c06;
pub mod c07;
pub mod c08;
pub mod c09;
pub mod c10;
pub mod c11;
pub mod c12;
pub mod c13;
pub mod c14;
pub mod c15;
pub mod c16;
pub mod c17;
pub mod c18;
pub mod c19;
pub mod c20;
pub mod demo;
pub mod gen;
pub mod monitors;

pub fn run(args: &Args, r: &mut Report) -> bool {
    match args.prop.as_str() {
        "C01" => c01::run(args, r),
        "C02" => c02::run(args, r),
        "C03" => c03::run(args, r),
        "C04" => c04::run(args, r),
        "C05" => c05::run(args, r),
        "C06" => c06::run(args, r),
        "C07" => c07::run(args, r),
        "C08" => c08::run(args, r),
        "C09" => c09::run(args, r),
        "C10" => c10::run(args, r),
        "C11" => c11::run(args, r),
        "C12" => c12::run(args, r),
        "C13" => c13::run(args, r),
        "C14" => c14::run(args, r),
        "C15" => c15::run(args, r),
        "C16" => c16::run(args, r),
        "C17" => c17::run(args, r),
        "C18" => c18::run(args, r),
        "C19" => c19::run(args, r),
        "C20" => c20::run(args, r),
        "DEMO" => demo::run(args, r),
        "NOOP" => {}
        _ => return false,
    }
    true
}
