//! One module per property: workload generator + monitors.

use crate::common::{Args, Report};

pub mod c19;
pub mod c20;

pub fn run(args: &Args, r: &mut Report) -> bool {
    match args.prop.as_str() {
        "C19" => c19::run(args, r),
        "C20" => c20::run(args, r),
        _ => return false,
    }
    true
}
