//! C17 — Mock Omaha server conforms to the client it doubles for.

use crate::common::{guard, Args, Report, Rng};
use crate::props::gen::*;
use crate::props::monitors::{outcome_label, Mon};
use crate::sim::driver::*;
use crate::sim::omaha::{signing_key_from_seed, ServerKeys};
use crate::sim::world::*;
use futures::executor::block_on;
use mock_omaha_server::{
    handle_request, OmahaResponse, OmahaServer, OmahaServerBuilder, PrivateKeyAndId, PrivateKeys, ResponseAndMetadata, UpdateCheckAssertion,
};
use omaha_client::cup_ecdsa::{Cupv2RequestHandler, PublicKeyAndId, PublicKeys, RequestMetadata, StandardCupv2Handler};
use omaha_client::protocol::request::{Event, EventType, GUID};
use omaha_client::protocol::response::{parse_json_response, OmahaStatus};
use omaha_client::request_builder::RequestBuilder;
use p256::ecdsa::VerifyingKey;
use serde_json::{json, Value};
use std::collections::HashMap;
use std::sync::Arc;
use tokio::sync::Mutex as TMutex;

const KINDS: [OmahaResponse; 5] = [OmahaResponse::NoUpdate, OmahaResponse::Update, OmahaResponse::UrgentUpdate, OmahaResponse::InvalidResponse, OmahaResponse::InvalidURL];

fn kind_name(k: OmahaResponse) -> &'static str {
    match k {
        OmahaResponse::NoUpdate => "NoUpdate",
        OmahaResponse::Update => "Update",
        OmahaResponse::UrgentUpdate => "UrgentUpdate",
        OmahaResponse::InvalidResponse => "InvalidResponse",
        OmahaResponse::InvalidURL => "InvalidURL",
    }
}

#[derive(Clone)]
struct KeyCfg {
    client: PublicKeys,
    server: PrivateKeys,
    /// does the server hold the key the client decorates with?
    server_has_client_latest: bool,
    label: &'static str,
}

fn gen_keys(rng: &mut Rng) -> KeyCfg {
    let k1 = signing_key_from_seed(rng);
    let k2 = signing_key_from_seed(rng);
    let k3 = signing_key_from_seed(rng);
    // key ids carry no order: any of the three may be the smallest / largest
    let mut ids = [1 + rng.below(1000), 2000 + rng.below(1000), 5000 + rng.below(1000), 8000 + rng.below(1000)];
    rng.shuffle(&mut ids);
    let (id1, id2, id3, id4) = (ids[0], ids[1], ids[2], ids[3]);
    let pk = |id: u64, k: &p256::ecdsa::SigningKey| PublicKeyAndId { id, key: VerifyingKey::from(k) };
    let sk = |id: u64, k: &p256::ecdsa::SigningKey| PrivateKeyAndId { id, key: k.clone() };
    match rng.below(4) {
        0 => KeyCfg { client: PublicKeys { latest: pk(id1, &k1), historical: vec![] }, server: PrivateKeys { latest: sk(id1, &k1), historical: vec![] }, server_has_client_latest: true, label: "same-latest" },
        1 => KeyCfg {
            // the client still uses a key that is historical on the server
            client: PublicKeys { latest: pk(id1, &k1), historical: vec![] },
            // ... anywhere in a list that is in no particular order (rotation history is configuration, not sorted data)
            server: PrivateKeys {
                latest: sk(id2, &k2),
                historical: {
                    let mut h = vec![sk(id3, &k3), sk(id1, &k1), sk(id4, &k3)];
                    rng.shuffle(&mut h);
                    h
                },
            },
            server_has_client_latest: true,
            label: "client-latest-is-server-historical",
        },
        2 => KeyCfg {
            client: PublicKeys { latest: pk(id2, &k2), historical: vec![pk(id1, &k1)] },
            server: PrivateKeys { latest: sk(id2, &k2), historical: vec![sk(id1, &k1)] },
            server_has_client_latest: true,
            label: "both-have-history",
        },
        _ => KeyCfg { client: PublicKeys { latest: pk(id3, &k3), historical: vec![] }, server: PrivateKeys { latest: sk(id1, &k1), historical: vec![sk(id2, &k2)] }, server_has_client_latest: false, label: "server-lacks-key" },
    }
}

fn gen_service_url(rng: &mut Rng) -> (String, &'static str) {
    match rng.below(5) {
        0 => ("http://mock.example/".into(), "root"),
        1 => ("http://mock.example".into(), "no-path"),
        2 => ("http://mock.example/service/update2/json".into(), "path"),
        3 => ("http://mock.example/service/update2/json?foo=bar".into(), "path+query"),
        _ => ("http://mock.example/?a=1&b=2".into(), "root+query"),
    }
}

fn origin_form(uri: &http::Uri) -> String {
    uri.path_and_query().map(|p| p.as_str().to_string()).unwrap_or_else(|| "/".into())
}

struct Exchange {
    meta: Option<RequestMetadata>,
    status: u16,
    etag: Option<Vec<u8>>,
    body: Vec<u8>,
    req_json: Value,
    /// origin-form request target and the request bytes (to re-send the same request under another nonce)
    target: String,
    req_body: Vec<u8>,
}

/// Send one client-built request to the in-process mock.
fn exchange(server: &TMutex<OmahaServer>, req: http::Request<hyper::Body>, meta: Option<RequestMetadata>) -> Result<Exchange, String> {
    exchange_via(server, req, meta, false)
}

/// `reencode`: the transport re-serialises the query the way `url::Url::query_pairs_mut()` does (an
/// equivalent spelling: the ':' inside cup2key becomes %3A) before it reaches the server.
fn exchange_via(server: &TMutex<OmahaServer>, req: http::Request<hyper::Body>, meta: Option<RequestMetadata>, reencode: bool) -> Result<Exchange, String> {
    exchange_full(server, req, meta, reencode, 1)
}

/// `chunks` > 1: the request body reaches the server in that many pieces (what a large request over a real
/// connection looks like).
fn exchange_full(server: &TMutex<OmahaServer>, req: http::Request<hyper::Body>, meta: Option<RequestMetadata>, reencode: bool, chunks: usize) -> Result<Exchange, String> {
    let (parts, body) = req.into_parts();
    let body = block_on(hyper::body::to_bytes(body)).map(|b| b.to_vec()).unwrap_or_default();
    let req_json: Value = serde_json::from_slice(&body).unwrap_or(Value::Null);
    let mut target = origin_form(&parts.uri);
    if reencode {
        if let Some(p) = target.find("cup2key=") {
            let end = target[p..].find('&').map(|k| p + k).unwrap_or(target.len());
            let v = target[p..end].replace(':', "%3A");
            target = format!("{}{}{}", &target[..p], v, &target[end..]);
        }
    }
    let mut b = hyper::Request::builder().method(parts.method.clone()).uri(target.as_str());
    for (k, v) in parts.headers.iter() {
        b = b.header(k, v);
    }
    let wire_body = if chunks > 1 && body.len() >= chunks {
        let step = (body.len() + chunks - 1) / chunks;
        let pieces: Vec<Result<Vec<u8>, std::io::Error>> = body.chunks(step).map(|c| Ok(c.to_vec())).collect();
        hyper::Body::wrap_stream(futures::stream::iter(pieces))
    } else {
        hyper::Body::from(body.clone())
    };
    let r = b.body(wire_body).map_err(|e| e.to_string())?;
    let resp = block_on(handle_request(r, server)).map_err(|e| format!("handle_request error: {}", e))?;
    let (rp, rb) = resp.into_parts();
    let rbody = block_on(hyper::body::to_bytes(rb)).map(|b| b.to_vec()).unwrap_or_default();
    Ok(Exchange { meta, status: rp.status.as_u16(), etag: rp.headers.get("etag").map(|v| v.as_bytes().to_vec()), body: rbody, req_json, target: origin_form(&parts.uri), req_body: body })
}

fn to_client_response(x: &Exchange) -> http::Response<Vec<u8>> {
    let mut b = http::Response::builder().status(x.status);
    if let Some(e) = &x.etag {
        b = b.header("etag", e.as_slice());
    }
    b.body(x.body.clone()).unwrap()
}

fn cfg_for(rng: &mut Rng, apps: &[AppSpec], params_disable: bool, force_kind: Option<OmahaResponse>) -> (HashMap<String, ResponseAndMetadata>, Vec<OmahaResponse>, String) {
    let mut map = HashMap::new();
    let mut kinds = vec![];
    let tag = format!("pkg-{:08x}", rng.next_u32());
    for a in apps {
        let k = force_kind.unwrap_or(*rng.pick(&KINDS));
        kinds.push(k);
        map.insert(
            a.id.clone(),
            ResponseAndMetadata {
                response: k,
                check_assertion: if params_disable { UpdateCheckAssertion::UpdatesDisabled } else { UpdateCheckAssertion::UpdatesEnabled },
                version: if rng.bool() { Some(a.version_string()) } else { None },
                cohort_assertion: if rng.bool() { a.cohort[0].clone() } else { None },
                codebase: format!("fuchsia-pkg://{}.example/", tag),
                package_name: format!("{}?hash={:016x}", tag, rng.next_u64()),
            },
        );
    }
    (map, kinds, tag)
}

/// Judge the document of an update-check / event exchange against the configuration.
fn judge_document(m: &mut Mon, x: &Exchange, cfg: &HashMap<String, ResponseAndMetadata>, ctx: &str) {
    let ids: Vec<String> = crate::sim::omaha::req_app_ids(&x.req_json);
    let is_uc = crate::sim::omaha::classify(&x.req_json) == ReqKind::UpdateCheck;
    let any_invalid = is_uc && ids.iter().any(|id| cfg.get(id).map(|c| c.response == OmahaResponse::InvalidResponse).unwrap_or(false));
    m.judge("c17-status-200", x.status == 200, "", || format!("{}: status {}", ctx, x.status));
    let parsed = parse_json_response(&x.body);
    if any_invalid {
        m.judge("c17-invalid-response-is-unparseable", parsed.is_err(), "", || format!("{}: configured InvalidResponse but the client parser accepted the body", ctx));
        return;
    }
    let resp = match parsed {
        Ok(r) => r,
        Err(e) => {
            m.judge("c17-client-parser-accepts", false, "", || format!("{}: client parser rejects the mock's body: {}\n{}", ctx, e, String::from_utf8_lossy(&x.body)));
            return;
        }
    };
    m.judge("c17-client-parser-accepts", true, "", String::new);
    let got_ids: Vec<String> = resp.apps.iter().map(|a| a.id.clone()).collect();
    m.judge("c17-apps-in-request-order", got_ids == ids, "", || format!("{}: response apps {:?}, request apps {:?}", ctx, got_ids, ids));
    for a in resp.apps.iter() {
        let Some(c) = cfg.get(&a.id) else { continue };
        if !is_uc {
            m.judge("c17-event-ack-has-no-updatecheck", a.update_check.is_none() && a.status == OmahaStatus::Ok, "", || format!("{}: event acknowledgement for {} carries {:?}", ctx, a.id, a.update_check));
            continue;
        }
        let uc = a.update_check.as_ref();
        let ok = match c.response {
            OmahaResponse::NoUpdate => matches!(uc, Some(u) if u.status == OmahaStatus::NoUpdate),
            OmahaResponse::Update | OmahaResponse::UrgentUpdate => match uc {
                Some(u) if u.status == OmahaStatus::Ok => {
                    let urls: Vec<String> = u.get_all_full_urls().collect();
                    let urgent = u.extra_attributes.get("_urgent_update").and_then(|v| v.as_bool()).unwrap_or(false);
                    urls == vec![format!("{}{}", c.codebase, c.package_name)] && urgent == (c.response == OmahaResponse::UrgentUpdate) && u.manifest.is_some()
                }
                _ => false,
            },
            OmahaResponse::InvalidURL => match uc {
                Some(u) if u.status == OmahaStatus::Ok => {
                    let urls: Vec<String> = u.get_all_full_urls().collect();
                    urls.len() == 1 && urls[0].ends_with(&c.package_name) && !urls[0].starts_with(&c.codebase)
                }
                _ => false,
            },
            OmahaResponse::InvalidResponse => true,
        };
        m.judge("c17-configured-decision", ok, kind_name(c.response), || format!("{}: app {} configured {:?} but got {:?}", ctx, a.id, c.response, uc));
    }
}

/// One POST over a fresh TCP connection; returns (status line, ETag header if any, body bytes as sent).
fn tcp_post(host: &str, port: u16, parts: &http::request::Parts, body: &[u8]) -> Result<(String, Option<Vec<u8>>, Vec<u8>), String> {
    use std::io::{Read, Write};
    let mut sk = std::net::TcpStream::connect((host, port)).map_err(|e| format!("connect: {e}"))?;
    sk.set_read_timeout(Some(std::time::Duration::from_secs(10))).ok();
    let mut head = format!("POST {} HTTP/1.1\r\nHost: {}\r\nConnection: close\r\nContent-Length: {}\r\n", origin_form(&parts.uri), parts.uri.authority().map(|a| a.as_str()).unwrap_or(""), body.len());
    for (k, v) in parts.headers.iter() {
        head.push_str(&format!("{}: {}\r\n", k, v.to_str().unwrap_or("")));
    }
    head.push_str("\r\n");
    sk.write_all(head.as_bytes()).map_err(|e| format!("write: {e}"))?;
    sk.write_all(body).map_err(|e| format!("write: {e}"))?;
    let mut raw = vec![];
    sk.read_to_end(&mut raw).map_err(|e| format!("read: {e}"))?;
    let split = raw.windows(4).position(|w| w == b"\r\n\r\n").ok_or("no header end")?;
    let head_txt = String::from_utf8_lossy(&raw[..split]).to_string();
    let status = head_txt.lines().next().unwrap_or("").to_string();
    let etag = head_txt.lines().find_map(|l| l.split_once(':').filter(|(k, _)| k.eq_ignore_ascii_case("etag")).map(|(_, v)| v.trim().as_bytes().to_vec()));
    let chunked = head_txt.lines().any(|l| l.to_ascii_lowercase().starts_with("transfer-encoding") && l.to_ascii_lowercase().contains("chunked"));
    let mut payload = raw[split + 4..].to_vec();
    if chunked {
        // de-chunk
        let mut out = vec![];
        let mut rest = &payload[..];
        loop {
            let Some(eol) = rest.windows(2).position(|w| w == b"\r\n") else { break };
            let n = usize::from_str_radix(String::from_utf8_lossy(&rest[..eol]).trim(), 16).unwrap_or(0);
            if n == 0 || rest.len() < eol + 2 + n {
                break;
            }
            out.extend_from_slice(&rest[eol + 2..eol + 2 + n]);
            rest = &rest[(eol + 2 + n + 2).min(rest.len())..];
        }
        payload = out;
    }
    Ok((status, etag, payload))
}

/// The mock server's own binary (its main.rs, compiled into this harness and run in a child process) started with
/// a configured key id — with an explicit key file and with the default one — signs for exactly that key id.
fn cli_probe(args: &Args, r: &mut Report) {
    use std::io::BufRead;
    let repo = env!("VERIF_REPO_DIR");
    let key_file = format!("{}/mock-omaha-server/src/testing_keys/test_private_key.pem", repo);
    let Ok(pem) = std::fs::read_to_string(&key_file) else {
        r.note_once("cli probe: test key file not found");
        return;
    };
    let Ok(sk) = pem.parse::<p256::ecdsa::SigningKey>() else {
        r.note_once("cli probe: test key does not parse");
        return;
    };
    let vk = VerifyingKey::from(&sk);
    let Ok(exe) = std::env::current_exe() else { return };
    let mut rng = Rng::derive(args.seed, args.shard, 1718, 0);
    for explicit_key_path in [true, false] {
        let key_id: u64 = *rng.pick(&[7u64, 1, 42, 123456789]);
        let mut cmd = std::process::Command::new(&exe);
        cmd.env("VERIF_AS_MOCK_MAIN", "1").current_dir(repo).arg("--key-id").arg(key_id.to_string()).arg("--listen-on").arg("::1").arg("--port").arg("0");
        if explicit_key_path {
            cmd.arg("--key-path").arg(&key_file);
        }
        cmd.stdout(std::process::Stdio::piped()).stderr(std::process::Stdio::null());
        let Ok(mut child) = cmd.spawn() else {
            r.note_once("cli probe: cannot spawn the child process");
            continue;
        };
        let mut line = String::new();
        let got = child.stdout.take().map(|o| std::io::BufReader::new(o).read_line(&mut line).unwrap_or(0)).unwrap_or(0);
        let url = line.trim().strip_prefix("listening on ").map(|s| s.to_string());
        let Some(url) = url.filter(|_| got > 0) else {
            let _ = child.kill();
            let _ = child.wait();
            r.note_once("cli probe: the mock server binary did not come up (no IPv6 loopback?)");
            continue;
        };
        r.evals(1);
        r.hit("c17-cli-configured-key-id");
        let mut rp = args.case_replay(0);
        rp["probe"] = json!({"key_id": key_id, "explicit_key_path": explicit_key_path, "url": url});
        let verdict = (|| -> Result<(), String> {
            let uri = url.parse::<http::Uri>().map_err(|e| format!("advertised URL {url:?}: {e}"))?;
            let host = uri.host().unwrap_or("").trim_start_matches('[').trim_end_matches(']').to_string();
            let port = uri.port_u16().ok_or("no port")?;
            let keys = PublicKeys { latest: PublicKeyAndId { id: key_id, key: vk }, historical: vec![] };
            let handler = StandardCupv2Handler::new(&keys);
            let w = World::new(Script::default());
            let mut app = AppSpec::new("appid_01", [14, 20230831, 4, 72]);
            app.cohort = [None, None, None];
            let setup = Setup { service_url: url.clone(), apps: vec![app.clone()], ..Default::default() };
            let config = make_config(&setup, &w);
            let params = ParamsSnap::default_lib().to_lib();
            let a = app.to_app();
            let (req, meta) = RequestBuilder::new(&config, &params).add_update_check(&a).add_ping(&a).session_id(GUID::new()).request_id(GUID::new()).build(Some(&handler)).map_err(|e| format!("build: {e}"))?;
            let meta = meta.ok_or("no metadata")?;
            let (parts, body) = req.into_parts();
            let body = block_on(hyper::body::to_bytes(body)).map(|b| b.to_vec()).unwrap_or_default();
            let (status, etag, payload) = tcp_post(&host, port, &parts, &body)?;
            if !status.starts_with("HTTP/1.1 200") {
                return Err(format!("status {status:?}"));
            }
            let mut b = http::Response::builder().status(200);
            if let Some(e) = &etag {
                b = b.header("etag", e.as_slice());
            }
            let resp = b.body(payload).map_err(|e| e.to_string())?;
            handler.verify_response(&meta, &resp, key_id).map(|_| ()).map_err(|e| format!("the client (latest key id {key_id}) rejects the answer: {e:?}; ETag {:?}", etag.map(|e| String::from_utf8_lossy(&e).to_string())))
        })();
        let _ = child.kill();
        let _ = child.wait();
        if let Err(why) = verdict {
            r.violation("c17-cli-configured-key-id", &format!("c17-cli-configured-key-id explicit-key-path={}", explicit_key_path), format!("mock-omaha-server --key-id {} {}: {}", key_id, if explicit_key_path { "--key-path <test key>" } else { "(default key path)" }, why), rp);
        }
    }
}

/// The server started on a real socket (default, IPv4 and IPv6 loopback addresses) advertises a URL the client
/// can use, and one client-built update check sent to it over TCP is answered like an in-process one.
fn started_server_probe(args: &Args, r: &mut Report) {
    use std::io::{Read, Write};
    let rt = tokio::runtime::Builder::new_multi_thread().worker_threads(2).enable_all().build().unwrap();
    let mut rng = Rng::derive(args.seed, args.shard, 1717, 0);
    for (label, addr) in [("default", None), ("ipv4-loopback", Some("127.0.0.1:0")), ("ipv6-loopback", Some("[::1]:0"))] {
        let apps = gen_apps(&mut rng, 2);
        let (cfg, _kinds, _tag) = cfg_for(&mut rng, &apps, false, Some(OmahaResponse::NoUpdate));
        let server = match OmahaServerBuilder::default().responses_by_appid(cfg.clone()).build() {
            Ok(s) => s,
            Err(_) => continue,
        };
        let arc = Arc::new(TMutex::new(server));
        let sock = addr.map(|a| a.parse::<std::net::SocketAddr>().unwrap());
        let started = guard(|| rt.block_on(async { OmahaServer::start(arc.clone(), sock).await }));
        let url = match started {
            Ok(Ok((url, _task))) => url,
            Ok(Err(e)) => {
                r.note_once(&format!("started-server probe: cannot listen on {}: {}", label, e));
                continue;
            }
            Err(p) => {
                // the library panics when it cannot bind (e.g. no IPv6 in this sandbox): not judged
                r.note_once(&format!("started-server probe: start() on {} did not come up: {}", label, p.msg));
                continue;
            }
        };
        r.evals(1);
        r.hit("c17-started-server-reachable");
        let mut rp = args.case_replay(0);
        rp["probe"] = json!({"listen": label, "advertised_url": url});
        let uri = url.parse::<http::Uri>();
        let (host, port) = match &uri {
            Ok(u) => (u.host().map(|h| h.trim_start_matches('[').trim_end_matches(']').to_string()), u.port_u16()),
            Err(_) => (None, None),
        };
        if uri.is_err() || host.is_none() || port.is_none() {
            r.violation("c17-started-server-reachable", &format!("c17-started-server-reachable url {}", label), format!("server listening on {} advertises {:?}, which is not a usable http URL", label, url), rp);
            continue;
        }
        // one client-built update check over the socket
        let w = World::new(Script::default());
        let setup = Setup { service_url: url.clone(), apps: apps.clone(), ..Default::default() };
        let config = make_config(&setup, &w);
        let params = ParamsSnap::default_lib().to_lib();
        let mut b = RequestBuilder::new(&config, &params);
        for a in &apps {
            let app = a.to_app();
            b = b.add_update_check(&app).add_ping(&app);
        }
        let built = b.session_id(GUID::new()).request_id(GUID::new()).build(None::<&StandardCupv2Handler>);
        let Ok((req, _)) = built else {
            r.violation("c17-started-server-reachable", &format!("c17-started-server-reachable build {}", label), format!("the client cannot build a request for the advertised URL {:?}", url), rp);
            continue;
        };
        let (parts, body) = req.into_parts();
        let body = block_on(hyper::body::to_bytes(body)).map(|b| b.to_vec()).unwrap_or_default();
        let answer = (|| -> Result<Vec<u8>, String> {
            let mut sk = std::net::TcpStream::connect((host.clone().unwrap().as_str(), port.unwrap())).map_err(|e| format!("connect: {e}"))?;
            sk.set_read_timeout(Some(std::time::Duration::from_secs(10))).ok();
            let mut head = format!("POST {} HTTP/1.1\r\nHost: {}\r\nConnection: close\r\nContent-Length: {}\r\n", origin_form(&parts.uri), parts.uri.authority().map(|a| a.as_str()).unwrap_or(""), body.len());
            for (k, v) in parts.headers.iter() {
                head.push_str(&format!("{}: {}\r\n", k, v.to_str().unwrap_or("")));
            }
            head.push_str("\r\n");
            sk.write_all(head.as_bytes()).map_err(|e| format!("write: {e}"))?;
            sk.write_all(&body).map_err(|e| format!("write: {e}"))?;
            let mut out = vec![];
            sk.read_to_end(&mut out).map_err(|e| format!("read: {e}"))?;
            Ok(out)
        })();
        match answer {
            Err(e) => r.inconclusive.push(format!("started-server probe ({}): transport problem {}", label, e)),
            Ok(raw) => {
                let text = String::from_utf8_lossy(&raw).to_string();
                let ok_status = text.starts_with("HTTP/1.1 200");
                let payload = raw.windows(4).position(|w| w == b"\r\n\r\n").map(|p| raw[p + 4..].to_vec()).unwrap_or_default();
                // hyper may answer chunked: take everything from the first '{' or XSSI guard to the last '}'
                let start = payload.iter().position(|c| *c == b'{' || *c == b')').unwrap_or(0);
                let end = payload.iter().rposition(|c| *c == b'}').map(|p| p + 1).unwrap_or(payload.len());
                let doc = if start < end { &payload[start..end] } else { &payload[..] };
                let parsed = parse_json_response(doc);
                let ids: Vec<String> = parsed.as_ref().map(|p| p.apps.iter().map(|a| a.id.clone()).collect()).unwrap_or_default();
                let want: Vec<String> = apps.iter().map(|a| a.id.clone()).collect();
                if !ok_status || parsed.is_err() || ids != want {
                    r.violation("c17-started-server-reachable", &format!("c17-started-server-reachable answer {}", label), format!("update check sent to {} over TCP: status line {:?}, parse {:?}, apps {:?} (expected {:?})", url, text.lines().next(), parsed.as_ref().err().map(|e| e.to_string()), ids, want), rp);
                }
            }
        }
    }
}

pub fn run(args: &Args, r: &mut Report) {
    if args.extra.get("mode").map(|s| s.as_str()) == Some("stress") || args.layer == "tsan" || args.layer == "stress" {
        return stress(args, r);
    }
    r.rule_text = "(1) in-process mock_omaha_server::handle_request driven by requests the CLIENT builds (RequestBuilder + real \
        StandardCupv2Handler, URI converted to origin form as an HTTP/1 client sends it): 1..4 configured apps in any order, cohorts \
        with / without server-side cohort assertion, version assertion on/off, update-check and event requests, params (updates \
        disabled consistent with the server's assertion), service URLs {root, no path, path, path + query, root + query}, key \
        configurations {same latest, client's key historical on the server, both with history, server lacks the key}, response kind \
        per app (5 kinds), CUP on/off; every batch of exchanges is cross-verified (ETag i must verify for exchange i and for no \
        exchange j != i).  (2) the real state machine driven against the mock (HTTP double delegating to handle_request) must reach \
        the configured outcome.  (3) reconfiguration through POST /set_responses_by_appid: every later request sees it (unique \
        package names make the history unambiguous).  Shape key = url class + key config + kinds + request kind + cup."
        .into();
    r.require(&[
        "c17-no-panic",
        "c17-client-parser-accepts",
        "c17-apps-in-request-order",
        "c17-configured-decision",
        "c17-etag-verifies-for-its-exchange",
        "c17-etag-fails-for-other-exchange",
        "c17-no-valid-etag-without-key",
        "c17-invalid-response-is-unparseable",
        "c17-event-ack-has-no-updatecheck",
        "c17-state-machine-reaches-configured-outcome",
        "c17-reconfiguration-takes-effect",
        "c17-etag-override-fails-validation",
        "c17-started-server-reachable",
        "c17-cli-configured-key-id",
    ]);
    r.assume("ping-only requests are outside the statement (the mock asserts that an app without updatecheck carries an event)");
    let miri = args.layer == "miri";
    let n = if miri { 4 } else { args.budget(16_000, 200_000) };
    if !miri && args.only_case.is_none() {
        started_server_probe(args, r);
        cli_probe(args, r);
    }
    // ---- (1) + (3)
    for i in 0..n {
        if args.skip(i) {
            continue;
        }
        let mut rng = Rng::derive(args.seed, args.shard, 17, i);
        let n_apps = 1 + rng.usize(4);
        let mut apps = gen_apps(&mut rng, n_apps);
        rng.shuffle(&mut apps);
        // an app in the (legitimate) empty-string cohort
        if rng.chance(1, 5) {
            let k = rng.usize(apps.len());
            apps[k].cohort[0] = Some(String::new());
        }
        let keys = gen_keys(&mut rng);
        let cup = rng.chance(3, 4);
        let (url, url_class) = gen_service_url(&mut rng);
        let mut params = gen_params(&mut rng);
        params.same_version = false;
        let (cfg, kinds, _tag) = cfg_for(&mut rng, &apps, params.disable, None);
        let server = OmahaServerBuilder::default().responses_by_appid(cfg.clone()).private_keys(keys.server.clone()).require_cup(cup && keys.server_has_client_latest && rng.bool()).build().unwrap();
        let server = TMutex::new(server);
        let w = World::new(Script::default());
        let setup = Setup { service_url: url.clone(), apps: apps.clone(), ..Default::default() };
        let config = make_config(&setup, &w);
        let handler = StandardCupv2Handler::new(&keys.client);
        let mut m = Mon::default();
        let shape = crate::common::shape_of(&[url_class, keys.label, &kinds.iter().map(|k| kind_name(*k)).collect::<Vec<_>>().join(","), if cup { "cup" } else { "nocup" }]);
        r.eval(shape, true);
        let mut batch: Vec<Exchange> = vec![];
        let n_ex = 2 + rng.usize(3);
        let mut cur_cfg = cfg.clone();
        for e in 0..n_ex {
            let is_uc = e % 2 == 0 || rng.bool();
            let mixed_uc_event = is_uc && rng.chance(1, 5);
            let lib_params = params.to_lib();
            let mut b = RequestBuilder::new(&config, &lib_params);
            // an event report may name any non-empty subset of the configured apps (only those that
            // were offered an update report events); update checks always name all of them
            let subset: Vec<bool> = if is_uc { vec![true; apps.len()] } else {
                let mut v: Vec<bool> = apps.iter().map(|_| rng.bool()).collect();
                if !v.iter().any(|x| *x) {
                    let k = rng.usize(v.len());
                    v[k] = true;
                }
                v
            };
            for (a, take) in apps.iter().zip(subset.iter()) {
                if !*take {
                    continue;
                }
                let app = a.to_app();
                b = if is_uc {
                    let b2 = b.add_update_check(&app).add_ping(&app);
                    // an update check may carry an event for the same app (e.g. a report piggy-backed on the next check)
                    if mixed_uc_event { b2.add_event(&app, Event::success(EventType::UpdateComplete)) } else { b2 }
                } else {
                    b.add_event(&app, Event::success(EventType::UpdateDownloadStarted))
                };
            }
            b = b.session_id(GUID::new()).request_id(GUID::new());
            let built = if cup { b.build(Some(&handler)) } else { b.build(None::<&StandardCupv2Handler>) };
            let (req, meta) = match built {
                Ok(x) => x,
                Err(e) => {
                    r.note_once(&format!("build failed: {}", e));
                    continue;
                }
            };
            let ctx = format!("case {} exchange {} ({} url={} keys={} cup={})", i, e, if is_uc { "update-check" } else { "event" }, url, keys.label, cup);
            let reencode = rng.chance(1, 5);
            let chunks = if rng.chance(1, 4) { 2 + rng.usize(4) } else { 1 };
            let res = guard(|| exchange_full(&server, req, meta, reencode, chunks));
            m.hit("c17-no-panic");
            match res {
                Err(p) => {
                    let mut rp = args.case_replay(i);
                    rp["ctx"] = json!(ctx);
                    r.violation("c17-no-panic", &p.sig(), format!("{}: mock server panicked: {} at {}", ctx, p.msg, p.loc), rp);
                    continue;
                }
                Ok(Err(e)) => {
                    m.judge("c17-handle-request-ok", false, "", || format!("{}: {}", ctx, e));
                    continue;
                }
                Ok(Ok(x)) => {
                    judge_document(&mut m, &x, &cur_cfg, &ctx);
                    batch.push(x);
                }
            }
            // ---- (3) reconfigure between exchanges now and then
            if rng.chance(1, 3) {
                let (cfg2, _k2, tag2) = cfg_for(&mut rng, &apps, params.disable, Some(OmahaResponse::Update));
                let body: HashMap<String, Value> = cfg2
                    .iter()
                    .map(|(k, v)| {
                        let mut o = json!({"response": kind_name(v.response), "check_assertion": if params.disable { "UpdatesDisabled" } else { "UpdatesEnabled" },
                               "codebase": v.codebase, "package_name": v.package_name});
                        // optional members: null or simply absent
                        if v.version.is_some() || rng.bool() {
                            o["version"] = json!(v.version);
                        }
                        if v.cohort_assertion.is_some() || rng.bool() {
                            o["cohort_assertion"] = json!(v.cohort_assertion);
                        }
                        (k.clone(), o)
                    })
                    .collect();
                let req = hyper::Request::post("/set_responses_by_appid").body(hyper::Body::from(serde_json::to_vec(&body).unwrap())).unwrap();
                let res = guard(|| block_on(handle_request(req, &server)));
                match res {
                    Ok(Ok(resp)) if resp.status().is_success() => {
                        cur_cfg = cfg2;
                        let moved_cohort = rng.bool();
                        // the very next update check must see the new package names
                        let lib_params = params.to_lib();
                        let mut b = RequestBuilder::new(&config, &lib_params);
                        for a in &apps {
                            let mut app = a.to_app();
                            // an app whose cohort is no longer asserted by the new configuration may have moved on
                            if cur_cfg.get(&a.id).map(|c| c.cohort_assertion.is_none()).unwrap_or(false) && moved_cohort {
                                app.cohort.id = Some("moved:1:".to_string());
                            }
                            b = b.add_update_check(&app).add_ping(&app);
                        }
                        let built = if cup { b.build(Some(&handler)) } else { b.build(None::<&StandardCupv2Handler>) };
                        if let Ok((req, meta)) = built {
                            let after = guard(|| exchange(&server, req, meta));
                            if let Err(p) = &after {
                                let mut rp = args.case_replay(i);
                                rp["ctx"] = json!("update check after reconfiguration");
                                r.violation("c17-no-panic", &p.sig(), format!("case {}: after a reconfiguration the mock panicked on the next update check: {} at {}", i, p.msg, p.loc), rp);
                            }
                            if let Ok(Ok(x)) = after {
                                let seen = String::from_utf8_lossy(&x.body).contains(&tag2);
                                m.judge("c17-reconfiguration-takes-effect", seen, "", || format!("case {}: after POST /set_responses_by_appid returned, the next response does not carry the new package name {}", i, tag2));
                                judge_document(&mut m, &x, &cur_cfg, "after reconfiguration");
                                batch.push(x);
                            }
                        }
                    }
                    Ok(other) => m.judge("c17-reconfiguration-accepted", false, "", || format!("POST /set_responses_by_appid failed: {:?}", other.map(|r| r.status()))),
                    Err(p) => r.violation("c17-no-panic", &p.sig(), format!("reconfiguration panicked: {}", p.msg), args.case_replay(i)),
                }
            }
        }
        // ---- CUP cross-verification over the batch
        if cup && !miri {
            for (a, xa) in batch.iter().enumerate() {
                let Some(meta_a) = &xa.meta else { continue };
                let resp = to_client_response(xa);
                let own = handler.verify_response(meta_a, &resp, meta_a.public_key_id);
                if keys.server_has_client_latest {
                    m.judge("c17-etag-verifies-for-its-exchange", own.is_ok(), keys.label, || {
                        format!("case {} exchange {}: the client verifier rejects the mock's ETag {:?}: {:?} (url {}, keys {})", i, a, xa.etag.as_ref().map(|e| String::from_utf8_lossy(e).to_string()), own.as_ref().err(), url, keys.label)
                    });
                    for (bi, xb) in batch.iter().enumerate() {
                        if bi == a {
                            continue;
                        }
                        let Some(meta_b) = &xb.meta else { continue };
                        let cross = handler.verify_response(meta_b, &resp, meta_b.public_key_id);
                        m.judge("c17-etag-fails-for-other-exchange", cross.is_err(), "", || format!("case {}: response of exchange {} verifies for exchange {}", i, a, bi));
                    }
                } else {
                    m.judge("c17-no-valid-etag-without-key", own.is_err(), "", || format!("case {} exchange {}: server does not hold key {} but its ETag verifies", i, a, meta_a.public_key_id));
                }
            }
        }
        // ---- sibling nonces: the same request re-sent under two nonces that differ only in how their nibbles are
        // distributed over bytes (01 10 vs 11 00): the ETag for one must not verify for the other
        if cup && !miri && keys.server_has_client_latest {
            if let Some(xa) = batch.iter().find(|x| x.meta.is_some() && x.target.contains("cup2key=")) {
                let meta_a = xa.meta.as_ref().unwrap();
                let mut n1 = [0u8; 32];
                for b in n1.iter_mut() {
                    *b = rng.below(256) as u8;
                }
                let pos = rng.usize(31);
                let mut n2 = n1;
                let (hi, lo) = (1 + rng.below(15) as u8, 1 + rng.below(15) as u8);
                n1[pos] = hi; // 0h | l0  renders (unpadded) like  hl | 0
                n1[pos + 1] = lo << 4;
                n2[pos] = (hi << 4) | lo;
                n2[pos + 1] = 0;
                let nonce1 = omaha_client::cup_ecdsa::Nonce::from(n1);
                let nonce2 = omaha_client::cup_ecdsa::Nonce::from(n2);
                let start = xa.target.find("cup2key=").unwrap() + 8;
                let end = xa.target[start..].find('&').map(|k| start + k).unwrap_or(xa.target.len());
                let target = format!("{}{}:{}{}", &xa.target[..start], meta_a.public_key_id, nonce1, &xa.target[end..]);
                let req = hyper::Request::post(target.as_str()).body(hyper::Body::from(xa.req_body.clone()));
                if let Ok(req) = req {
                    if let Ok(Ok(resp)) = guard(|| block_on(handle_request(req, &server))) {
                        let (rp, rb) = resp.into_parts();
                        let rbody = block_on(hyper::body::to_bytes(rb)).map(|b| b.to_vec()).unwrap_or_default();
                        let mut b = http::Response::builder().status(rp.status.as_u16());
                        if let Some(e) = rp.headers.get("etag") {
                            b = b.header("etag", e.as_bytes());
                        }
                        let resp = b.body(rbody).unwrap();
                        let meta1 = RequestMetadata { request_body: xa.req_body.clone(), public_key_id: meta_a.public_key_id, nonce: nonce1 };
                        let meta2 = RequestMetadata { request_body: xa.req_body.clone(), public_key_id: meta_a.public_key_id, nonce: nonce2 };
                        let own = handler.verify_response(&meta1, &resp, meta1.public_key_id);
                        m.judge("c17-etag-verifies-for-its-exchange", own.is_ok(), "crafted-nonce", || format!("case {}: re-sent exchange under a crafted nonce: the client verifier rejects the mock's ETag: {:?}", i, own.as_ref().err()));
                        let cross = handler.verify_response(&meta2, &resp, meta2.public_key_id);
                        m.judge("c17-etag-fails-for-other-exchange", cross.is_err(), "sibling-nonce", || {
                            format!("case {}: the ETag issued for nonce {} also verifies for the different nonce {} (same request body)", i, hex::encode(n1), hex::encode(n2))
                        });
                    }
                }
            }
        }
        if r.want_sample() && i % 150 == 3 {
            if let Some(x) = batch.first() {
                r.sample(json!({"case": i, "url": url, "keys": keys.label, "cup": cup, "configured": kinds.iter().map(|k| kind_name(*k)).collect::<Vec<_>>(),
                    "request": x.req_json, "response": String::from_utf8_lossy(&x.body), "etag": x.etag.as_ref().map(|e| String::from_utf8_lossy(e).to_string())}));
            }
        }
        for (k, v) in m.hits {
            r.hits(&k, v);
        }
        for (rule, sig, detail) in m.viols {
            r.violation(&rule, &sig, detail, args.case_replay(i));
        }
    }
    // ---- a server that has not been configured yet answers 500 with an empty body (no panic)
    if !miri && args.only_case.is_none() {
        let server = TMutex::new(OmahaServerBuilder::default().build().unwrap());
        let req = hyper::Request::post("/").body(hyper::Body::from(br#"{"request":{"protocol":"3.0","app":[{"appid":"x","version":"1.0.0.0","updatecheck":{}}]}}"#.to_vec())).unwrap();
        r.hit("c17-unconfigured-server-answers-500");
        match guard(|| block_on(handle_request(req, &server))) {
            Ok(Ok(resp)) => {
                if resp.status().as_u16() != 500 {
                    r.violation("c17-unconfigured-server-answers-500", "c17-unconfigured-server-answers-500", format!("status {}", resp.status()), json!({}));
                }
            }
            Ok(Err(e)) => r.violation("c17-unconfigured-server-answers-500", "c17-unconfigured-server-answers-500 error", e.to_string(), json!({})),
            Err(p) => r.violation("c17-no-panic", &p.sig(), format!("unconfigured server panicked: {}", p.msg), json!({})),
        }
    }
    // ---- (2) the state machine against the mock
    let nsm = if miri { 1 } else { args.budget(1_500, 16_000) };
    for j in 0..nsm {
        let i = 40_000_000 + j;
        if args.skip(i) {
            continue;
        }
        let mut rng = Rng::derive(args.seed, args.shard, 1717, j);
        let kind = KINDS[(j % 5) as usize];
        let etag_override = j % 11 == 10;
        let n_apps = 1 + rng.usize(2);
        let apps = gen_apps(&mut rng, n_apps);
        let keys = gen_keys(&mut rng);
        let cup = etag_override || rng.bool();
        let (url, url_class) = gen_service_url(&mut rng);
        let (mut cfg, _, _) = cfg_for(&mut rng, &apps, false, Some(kind));
        // two apps with different decisions: the event reports then name only the updated app
        let mixed = n_apps == 2 && kind == OmahaResponse::Update && j % 2 == 0 && !etag_override;
        if mixed {
            if let Some(c) = cfg.get_mut(&apps[1].id) {
                c.response = OmahaResponse::NoUpdate;
            }
        }
        let mut sb = OmahaServerBuilder::default().responses_by_appid(cfg.clone()).private_keys(keys.server.clone());
        if etag_override {
            sb = sb.etag_override(Some("deadbeef:cafe".to_string()));
        }
        // a server that insists on CUP behaves the same towards a client that uses it (also together with a
        // forced ETag)
        let require = cup && keys.server_has_client_latest && rng.bool();
        if require {
            sb = sb.require_cup(true);
        }
        let server = Arc::new(TMutex::new(sb.build().unwrap()));
        let mut script = Script::default();
        script.checks.push(CheckScript { results: vec![InstRes::Installed; if mixed { 1 } else { n_apps }], ..Default::default() });
        let setup = Setup { service_url: url.clone(), apps: apps.clone(), cup, start_mode: rng.bool(), ..Default::default() };
        let mut case = FlowCase::new(setup, script);
        case.shape = vec!["sm".into(), if mixed { "mixed".into() } else { kind_name(kind).to_string() }, url_class.into(), keys.label.into(), format!("cup={} override={} require={}", cup, etag_override, require)];
        let w = make_world(&case);
        {
            let mut g = lock(&w);
            g.mock = Some(server.clone());
            if cup {
                // the client is configured with the key set under test (the harness signer is unused here)
                g.cup = Some(ServerKeys { keys: vec![], foreign: signing_key_from_seed(&mut rng) });
                g.client_keys = Some(keys.client.clone());
            }
        }
        let mut d = Driver::new(&w, &case.setup);
        let end = d.run(Sched::Fifo, &mut rng, |d| d.count_state(&StateSnap::Idle) >= 1);
        let run = finish_run(&case, w, d, end);
        r.eval(case.shape_key(), true);
        let mut m = Mon::default();
        if let Some(p) = &run.panicked {
            report_panic(r, args, i, p, &run.w, case_desc(&case));
            continue;
        }
        let Some(c) = run.flow.checks.first() else {
            m.judge("c17-state-machine-reaches-configured-outcome", false, "no-check", || "no check ran".into());
            absorb(r, args, i, m, &run.w, case_desc(&case));
            continue;
        };
        let result = c.result.as_ref().map(|x| &x.1);
        let states: Vec<String> = c.events.iter().map(|e| crate::props::monitors::short(&e.1)).collect();
        let valid_sig = cup && keys.server_has_client_latest && !etag_override;
        let expect = if cup && !valid_sig {
            "validation-error"
        } else {
            match kind {
                OmahaResponse::NoUpdate => "no-update",
                OmahaResponse::Update | OmahaResponse::UrgentUpdate | OmahaResponse::InvalidURL => "install",
                OmahaResponse::InvalidResponse => "parse-error",
            }
        };
        let ok = match expect {
            "validation-error" => matches!(result, Some(Err(e)) if e.contains("CupValidation")),
            "no-update" => matches!(result, Some(Ok(v)) if v.iter().all(|a| a.action == "NoUpdate")) && states.iter().any(|s| s == "NoUpdate"),
            "install" => {
                let plan_ok = {
                    let g = lock(&run.w);
                    g.log.iter().any(|x| match &x.ev {
                        Ev::PlanCreate { response, .. } => response.apps.iter().all(|a| {
                            let Some(cc) = cfg.get(&a.id) else { return false };
                            let urls: Vec<String> = a.update_check.as_ref().map(|u| u.get_all_full_urls().collect()).unwrap_or_default();
                            let urgent = a.update_check.as_ref().and_then(|u| u.extra_attributes.get("_urgent_update")).and_then(|v| v.as_bool()).unwrap_or(false);
                            urls.len() == 1 && urls[0].ends_with(&cc.package_name) && (kind == OmahaResponse::InvalidURL || urls[0].starts_with(&cc.codebase)) && urgent == (kind == OmahaResponse::UrgentUpdate)
                        }),
                        _ => false,
                    })
                };
                let actions_ok = match result {
                    Some(Ok(v)) if mixed => v.iter().all(|a| (a.app_id == apps[1].id && a.action == "NoUpdate") || (a.app_id != apps[1].id && a.action == "Updated")),
                    Some(Ok(v)) => v.iter().all(|a| a.action == "Updated"),
                    _ => false,
                };
                (plan_ok || mixed) && actions_ok && c.reports.len() == 3 && c.reports.iter().all(|q| matches!(&q.resp, Some((_, Delivered::Reply { status: 200, .. }))))
            }
            _ => matches!(result, Some(Err(e)) if e.contains("ResponseParser")) && c.reports.len() == 1,
        };
        if etag_override {
            m.judge("c17-etag-override-fails-validation", ok, "", || format!("forced ETag: expected a validation error, got {:?}", result));
        }
        m.judge("c17-state-machine-reaches-configured-outcome", ok, &format!("{} {}", kind_name(kind), expect), || {
            format!("configured {:?} (cup={}, keys={}, url={}): expected {}, observed outcome {} states {:?} result {:?} reports {}", kind, cup, keys.label, url, expect, outcome_label(c), states, result, c.reports.len())
        });
        absorb(r, args, i, m, &run.w, case_desc(&case));
    }
}

/// Concurrency stress on a multi-thread runtime: requests race reconfigurations; each response
/// must reflect one configuration that was in force between its call and its return.
fn stress(args: &Args, r: &mut Report) {
    use std::sync::atomic::{AtomicU64, Ordering};
    r.rule_text = "8-worker tokio runtime: 6 tasks issue in-process update-check requests while one task POSTs /set_responses_by_appid \
        with configurations that carry a unique, numbered package name; every response must show a configuration whose number lies \
        between 'last reconfiguration completed before the call' and 'last reconfiguration started before the return'.  Run under the \
        plain build and under ThreadSanitizer."
        .into();
    r.require(&["c17-stress-response-in-window"]);
    let per_task = args.budget(2_000 * 16, 20_000 * 16) as usize / 6;
    let reconfigs = per_task / 4 + 10;
    let rt = tokio::runtime::Builder::new_multi_thread().worker_threads(8).enable_all().build().unwrap();
    let started = Arc::new(AtomicU64::new(0));
    let completed = Arc::new(AtomicU64::new(0));
    let mk = |n: u64| -> HashMap<String, ResponseAndMetadata> {
        let mut m = HashMap::new();
        m.insert("{app-a}".to_string(), ResponseAndMetadata { response: OmahaResponse::Update, version: None, package_name: format!("cfg-{:08}", n), ..Default::default() });
        m
    };
    let server = Arc::new(TMutex::new(OmahaServerBuilder::default().responses_by_appid(mk(0)).build().unwrap()));
    let body = br#"{"request":{"protocol":"3.0","app":[{"appid":"{app-a}","version":"1.0.0.0","updatecheck":{}}]}}"#.to_vec();
    let violations = Arc::new(std::sync::Mutex::new(Vec::<String>::new()));
    let judged = Arc::new(AtomicU64::new(0));
    rt.block_on(async {
        let mut hs = vec![];
        {
            let (server, started, completed) = (server.clone(), started.clone(), completed.clone());
            hs.push(tokio::spawn(async move {
                for n in 1..=reconfigs as u64 {
                    let cfg: HashMap<String, Value> = [("{app-a}".to_string(), json!({"response": "Update", "check_assertion": "UpdatesEnabled", "version": null, "cohort_assertion": null,
                        "codebase": "fuchsia-pkg://x/", "package_name": format!("cfg-{:08}", n)}))]
                    .into_iter()
                    .collect();
                    let req = hyper::Request::post("/set_responses_by_appid").body(hyper::Body::from(serde_json::to_vec(&cfg).unwrap())).unwrap();
                    started.store(n, Ordering::SeqCst);
                    let _ = handle_request(req, &server).await;
                    completed.store(n, Ordering::SeqCst);
                    tokio::task::yield_now().await;
                }
            }));
        }
        for _t in 0..6 {
            let (server, started, completed, body, violations, judged) = (server.clone(), started.clone(), completed.clone(), body.clone(), violations.clone(), judged.clone());
            hs.push(tokio::spawn(async move {
                for _ in 0..per_task {
                    let lo = completed.load(Ordering::SeqCst);
                    let req = hyper::Request::post("/").body(hyper::Body::from(body.clone())).unwrap();
                    let resp = handle_request(req, &server).await;
                    let hi = started.load(Ordering::SeqCst);
                    if let Ok(resp) = resp {
                        let b = hyper::body::to_bytes(resp.into_body()).await.map(|b| b.to_vec()).unwrap_or_default();
                        let s = String::from_utf8_lossy(&b).to_string();
                        let n = s.find("cfg-").and_then(|p| s[p + 4..p + 12].parse::<u64>().ok());
                        judged.fetch_add(1, Ordering::SeqCst);
                        match n {
                            Some(n) if n >= lo && n <= hi => {}
                            other => violations.lock().unwrap().push(format!("response shows configuration {:?}, window [{}, {}]", other, lo, hi)),
                        }
                    }
                    tokio::task::yield_now().await;
                }
            }));
        }
        for h in hs {
            let _ = h.await;
        }
    });
    let j = judged.load(std::sync::atomic::Ordering::SeqCst);
    r.evals(j);
    r.shapes.insert(crate::common::shape_of(&["stress", "6x requests", "1x reconfig"]));
    r.shapes.insert(crate::common::shape_of(&["stress", &format!("reconfigs{}", reconfigs)]));
    r.hits("c17-stress-response-in-window", j);
    r.count("reconfigurations", reconfigs as u64);
    r.sample(json!({"stress": "6 request tasks x 1 reconfiguration task on an 8-worker runtime", "responses_judged": j, "reconfigurations": reconfigs,
        "violations": violations.lock().unwrap().len()}));
    for v in violations.lock().unwrap().iter().take(5) {
        r.violation("c17-stress-response-in-window", "c17-stress-response-in-window", v.clone(), json!({"stress": true}));
    }
}
