//! C14 — No input can crash the updater; storage failures are harmless.

use crate::common::{Args, Report, Rng};
use crate::props::gen::*;
use crate::props::monitors::{short, Mon};
use crate::sim::driver::*;
use crate::sim::world::*;
use serde_json::{json, Value};
use std::collections::{BTreeMap, BTreeSet};

const KEYS: [&str; 8] = [
    "last_update_time",
    "server_dictated_poll_interval",
    "consecutive_failed_update_checks",
    "consecutive_failed_install_attempts",
    "install_plan_id",
    "update_first_seen_time",
    "update_finish_time",
    "target_version",
];

fn extreme_int(rng: &mut Rng) -> i64 {
    // chrono's representable range is about +/- 262 143 years
    const CHRONO_EDGE_US: i64 = 8_210_266_876_799_000_000;
    *rng.pick(&[
        0i64, 1, -1, 2, 1000, -1000, u32::MAX as i64 - 1, u32::MAX as i64, u32::MAX as i64 + 1, i32::MAX as i64, i32::MIN as i64,
        i64::MAX, i64::MAX - 1, i64::MIN, i64::MIN + 1, CHRONO_EDGE_US, CHRONO_EDGE_US + 1_000_000_000_000, -CHRONO_EDGE_US, -CHRONO_EDGE_US - 1_000_000_000_000,
        1_700_000_000_000_000, 86_400_000_000, -62_135_596_800_000_000, 253_402_300_800_000_000,
    ])
}

/// A long string in which multi-byte characters sit at every byte offset around the usual cut-off lengths.
fn long_multibyte(rng: &mut Rng) -> String {
    let edge = *rng.pick(&[16usize, 32, 64, 100, 128, 255, 256, 512, 1000, 1024, 2048, 4096]);
    let lead = edge - 1 - rng.usize(4).min(edge - 1);
    let filler = *rng.pick(&['a', ' ', '{', '"', '0']);
    let mut s: String = std::iter::repeat(filler).take(lead).collect();
    let wide = *rng.pick(&['\u{e9}', '\u{4e2d}', '\u{1f600}', '\u{fffd}']);
    for _ in 0..2 + rng.usize(6) {
        s.push(wide);
    }
    s.extend(std::iter::repeat(filler).take(rng.usize(40)));
    s
}

fn hostile_value(rng: &mut Rng, key: &str) -> Val {
    if rng.chance(1, 8) {
        return Val::S(long_multibyte(rng));
    }
    match rng.below(8) {
        0 => Val::B(rng.bool()),
        1 => Val::S(rng.pick(&["", "0", "-1", "plan-0", "{}", "null", "1.0.0.0", "\u{0}", "7.7.7"]).to_string()),
        2 if key.starts_with('{') => Val::S(rng.pick(&["{", "{}", "[]", "{\"cohort\":1}", "{\"cohort\":{\"cohort\":5},\"user_counting\":{}}", "{\"cohort\":{},\"user_counting\":{\"ClientRegulatedByDate\":-1}}", "{\"cohort\":{},\"user_counting\":{\"ClientRegulatedByDate\":4294967296}}", "{\"cohort\":{\"cohort\":\"\"},\"user_counting\":{\"ClientRegulatedByDate\":4294967295}}"]).to_string()),
        _ => Val::I(extreme_int(rng)),
    }
}

fn hostile_preload(rng: &mut Rng, apps: &[AppSpec]) -> (BTreeMap<String, Val>, String) {
    let mut m = BTreeMap::new();
    let mut label = String::new();
    let n = 1 + rng.usize(4);
    for _ in 0..n {
        let key = if rng.chance(1, 6) { apps[rng.usize(apps.len())].id.clone() } else { KEYS[rng.usize(KEYS.len())].to_string() };
        let v = hostile_value(rng, &key);
        label.push_str(&format!(
            "{}={},",
            key,
            match &v {
                Val::I(i) => format!("i{}", if *i == i64::MAX { "MAX".into() } else if *i == i64::MIN { "MIN".into() } else { format!("{}", i.signum() as i128 * (i.unsigned_abs() as f64).log10().floor() as i128) }),
                Val::S(_) => "s".into(),
                Val::B(_) => "b".into(),
            }
        ));
        m.insert(key, v);
    }
    (m, label)
}

fn hostile_body(rng: &mut Rng, apps: &[AppSpec]) -> (Vec<u8>, String) {
    let (doc, _) = gen_doc(rng, apps, None, true);
    let good = crate::sim::omaha::render_doc(&doc);
    match rng.below(13) {
        12 => {
            // a well-formed document that names an app twice (any mix of statuses)
            let mut d2 = doc.clone();
            if !d2.apps.is_empty() {
                let k = rng.usize(d2.apps.len());
                let mut dup = d2.apps[k].clone();
                dup.updatecheck = Some(if rng.bool() { UcSpec::ok(Some("8.8.8.8")) } else { UcSpec::status("noupdate") });
                let pos = rng.usize(d2.apps.len() + 1);
                d2.apps.insert(pos, dup);
            }
            (crate::sim::omaha::render_doc(&d2), "dup-appid".into())
        }
        9 => (vec![], "empty".into()),
        10 => {
            // every short truncation of a guarded document, and near-miss guards
            let mut b = b")]}'\n".to_vec();
            b.extend_from_slice(&good);
            let cut = rng.usize(9);
            (b[..cut].to_vec(), format!("xssi-trunc{}", cut))
        }
        11 => {
            let v: &[u8] = *rng.pick(&[&b")]}'\r"[..], b")]}'\r\n", b")]}' ", b")]}'\n", b")]}'\n\n", b")]}'x", b")]}')]}'\n", b" )]}'\n{}"]);
            (v.to_vec(), "xssi-nearmiss".into())
        }
        0 => {
            let n = rng.usize(300);
            (rng.bytes(n), "random".into())
        }
        1 => {
            let cut = rng.usize(good.len());
            (good[..cut].to_vec(), "truncated".into())
        }
        2 => {
            let mut b = good.clone();
            for _ in 0..1 + rng.usize(3) {
                let i = rng.usize(b.len());
                b[i] ^= 1 << rng.below(8);
            }
            (b, "bitflip".into())
        }
        3 => {
            let depth = *rng.pick(&[100usize, 127, 128, 129, 1000, 20_000]);
            let mut b = br#"{"response":{"protocol":"3.0","app":[],"x":"#.to_vec();
            b.extend(std::iter::repeat(b'[').take(depth));
            b.extend(std::iter::repeat(b']').take(depth));
            b.extend_from_slice(b"}}");
            (b, format!("deep{}", depth))
        }
        4 => (br#"{"response":{"protocol":"3.0","daystart":{"elapsed_days":1e999,"elapsed_seconds":99999999999999999999999999},"app":[]}}"#.to_vec(), "hugenum".into()),
        5 => {
            let mut b = b")]}'\n".to_vec();
            b.extend_from_slice(&good);
            (b, "xssi".into())
        }
        6 => (br#"{"response":{"protocol":"3.0","app":[{"appid":"{app-a}","status":"ok","updatecheck":{"status":"ok","manifest":{"version":"","actions":{"action":[]},"packages":{"package":[]}}}}]}}"#.to_vec(), "emptyversion".into()),
        7 => (b"\xef\xbb\xbf{}".to_vec(), "bom".into()),
        _ => (good, "valid".into()),
    }
}

/// ETag values shaped like (and unlike) the CUP `<DER signature hex>:<request hash hex>` form.
fn hostile_etag(rng: &mut Rng) -> Vec<u8> {
    let sig = "3045022100".to_string() + &"ab".repeat(32) + "0220" + &"cd".repeat(32);
    let hexn = |rng: &mut Rng, n: usize| -> String { (0..n).map(|_| format!("{:02x}", rng.below(256))).collect() };
    let s = match rng.below(14) {
        0 => "3045:abcd".to_string(),
        1 => "deadbeef:".to_string(),
        2 => ":".to_string(),
        3 => format!("{}:{}", sig, hexn(rng, 31)),
        4 => format!("{}:{}", sig, hexn(rng, 33)),
        5 => format!("{}:{}", sig, hexn(rng, 32)),
        6 => format!("{}:", sig),
        7 => format!(":{}", hexn(rng, 32)),
        8 => format!("W/\"{}:{}\"", sig, hexn(rng, 32)),
        9 => {
            let (a, b) = (1 + rng.usize(80), rng.usize(70));
            format!("\"{}:{}\"", hexn(rng, a), hexn(rng, b))
        }
        10 => format!("{}:{}:{}", hexn(rng, 8), hexn(rng, 32), hexn(rng, 32)),
        11 => format!("{}:{}", hexn(rng, 70), "zz".repeat(32)),
        12 => {
            let (a, b) = (rng.usize(4), rng.usize(4));
            format!("{}:{}", hexn(rng, a), hexn(rng, b))
        }
        _ => "\"".to_string(),
    };
    s.into_bytes()
}

fn hostile_headers(rng: &mut Rng) -> Vec<(String, Vec<u8>)> {
    let mut h = vec![];
    for _ in 0..rng.usize(4) {
        let name = *rng.pick(&["X-Retry-After", "ETag", "Content-Length", "Content-Type", "X-Foo", "Retry-After", "x-retry-after"]);
        let n = rng.usize(12);
        let val = match rng.below(4) {
            0 => rng.bytes(n).into_iter().filter(|b| *b >= 0x20 && *b != 0x7f).collect(),
            1 => HEADER_VALUES[rng.usize(HEADER_VALUES.len())].to_vec(),
            2 => b"18446744073709551616".to_vec(),
            _ => b"0".to_vec(),
        };
        h.push((name.to_string(), val));
    }
    h
}

const URLS: [&str; 22] = [
    "omaha.example.com", "localhost:8080", "omaha.example.com:443", "user@host", "*", "http:",

    "", " ", "http://", "http://exa mple.com/", "https://omaha.example/path?x=1", "ftp://x/y", "http://[::1]:8080/", "http://[::1/", "//x", "/relative/only",
    "http://omaha.example:99999/", "http://omaha.example/%zz", "\u{0}", "http://omaha.example/\u{e9}", "http://omaha.example/#frag", "http://user:pw@omaha.example/",
];

/// Digest for the storage-fault differential: requests (ids normalised) and announced events.
fn digest(w: &W) -> Vec<String> {
    let g = lock(w);
    let mut ids: Vec<String> = vec![];
    let mut norm = |s: &str| -> String {
        let i = match ids.iter().position(|x| x == s) {
            Some(i) => i,
            None => {
                ids.push(s.to_string());
                ids.len() - 1
            }
        };
        format!("<id{}>", i)
    };
    let mut out = vec![];
    for r in g.log.iter() {
        match &r.ev {
            Ev::HttpReq { json, uri, session, request_id, kind, .. } => {
                let mut j = json.clone();
                if let Some(req) = j.get_mut("request").and_then(|x| x.as_object_mut()) {
                    if let Some(s) = session {
                        req.insert("sessionid".into(), Value::String(norm(s)));
                    }
                    if let Some(s) = request_id {
                        req.insert("requestid".into(), Value::String(norm(s)));
                    }
                }
                // event durations depend on the random backoff; they are not part of "the requests sent"
                let txt = j.to_string();
                let uri = uri.split("cup2key=").next().unwrap_or(uri).to_string();
                out.push(format!("REQ {:?} {} {}", kind, uri, strip_download_time(&txt)));
            }
            Ev::Taken(e) => out.push(match e {
                EvSnap::Proto(p) => format!("EV Proto {:?}", p),
                EvSnap::Result(Ok(v)) => format!("EV Result Ok {:?}", v),
                EvSnap::Result(Err(e)) => format!("EV Result Err {}", e),
                EvSnap::Progress(p) => format!("EV Progress {}", p),
                other => format!("EV {}", short(other)),
            }),
            Ev::StreamEnd => out.push("END".into()),
            _ => {}
        }
    }
    out
}

fn strip_download_time(s: &str) -> String {
    let mut out = String::new();
    let mut rest = s;
    while let Some(i) = rest.find("\"download_time_ms\":") {
        out.push_str(&rest[..i]);
        let tail = &rest[i + 19..];
        let j = tail.find(|c: char| !c.is_ascii_digit()).unwrap_or(tail.len());
        out.push_str("\"download_time_ms\":N");
        rest = &tail[j..];
    }
    out.push_str(rest);
    out
}

fn judge_progress(m: &mut Mon, run: &CaseRun, case: &FlowCase, what: &str) {
    // every started check ends with a delivered result, by logical steps (never wall-clock)
    let started: usize = run.flow.checks.len();
    let finished = run.flow.checks.iter().filter(|c| c.result.is_some()).count();
    let hang = matches!(run.end, RunEnd::Blocked | RunEnd::OutOfSteps) || started != finished;
    if run.panicked.is_none() {
        m.judge("c14-every-check-delivers-result", !hang, what, || {
            format!("run ended {:?} after {} steps: {} checks started, {} results delivered (stop_idle {})", run.end, run.steps, started, finished, case.stop_idle)
        });
        m.judge("c14-no-lost-wakeup", run.lost_wakes.is_empty(), what, || format!("{:?}", run.lost_wakes));
    }
}

pub fn run(args: &Args, r: &mut Report) {
    r.rule_text = "Six hostile workloads through the real state machine with a formatting log subscriber installed (every log argument is \
        rendered): (1) response bytes {random, truncated / bit-flipped / deeply nested / huge-number / BOM / XSSI documents} with \
        arbitrary header sets (ETags of and near the CUP `sig:hash` form included) and statuses as replies to update checks, event reports and pings; (2) pre-existing storage with every \
        key the library reads set to every type x {long strings with multi-byte characters straddling the usual cut-off lengths, 0, +-1, u32 / i32 / i64 extremes, chrono range edges}; (3) service-URL strings \
        (grammar + garbage); (4) clock trajectories with wall-clock jumps (-50 y, +300 000 y, to / before the epoch) under a monotone \
        monotonic clock; (5) storage faults: every single mutating operation failing, pairs, random subsets, all-fail, judged \
        differentially against the healthy run of the same scenario (requests with ids normalised + announced events; metrics \
        excluded); (6) metrics sink failing.  Monitors: panic hook (catch_unwind per case), abnormal exit, bounded progress in \
        driver steps (never wall-clock), lost wake-ups.  Shape key = workload + hostile-value classes + path.  Every case is non-trivial."
        .into();
    r.require(&["c14-every-check-delivers-result", "c14-no-lost-wakeup", "c14-storage-faults-invisible", "c14-storage-fault-confined-to-its-entry", "c14-case-ran"]);
    r.assume("policy and installer doubles respect their documented contracts; the monotonic clock never goes backwards");
    let n = args.budget(10_000, 300_000);
    for i in 0..n {
        if args.skip(i) {
            continue;
        }
        let mut rng = Rng::derive(args.seed, args.shard, 14, i);
        let wl = i % 6;
        let start_mode = rng.bool();
        let len = if start_mode { 1 + rng.usize(3) } else { 1 };
        let mut paths: Vec<Path> = (0..len).map(|_| *rng.pick(&ALL_PATHS)).collect();
        if rng.bool() {
            paths[0] = Path::Install;
        }
        let cfg = HistCfg { start_mode, cup: if wl == 2 { rng.bool() } else { rng.chance(1, 4) }, n_apps: 1 + rng.usize(2), paths, cohorts: rng.bool(), deliveries: rng.bool(), random_params: rng.bool(), throttles: false };
        let mut case = gen_history(&mut rng, &cfg);
        let apps = case.setup.apps.clone();
        let mut l = add_reboot_waits(&mut case.script, &mut rng, true, &apps);
        if start_mode && cfg.paths[0] == Path::Install && rng.bool() {
            // a long reboot wait with several pings
            let c0 = &mut case.script.checks[0];
            for x in c0.results.iter_mut() {
                if *x == InstRes::Failed {
                    *x = InstRes::Installed;
                }
            }
            c0.reboot_needed = true;
            c0.reboot_allowed = vec![false, false, false, false, false, true];
            l.push_str("longwait");
        }
        if rng.chance(1, 5) {
            case.script.repeat_last_attempt = true;
            l.push_str("+norecovery");
        }
        // embedders differ: one never asks for checks and drops every control handle, one has a task of its own
        // that takes the shared storage and app-set locks now and then
        if start_mode && rng.chance(1, 4) {
            case.drop_handles_after = Some(rng.below(20));
            l.push_str("+nohandles");
        }
        if rng.chance(1, 5) {
            case.embedder_rate = 5;
            l.push_str("+embedder");
        }
        case.shape.push(l);
        case.sched = Sched::Random;
        case.nontrivial = true;
        case.max_steps = 6_000;
        let mut m = Mon::default();
        m.hit("c14-case-ran");
        match wl {
            0 => {
                // hostile bytes / headers / statuses on some replies
                let mut lab = String::from("bytes:");
                for c in case.script.checks.iter_mut() {
                    for a in c.attempts.iter_mut().chain(c.reports.iter_mut()) {
                        if rng.chance(1, 2) {
                            let (b, l) = hostile_body(&mut rng, &apps);
                            lab.push_str(&l);
                            lab.push(',');
                            let status = *rng.pick(&[200u16, 200, 200, 201, 204, 299, 300, 404, 500, 599, 100]);
                            let etag = if rng.chance(1, 3) { EtagSpec::Raw(hostile_etag(&mut rng)) } else { EtagSpec::Auto };
                            *a = RespSpec::Reply(ReplySpec { status, headers: hostile_headers(&mut rng), body: BodySpec::Raw(b), etag });
                        }
                    }
                }
                for p in case.script.pings.iter_mut() {
                    if rng.bool() {
                        let (b, l) = hostile_body(&mut rng, &apps);
                        lab.push_str(&l);
                        let etag = if rng.chance(1, 3) { EtagSpec::Raw(hostile_etag(&mut rng)) } else { EtagSpec::Auto };
                        *p = RespSpec::Reply(ReplySpec { status: 200, headers: hostile_headers(&mut rng), body: BodySpec::Raw(b), etag });
                    }
                }
                case.shape.push(lab);
            }
            1 => {
                let (pre, lab) = hostile_preload(&mut rng, &apps);
                case.preload = pre;
                case.shape.push(format!("preload:{}", lab));
                if rng.bool() {
                    case.setup.os_version = "7.7.7".into();
                }
            }
            2 => {
                let u = if rng.bool() { URLS[rng.usize(URLS.len())].to_string() } else { crate::props::c03::gen_url(&mut rng).0 };
                case.shape.push(format!("url:{}", u.chars().take(24).collect::<String>()));
                case.setup.service_url = u;
            }
            3 => {
                case.script.gated.install = true;
                case.script.gated.policy = rng.bool();
                case.shape.push("clock".into());
            }
            4 | 5 => {}
            _ => {}
        }
        if wl == 5 && rng.chance(1, 3) {
            case.script.metrics_fail = true;
            case.shape.push("metrics-fail".into());
        }
        let sched_seed = rng.next_u64();
        let run = if wl == 3 {
            run_with_clock_jumps(&case, &mut rng)
        } else {
            run_case(&case, &mut Rng::new(sched_seed))
        };
        r.eval(case.shape_key(), true);
        r.interleavings.insert(run.sig);
        judge_progress(&mut m, &run, &case, &format!("wl{}", wl));
        if let Some(p) = &run.panicked {
            report_panic(r, args, i, p, &run.w, case_desc(&case));
        }
        // ---- storage-fault differential against this healthy run
        if (wl == 4 || wl == 5) && run.panicked.is_none() {
            let healthy = digest(&run.w);
            let n_ops = lock(&run.w).storage.mut_ops;
            let mut plans: Vec<(FaultPlan, String)> = vec![];
            if wl == 4 {
                // every single mutating operation failing
                for k in 0..n_ops {
                    plans.push((FaultPlan { fail_ops: vec![k], fail_all: false, ..Default::default() }, format!("single@{}", k)));
                }
            } else {
                plans.push((FaultPlan { fail_ops: vec![], fail_all: true, ..Default::default() }, "all".into()));
                for _ in 0..6 {
                    let k = 2 + rng.usize(4);
                    let ops: Vec<u64> = (0..k).map(|_| rng.below(n_ops.max(1))).collect();
                    plans.push((FaultPlan { fail_ops: ops, fail_all: false, ..Default::default() }, format!("subset{}", k)));
                }
                if n_ops >= 2 {
                    for a in 0..n_ops.min(12) {
                        plans.push((FaultPlan { fail_ops: vec![a, a + 1], fail_all: false, ..Default::default() }, "pair".into()));
                    }
                }
            }
            for (fp, flab) in plans {
                let mut c2 = case.clone();
                c2.fault = fp.clone();
                let run2 = run_case(&c2, &mut Rng::new(sched_seed));
                r.evals(1);
                r.count("storage-fault-runs", 1);
                if let Some(p) = &run2.panicked {
                    let mut d = case_desc(&c2);
                    d["fault"] = json!(format!("{:?}", fp));
                    report_panic(r, args, i, p, &run2.w, d);
                    continue;
                }
                judge_progress(&mut m, &run2, &c2, "storage-fault");
                // a refused write is confined to its own entry: every other entry of the protocol book-keeping that
                // does not hold a time (poll interval, failure counter, per-app records) ends up on disk as in the
                // healthy run (judged when no commit was refused and the runs are otherwise alike)
                {
                    let final_store = |w: &W| -> (Option<BTreeMap<String, Val>>, BTreeSet<String>, bool) {
                        let g = lock(w);
                        let mut snap = None;
                        let mut failed = BTreeSet::new();
                        let mut commit_failed = false;
                        for r in g.log.iter() {
                            match &r.ev {
                                Ev::Commit { ok: true, snapshot } => snap = Some(snapshot.clone()),
                                Ev::Commit { ok: false, .. } => commit_failed = true,
                                Ev::StorageSet { key, ok: false, .. } | Ev::StorageRemove { key, ok: false } => {
                                    failed.insert(key.clone());
                                }
                                _ => {}
                            }
                        }
                        (snap, failed, commit_failed)
                    };
                    let (hs, _, _) = final_store(&run.w);
                    let (fs, failed, commit_failed) = final_store(&run2.w);
                    if let (Some(hs), Some(fs), false) = (hs, fs, commit_failed) {
                        let timeless = |k: &str| !["last_update_time", "install_plan_id", "update_first_seen_time", "update_finish_time", "target_version", "consecutive_failed_install_attempts"].contains(&k);
                        let keys: BTreeSet<&String> = hs.keys().chain(fs.keys()).filter(|k| timeless(k) && !failed.contains(*k)).collect();
                        let diff: Vec<&&String> = keys.iter().filter(|k| hs.get(**k) != fs.get(**k)).collect();
                        m.judge("c14-storage-fault-confined-to-its-entry", diff.is_empty(), "", || {
                            format!("fault plan {:?}: writes to {:?} were refused, yet the stored entries {:?} differ from the healthy run's (healthy {:?}, faulty {:?})",
                                fp, failed, diff, diff.iter().map(|k| hs.get(**k)).collect::<Vec<_>>(), diff.iter().map(|k| fs.get(**k)).collect::<Vec<_>>())
                        });
                    }
                }
                let faulty = digest(&run2.w);
                let same = healthy == faulty;
                m.judge("c14-storage-faults-invisible", same, flab.trim_end_matches(char::is_numeric).trim_end_matches('@'), || {
                    let idx = healthy.iter().zip(faulty.iter()).position(|(a, b)| a != b).unwrap_or(healthy.len().min(faulty.len()));
                    format!(
                        "fault plan {:?}: requests / events differ from the healthy run at entry {} (healthy {} entries, faulty {}):\n healthy: {:?}\n faulty:  {:?}",
                        fp,
                        idx,
                        healthy.len(),
                        faulty.len(),
                        healthy.get(idx),
                        faulty.get(idx)
                    )
                });
            }
        }
        if r.want_sample() && i % 300 == wl * 50 {
            r.sample(json!({"case": i, "workload": wl, "shape": case.shape, "end": format!("{:?}", run.end), "steps": run.steps,
                "results": run.flow.checks.iter().map(|c| format!("{:?}", c.result.as_ref().map(|x| x.1.as_ref().map(|_| "Ok").map_err(|e| e.clone())))).collect::<Vec<_>>()}));
        }
        r.count(&format!("workload-{}", wl), 1);
        absorb(r, args, i, m, &run.w, case_desc(&case));
    }
    r.count("log-events-rendered", crate::sim::logsub::EVENTS.load(std::sync::atomic::Ordering::Relaxed));
}

/// Like run_case, but the wall clock jumps around between steps (monotonic clock stays monotone).
fn run_with_clock_jumps(case: &FlowCase, rng: &mut Rng) -> CaseRun {
    const YEAR: i128 = 31_557_600_000_000_000;
    let w = make_world(case);
    let mut d = Driver::new(&w, &case.setup);
    d.max_steps = case.max_steps;
    let end = loop {
        d.settle();
        if d.panicked.is_some() {
            break RunEnd::Panicked;
        }
        if d.ended {
            break RunEnd::Ended;
        }
        if d.out_of_steps {
            break RunEnd::OutOfSteps;
        }
        if d.count_state(&StateSnap::Idle) >= case.stop_idle {
            break RunEnd::Stopped;
        }
        if rng.chance(1, 3) {
            let mut g = lock(&w);
            g.wall_ns = match rng.below(7) {
                0 => g.wall_ns - 50 * YEAR,
                1 => g.wall_ns + 300_000 * YEAR,
                2 => 0,
                3 => -1,
                4 => -5 * YEAR,
                5 => 1_700_000_000_000_000_000,
                _ => g.wall_ns + 1,
            };
            // keep within what SystemTime can hold comfortably
            g.wall_ns = g.wall_ns.clamp(-1_000_000 * YEAR, 1_000_000 * YEAR);
            let (wall, mono) = (g.wall_ns, g.mono_ns);
            g.push(Ev::Clock { wall, mono });
        }
        let gates = d.pending_gates();
        if gates.is_empty() {
            break RunEnd::Blocked;
        }
        let g = gates[rng.usize(gates.len())];
        d.release(g);
    };
    finish_run(case, w, d, end)
}
