//! C07 — Server-dictated poll interval (X-Retry-After) is honoured.

use crate::common::{Args, Report, Rng};
use crate::props::gen::*;
use crate::props::monitors::*;
use crate::sim::driver::Sched;
use crate::sim::world::*;
use serde_json::json;

pub fn run(args: &Args, r: &mut Report) {
    r.rule_text = "Histories of 1..4 checks (all ten check paths, start() and one-shot mode, CUP on/off, reboot waits with pings) in which \
        scripted replies to update checks (any status), event reports and pings carry X-Retry-After values drawn from a 30-entry \
        grammar (digit strings around 86400 / 2^32 / 2^63 / 2^64 / 40 digits, leading zeros, empty, spaces, signs, suffixes, \
        non-ASCII bytes, full-width digits, '+N', duplicate headers); after the history the process is killed and restarted on \
        the surviving storage.  Oracle: digits-only value fitting u64 -> min(N, 86400) s, anything else -> absent ('+N' and \
        conflicting duplicates are don't-cares); exchanges without an authenticated response leave the interval unchanged.  \
        A sixth of the cases run on a store that rejects every write of one unrelated entry (last contact, failure counter or an app record).  Shape key = mode, CUP, paths, header-placement vector, failing entry.  Non-trivial = at least one header present."
        .into();
    r.require(&[
        "c07-poll-policy-next",
        "c07-poll-policy-allowed",
        "c07-poll-announced",
        "c07-change-announced-and-committed-first",
        "c07-committed-at-quiescence",
    ]);
    r.assume("'+N' values and duplicate headers with different values are don't-cares (either verdict accepted until the next definite response)");
    let n = args.budget(24_000, 300_000);
    for i in 0..n {
        if args.skip(i) {
            continue;
        }
        let mut rng = Rng::derive(args.seed, args.shard, 7, i);
        let start_mode = !rng.chance(1, 4);
        let len = if start_mode { 1 + rng.usize(4) } else { 1 };
        let cfg = HistCfg {
            start_mode,
            cup: rng.bool(),
            n_apps: 1 + rng.usize(2),
            paths: (0..len).map(|_| *rng.pick(&ALL_PATHS)).collect(),
            cohorts: false,
            deliveries: rng.bool(),
            random_params: false,
            throttles: rng.chance(1, 4),
        };
        let mut case = gen_history(&mut rng, &cfg);
        let apps = case.setup.apps.clone();
        let l1 = add_reboot_waits(&mut case.script, &mut rng, false, &apps);
        let l2 = decorate_retry_after(&mut case.script, &mut rng, 1, 2);
        if rng.chance(1, 4) {
            case.preload.insert("server_dictated_poll_interval".into(), Val::I(*rng.pick(&[0i64, 60_000_000, -5, 86_400_000_000])));
            case.shape.push("preloaded".into());
        }
        case.sched = Sched::Random;
        case.shape.push(l1);
        case.shape.push(l2.clone());
        case.nontrivial = l2.contains('h');
        // in a third of the cases the process dies at a random boundary interaction instead of at the end
        if rng.chance(1, 3) {
            case.crash_at = Some(rng.below(160));
            case.shape.push("crash".into());
        }
        // a backend that cannot write one *other* entry must not keep the interval from being stored
        if rng.chance(1, 6) {
            let k = match rng.below(3) {
                0 => "last_update_time".to_string(),
                1 => "consecutive_failed_update_checks".to_string(),
                _ => case.setup.apps[0].id.clone(),
            };
            case.shape.push(format!("failkey:{}", if k.starts_with('{') { "app" } else { &k }));
            case.fault.fail_keys.push(k);
        }
        // the device may stay down for a while (longer than the dictated interval, too)
        if rng.chance(1, 3) {
            case.restart_gap_ns = *rng.pick(&[60i128, 3_600, 7_200, 86_400, 200_000, -3_600, -100_000]) * 1_000_000_000;
            case.shape.push("downtime".into());
        }
        // a store one of whose commits fails: the interval is still handed to the policy and announced exactly as
        // the responses dictate (only what the store holds is not judged then)
        let commit_fault = case.fault.fail_keys.is_empty() && case.crash_at.is_none() && rng.chance(1, 8);
        if commit_fault {
            case.fault.fail_commit_nth = vec![rng.below(10), rng.below(20)];
            case.shape.push("commit-fault".into());
        }
        let next = case.setup.clone();
        let mut run = run_case_restart(&case, &[next], &mut rng, 0);
        run.flow.skip_all_commit_judgement = commit_fault;
        r.eval(case.shape_key(), case.nontrivial);
        r.interleavings.insert(run.sig);
        let mut m = Mon::default();
        mon_state(&run.flow, &case.setup, Proj::Poll, &mut m);
        if !commit_fault {
            let g = lock(&run.w);
            mon_c07_order(&g.log, &run.flow, &mut m);
        }
        if let Some(p) = &run.panicked {
            report_panic(r, args, i, p, &run.w, case_desc(&case));
        }
        r.count("pings-observed", run.flow.pings.len() as u64);
        r.count("restarts", run.flow.restarts.len() as u64);
        if r.want_sample() && case.nontrivial && i % 50 == 3 {
            r.sample(json!({
                "case": i, "shape": case.shape,
                "poll_shown_to_policy": run.flow.nexts.iter().map(|n| json!({"seq": n.seq, "shown_ns": n.proto.poll_ns.map(|x| x.to_string()), "model_ns": n.model.poll_ns.map(|x| x.to_string())})).collect::<Vec<_>>(),
            }));
        }
        absorb(r, args, i, m, &run.w, case_desc(&case));
    }
}
