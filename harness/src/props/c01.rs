//! C01 — "CUP verification accepts exactly the authentic responses".
//!
//! Oracle (i), in-harness, by construction: every exchange is built here (keys from the PRNG, digest
//! composed with `sha2` directly, signed with `p256` on the harness side, DER encoded by hand); every
//! mutant carries its expected verdict.  Oracle (ii), offline: every verifier call is appended to
//! `<out>.calls.jsonl` and re-decided by lib/post_c01.py with a pure-Python P-256 reference.

use crate::common::{guard, hex, shape_of, Args, Report, Rng};
use omaha_client::cup_ecdsa::{
    Cupv2RequestHandler, Cupv2Verifier, Nonce, PublicKeyAndId, PublicKeys, RequestMetadata,
    StandardCupv2Handler,
};
use p256::ecdsa::signature::{Signature as _, Signer as _};
use p256::ecdsa::{DerSignature, SigningKey, VerifyingKey};
use serde_json::{json, Value};
use sha2::{Digest, Sha256};
use std::io::Write;

/// Order of the P-256 group, big endian.
const N_BE: [u8; 32] = [
    0xff, 0xff, 0xff, 0xff, 0x00, 0x00, 0x00, 0x00, 0xff, 0xff, 0xff, 0xff, 0xff, 0xff, 0xff, 0xff,
    0xbc, 0xe6, 0xfa, 0xad, 0xa7, 0x17, 0x9e, 0x84, 0xf3, 0xb9, 0xca, 0xc2, 0xfc, 0x63, 0x25, 0x51,
];

const R_AUTH: &str = "authentic-accepted";
const R_RET: &str = "returned-signature-unchanged";
const R_ENC: &str = "encoding-variants-accepted";
const R_MUT: &str = "mutant-rejected";
const R_FLIP: &str = "bitflip-rejected";
const R_GRAM: &str = "etag-grammar-no-panic";
const R_WS: &str = "with-signature-api";
const R_PEM: &str = "pem-roundtrip";

fn sha(b: &[u8]) -> [u8; 32] {
    Sha256::digest(b).into()
}
fn compose(parts: &[&[u8]]) -> [u8; 32] {
    let mut h = Sha256::new();
    for p in parts {
        h.update(p);
    }
    h.finalize().into()
}
fn sub_be(a: &[u8; 32], b: &[u8; 32]) -> [u8; 32] {
    let mut out = [0u8; 32];
    let mut borrow = 0i32;
    for i in (0..32).rev() {
        let mut d = a[i] as i32 - b[i] as i32 - borrow;
        if d < 0 {
            d += 256;
            borrow = 1;
        } else {
            borrow = 0;
        }
        out[i] = d as u8;
    }
    out
}
fn is_zero(a: &[u8]) -> bool {
    a.iter().all(|x| *x == 0)
}
/// Decimal rendering of a big-endian unsigned integer.
fn dec_be(b: &[u8]) -> String {
    let mut v = b.to_vec();
    let mut digits = vec![];
    while !is_zero(&v) {
        let mut rem = 0u32;
        for x in v.iter_mut() {
            let cur = rem * 256 + *x as u32;
            *x = (cur / 10) as u8;
            rem = cur % 10;
        }
        digits.push(b'0' + rem as u8);
    }
    if digits.is_empty() {
        digits.push(b'0');
    }
    digits.reverse();
    String::from_utf8(digits).unwrap()
}

// ------------------------------------------------------------------------------------------------
// hand-written DER
fn der_len(n: usize) -> Vec<u8> {
    if n < 0x80 {
        vec![n as u8]
    } else if n < 0x100 {
        vec![0x81, n as u8]
    } else {
        vec![0x82, (n >> 8) as u8, n as u8]
    }
}
fn der_uint_content(v: &[u8]) -> Vec<u8> {
    let mut i = 0;
    while i + 1 < v.len() && v[i] == 0 {
        i += 1;
    }
    let mut c = vec![];
    if v.is_empty() {
        c.push(0);
    } else {
        if v[i] & 0x80 != 0 {
            c.push(0);
        }
        c.extend_from_slice(&v[i..]);
    }
    c
}
fn tlv(tag: u8, content: &[u8]) -> Vec<u8> {
    let mut o = vec![tag];
    o.extend(der_len(content.len()));
    o.extend_from_slice(content);
    o
}
fn der_sig(r: &[u8], s: &[u8]) -> Vec<u8> {
    let mut body = tlv(2, &der_uint_content(r));
    body.extend(tlv(2, &der_uint_content(s)));
    tlv(0x30, &body)
}
/// Labels for every byte of a strict DER ECDSA signature (for bit-flip shapes).
fn der_regions(d: &[u8]) -> Vec<&'static str> {
    let mut v = vec!["?"; d.len()];
    if d.len() < 8 {
        return v;
    }
    v[0] = "seq-tag";
    v[1] = "seq-len";
    v[2] = "r-tag";
    v[3] = "r-len";
    let rl = d[3] as usize;
    for (k, slot) in v.iter_mut().enumerate().skip(4).take(rl) {
        *slot = if k == 4 && rl == 33 { "r-pad" } else { "r-val" };
    }
    let st = 4 + rl;
    if st + 2 <= d.len() {
        v[st] = "s-tag";
        v[st + 1] = "s-len";
        let sl = d[st + 1] as usize;
        for (k, slot) in v.iter_mut().enumerate().skip(st + 2) {
            *slot = if k == st + 2 && sl == 33 { "s-pad" } else { "s-val" };
        }
    }
    v
}

// ------------------------------------------------------------------------------------------------
fn size_class(n: usize) -> &'static str {
    match n {
        0 => "0",
        1..=16 => "1-16",
        17..=64 => "17-64",
        65..=256 => "65-256",
        257..=1024 => "257-1024",
        _ => "1025-4096",
    }
}
fn id_class(id: u64) -> &'static str {
    match id {
        0 => "0",
        1 => "1",
        u64::MAX => "max",
        x if x == 1 << 63 => "2^63",
        x if x == (1 << 63) - 1 => "2^63-1",
        x if x == 1 << 53 => "2^53",
        x if x == (1 << 53) + 1 => "2^53+1",
        x if x < 1 << 32 => "lt2^32",
        x if x < 1 << 53 => "lt2^53",
        x if x < 1 << 63 => "lt2^63",
        _ => "ge2^63",
    }
}

fn gen_sk(rng: &mut Rng) -> SigningKey {
    loop {
        let b = rng.bytes(32);
        if let Ok(k) = SigningKey::from_bytes(&b) {
            return k;
        }
    }
}

fn gen_body(rng: &mut Rng, response: bool, small_only: bool) -> (Vec<u8>, &'static str) {
    if small_only {
        let n = 1 + rng.usize(64);
        return (rng.bytes(n), "bin");
    }
    let style = rng.below(10);
    if style < 3 {
        // realistic Omaha JSON
        let appid = format!("{{{:08x}-aaaa-bbbb-cccc-{:012x}}}", rng.next_u32(), rng.below(1 << 48));
        let ver = format!("{}.{}.{}.{}", rng.below(100), rng.below(1000), rng.below(10), rng.below(65536));
        let napps = 1 + rng.usize(3);
        let s = if response {
            let apps: Vec<Value> = (0..napps)
                .map(|i| json!({"appid": format!("{appid}{i}"), "status": "ok", "cohort": "1:1:", "cohortname": "stable",
                    "updatecheck": {"status": if rng.bool() {"noupdate"} else {"ok"},
                        "urls": {"url": [{"codebase": "http://url/base/"}]},
                        "manifest": {"version": ver, "packages": {"package": [{"name": "update.bin", "required": true, "fp": hex(&rng.bytes(16))}]}}}}))
                .collect();
            format!(")]}}'\n{}", json!({"response": {"server": "prod", "protocol": "3.0", "daystart": {"elapsed_seconds": rng.below(86400), "elapsed_days": rng.below(9000)}, "app": apps}}))
        } else {
            let apps: Vec<Value> = (0..napps)
                .map(|i| json!({"appid": format!("{appid}{i}"), "version": ver, "fp": hex(&rng.bytes(8)), "cohort": "1:1:", "updatecheck": {}, "ping": {"r": rng.below(30)}}))
                .collect();
            json!({"request": {"protocol": "3.0", "updater": "Fuchsia", "updaterversion": "0.1.2.3", "installsource": "scheduler", "ismachine": true,
                "requestid": format!("{{{}}}", hex(&rng.bytes(16))), "sessionid": format!("{{{}}}", hex(&rng.bytes(16))),
                "os": {"platform": "Fuchsia", "version": ver, "sp": "", "arch": "aarch64"}, "app": apps}})
            .to_string()
        };
        let mut b = s.into_bytes();
        b.truncate(4096);
        return (b, "json");
    }
    let n = match rng.below(20) {
        0..=1 => 0,
        2..=7 => 1 + rng.usize(16),
        8..=12 => 17 + rng.usize(48),
        13..=16 => 65 + rng.usize(192),
        17..=18 => 257 + rng.usize(768),
        _ => 1025 + rng.usize(3072),
    };
    match style {
        3..=5 => (rng.bytes(n), "bin"),
        6 => (vec![0xff; n], "ff"),
        7 => (vec![0x00; n], "nul"),
        _ => ((0..n).map(|_| b' ' + rng.below(95) as u8).collect(), "text"),
    }
}

// ------------------------------------------------------------------------------------------------
struct KeySet {
    tag: String,
    ids: Vec<u64>,
    sks: Vec<SigningKey>,
    handler: StandardCupv2Handler,
    pem_json: String,
    keys_json: Value,
    foreign: Option<SigningKey>,
    logged: bool,
}
impl KeySet {
    fn nhist(&self) -> usize {
        self.ids.len() - 1
    }
}

#[derive(Clone, Copy, PartialEq)]
enum Rule {
    Authentic,
    Encoding,
    Mutant,
    Bitflip,
    Grammar,
}

#[derive(Clone)]
struct Call {
    rule: Rule,
    kind: String,
    enc: &'static str,
    req: Vec<u8>,
    resp: Vec<u8>,
    key_id: u64,
    nonce: [u8; 32],
    etag: Option<Vec<u8>>,
    /// Some(sig) = must be accepted and return exactly `sig`; None = must be rejected.
    expect_ok: Option<Vec<u8>>,
    log: bool,
    /// extra shape component (bit-flip region, grammar skeleton, ...)
    extra: String,
    /// how many times the (identical) ETag header is present in the response (an intermediary may repeat it)
    etag_repeat: u8,
}

struct Cx<'a> {
    args: &'a Args,
    r: &'a mut Report,
    log: Option<std::io::BufWriter<std::fs::File>>,
    ncase: u64,
    nks: u64,
    flip_ctr: u64,
    sampled: [bool; 5],
}

impl<'a> Cx<'a> {
    fn new(args: &'a Args, r: &'a mut Report) -> Self {
        let log = match (&args.out, args.layer.as_str(), &args.replay) {
            (Some(p), "plain", None) => std::fs::File::create(format!("{p}.calls.jsonl"))
                .ok()
                .map(std::io::BufWriter::new),
            _ => None,
        };
        Cx { args, r, log, ncase: 0, nks: 0, flip_ctr: 0, sampled: [false; 5] }
    }
    fn case_id(&mut self) -> String {
        self.ncase += 1;
        format!("s{}-{}", self.args.shard, self.ncase)
    }
    fn write_line(&mut self, v: &Value) {
        if let Some(w) = self.log.as_mut() {
            let _ = serde_json::to_writer(&mut *w, v);
            let _ = w.write_all(b"\n");
        }
    }
    fn log_keyset(&mut self, ks: &mut KeySet) {
        if ks.logged || self.log.is_none() {
            return;
        }
        ks.logged = true;
        // "keyset_def" must be the first key of the line (post_c01.py sniffs the prefix)
        let line = format!(
            "{{\"keyset_def\":{},\"keys\":{},\"keys_pem_json\":{}}}\n",
            json!(ks.tag),
            ks.keys_json,
            json!(ks.pem_json)
        );
        if let Some(w) = self.log.as_mut() {
            let _ = w.write_all(line.as_bytes());
        }
    }
    fn finish(&mut self) {
        if let Some(w) = self.log.as_mut() {
            let _ = w.flush();
        }
    }
}

fn keys_json_of(ids: &[u64], vks: &[VerifyingKey]) -> Value {
    Value::Array(
        ids.iter()
            .zip(vks)
            .map(|(id, vk)| {
                let p = vk.to_encoded_point(false);
                json!({"id": id.to_string(), "x": hex(p.x().map(|x| x.as_slice()).unwrap_or(&[])), "y": hex(p.y().map(|y| y.as_slice()).unwrap_or(&[]))})
            })
            .collect(),
    )
}

/// Build the handler from (ids, keys) THROUGH the JSON/PEM round trip; judges `pem-roundtrip`.
fn build_keyset(cx: &mut Cx, ids: Vec<u64>, vks: Vec<VerifyingKey>, sks: Vec<SigningKey>, foreign: Option<SigningKey>) -> Option<KeySet> {
    cx.nks += 1;
    let tag = format!("s{}-k{}", cx.args.shard, cx.nks);
    let mk = |i: usize| PublicKeyAndId { key: vks[i], id: ids[i] };
    let keys = PublicKeys { latest: mk(0), historical: (1..ids.len()).map(mk).collect() };
    let keys_json = keys_json_of(&ids, &vks);
    let idc: Vec<&str> = ids.iter().map(|i| id_class(*i)).collect();
    let shape = shape_of(&[R_PEM, &ids.len().to_string(), &idc.join(",")]);
    cx.r.eval(shape, true);
    cx.r.hit(R_PEM);
    let replay = json!({"api": "pem_roundtrip", "keys": keys_json});
    let text = match guard(|| serde_json::to_string(&keys)) {
        Err(p) => {
            cx.r.violation(R_PEM, &format!("panic@{}", p.site()), format!("serialising PublicKeys panicked: {}", p.msg), replay);
            return None;
        }
        Ok(Err(e)) => {
            cx.r.violation(R_PEM, "pem-roundtrip serialise-error", format!("{e}"), replay);
            return None;
        }
        Ok(Ok(t)) => t,
    };
    let back: PublicKeys = match guard(|| serde_json::from_str::<PublicKeys>(&text)) {
        Err(p) => {
            cx.r.violation(R_PEM, &format!("panic@{}", p.site()), format!("deserialising PublicKeys panicked: {} on {text}", p.msg), replay);
            return None;
        }
        Ok(Err(e)) => {
            cx.r.violation(R_PEM, "pem-roundtrip deserialise-error", format!("{e} on {text}"), replay);
            return None;
        }
        Ok(Ok(b)) => b,
    };
    // independent comparison: ids and affine coordinates, in order
    let mut got_ids = vec![back.latest.id];
    let mut got_vks = vec![back.latest.key];
    for h in &back.historical {
        got_ids.push(h.id);
        got_vks.push(h.key);
    }
    let same = got_ids == ids && keys_json_of(&got_ids, &got_vks) == keys_json && back == keys;
    let again = serde_json::to_string(&back).unwrap_or_default();
    if !same || again != text {
        cx.r.violation(R_PEM, "pem-roundtrip not-identity", format!("serialised {text}; read back ids {got_ids:?} keys {}; re-serialised {again}", keys_json_of(&got_ids, &got_vks)), replay.clone());
    }
    // textual sanity of the JSON: ids are exact numbers, keys are PEM SubjectPublicKeyInfo blocks
    if let Ok(v) = serde_json::from_str::<Value>(&text) {
        let mut list = vec![v["latest"].clone()];
        list.extend(v["historical"].as_array().cloned().unwrap_or_default());
        let ok = list.len() == ids.len()
            && list.iter().zip(&ids).all(|(e, id)| {
                e["id"].as_u64() == Some(*id)
                    && e["key"].as_str().map_or(false, |k| k.starts_with("-----BEGIN PUBLIC KEY-----\n") && k.trim_end().ends_with("-----END PUBLIC KEY-----"))
            });
        if !ok {
            cx.r.violation(R_PEM, "pem-roundtrip json-form", format!("unexpected JSON form {text}"), replay);
        }
    }
    let handler = StandardCupv2Handler::new(&back);
    Some(KeySet { tag, ids, sks, handler, pem_json: text, keys_json, foreign, logged: false })
}

fn gen_keyset(cx: &mut Cx, rng: &mut Rng, nhist: usize, dup_key: bool) -> Option<KeySet> {
    const SPECIAL: [u64; 10] = [0, 1, u64::MAX, u64::MAX - 1, 1 << 63, (1 << 63) - 1, 1 << 53, (1 << 53) + 1, 1 << 32, 123456789];
    let mut ids: Vec<u64> = vec![];
    while ids.len() < nhist + 1 {
        let id = match rng.below(4) {
            0 | 1 => *rng.pick(&SPECIAL),
            2 => rng.next_u64(),
            _ => rng.next_u64() >> (1 + rng.below(50)),
        };
        if !ids.contains(&id) {
            ids.push(id);
        }
    }
    let mut sks: Vec<SigningKey> = (0..ids.len()).map(|_| gen_sk(rng)).collect();
    if dup_key && sks.len() >= 2 {
        // the same key registered under two ids: the id is still bound by the signed digest
        sks[1] = sks[0].clone();
    }
    let vks: Vec<VerifyingKey> = sks.iter().map(VerifyingKey::from).collect();
    let foreign = gen_sk(rng);
    build_keyset(cx, ids, vks, sks, Some(foreign))
}

fn record(ks: &KeySet, case: &str, c: &Call, inline_keys: bool) -> Value {
    let mut v = json!({
        "api": "verify_response",
        "case": case,
        "kind": c.kind,
        "encoding": c.enc,
        "req_body_hex": hex(&c.req),
        "resp_body_hex": hex(&c.resp),
        "key_id": c.key_id.to_string(),
        "nonce_hex": hex(&c.nonce),
        "etag_hex": c.etag.as_ref().map(|e| hex(e)),
        "etag_count": if c.etag.is_some() { c.etag_repeat as u64 } else { 0 },
        "expected": if c.expect_ok.is_some() { "ok" } else { "err" },
        "expected_sig_hex": c.expect_ok.as_ref().map(|s| hex(s)),
    });
    let m = v.as_object_mut().unwrap();
    if inline_keys {
        m.insert("keys".into(), ks.keys_json.clone());
        m.insert("keys_pem_json".into(), json!(ks.pem_json));
    } else {
        m.insert("keyset".into(), json!(ks.tag));
    }
    v
}

fn call_library(h: &StandardCupv2Handler, req: &[u8], resp: &[u8], key_id: u64, nonce: [u8; 32], etag: Option<&[u8]>, repeat: u8) -> Result<Result<Result<Vec<u8>, String>, crate::common::PanicInfo>, String> {
    let mut b = http::Response::builder().status(200);
    if let Some(e) = etag {
        for _ in 0..repeat.max(1) {
            let hv = http::HeaderValue::from_bytes(e).map_err(|_| "harness generated bytes that no HeaderValue can hold".to_string())?;
            b = b.header(http::header::ETAG, hv);
        }
    }
    let response = b.body(resp.to_vec()).map_err(|e| format!("harness could not build response: {e}"))?;
    let md = RequestMetadata { request_body: req.to_vec(), public_key_id: key_id, nonce: Nonce::from(nonce) };
    Ok(guard(|| h.verify_response(&md, &response, key_id).map(|s| s.as_bytes().to_vec()).map_err(|e| format!("{e:?}"))))
}

/// One verifier call judged by oracle (i) and logged for oracle (ii).
fn judge(cx: &mut Cx, ks: &mut KeySet, exshape: &str, c: &Call) {
    let case = cx.case_id();
    let outcome = match call_library(&ks.handler, &c.req, &c.resp, c.key_id, c.nonce, c.etag.as_deref(), c.etag_repeat) {
        Ok(o) => o,
        Err(why) => {
            cx.r.count("harness_skipped_unbuildable_header", 1);
            if cx.r.notes.len() < 5 {
                cx.r.notes.push(format!("{why}: kind {}", c.kind));
            }
            return;
        }
    };
    let (rule, sigbase) = match c.rule {
        Rule::Authentic => (R_AUTH, format!("{R_AUTH} enc={}", c.enc)),
        Rule::Encoding => (R_ENC, format!("{R_ENC} {}", c.kind)),
        Rule::Mutant => (R_MUT, format!("{R_MUT} {}", c.kind)),
        Rule::Bitflip => (R_FLIP, format!("{R_FLIP} {}", c.kind)),
        Rule::Grammar => (R_GRAM, format!("{R_GRAM} accepted")),
    };
    let nontrivial = !(c.rule == Rule::Authentic && c.enc == "plain" && ks.nhist() == 0);
    cx.r.eval(shape_of(&[rule, &c.kind, c.enc, exshape, &c.extra]), nontrivial);
    cx.r.hit(rule);
    let full = || record(ks, &case, c, true);
    let mut observed = "panic";
    let mut returned: Option<Vec<u8>> = None;
    match &outcome {
        Err(p) => {
            cx.r.violation(rule, &format!("panic@{}", p.site()), format!("verify_response panicked at {}: {} (kind {})", p.loc, p.msg, c.kind), full());
        }
        Ok(Ok(sig)) => {
            observed = "ok";
            returned = Some(sig.clone());
            match &c.expect_ok {
                None => cx.r.violation(rule, &sigbase, format!("accepted a response that is not authentic: kind={} enc={}", c.kind, c.enc), full()),
                Some(want) => {
                    cx.r.hit(R_RET);
                    if sig != want {
                        cx.r.violation(R_RET, &format!("{R_RET} {}", c.kind), format!("returned {} but the ETag carried {}", hex(sig), hex(want)), full());
                    }
                }
            }
        }
        Ok(Err(e)) => {
            observed = "err";
            if c.expect_ok.is_some() {
                cx.r.violation(rule, &sigbase, format!("rejected an authentic response (kind={} enc={}): {e}", c.kind, c.enc), full());
            }
        }
    }
    let slot = c.rule as usize;
    if !cx.sampled[slot] && cx.r.want_sample() && (c.rule != Rule::Grammar || cx.ncase > 50) {
        cx.sampled[slot] = true;
        let mut s = record(ks, &case, c, false);
        s["observed"] = json!(observed);
        s["returned_sig_hex"] = json!(returned.as_ref().map(|x| hex(x)));
        s["keys"] = ks.keys_json.clone();
        cx.r.sample(s);
    }
    if c.log && cx.log.is_some() && observed != "panic" {
        cx.log_keyset(ks);
        let mut v = record(ks, &case, c, false);
        v["observed"] = json!(observed);
        v["returned_sig_hex"] = json!(returned.as_ref().map(|x| hex(x)));
        cx.write_line(&v);
        cx.r.count("calls_logged_for_python_reference", 1);
    }
}

/// `verify_response_with_signature` called directly.
#[allow(clippy::too_many_arguments)]
fn judge_ws(cx: &mut Cx, ks: &mut KeySet, exshape: &str, kind: &str, der: &[u8], req: &[u8], resp: &[u8], key_id: u64, nonce: [u8; 32], expect_ok: bool) {
    let case = cx.case_id();
    let rec = |ks: &KeySet, inline: bool| {
        let mut v = json!({"api": "with_signature", "case": case, "kind": kind, "sig_hex": hex(der), "req_body_hex": hex(req), "resp_body_hex": hex(resp),
            "key_id": key_id.to_string(), "nonce_hex": hex(&nonce), "expected": if expect_ok {"ok"} else {"err"}});
        if inline {
            v["keys"] = ks.keys_json.clone();
            v["keys_pem_json"] = json!(ks.pem_json);
        } else {
            v["keyset"] = json!(ks.tag);
        }
        v
    };
    let sig = match DerSignature::from_bytes(der) {
        Ok(s) => s,
        Err(_) => {
            cx.r.count("harness_ws_unparseable_der", 1);
            return;
        }
    };
    cx.r.eval(shape_of(&[R_WS, kind, exshape]), true);
    cx.r.hit(R_WS);
    let n = Nonce::from(nonce);
    let out = guard(|| ks.handler.verify_response_with_signature(&sig, req, resp, key_id, &n).map_err(|e| format!("{e:?}")));
    let observed = match &out {
        Err(p) => {
            cx.r.violation(R_WS, &format!("panic@{}", p.site()), format!("verify_response_with_signature panicked at {}: {}", p.loc, p.msg), rec(ks, true));
            return;
        }
        Ok(Ok(())) => true,
        Ok(Err(_)) => false,
    };
    if observed != expect_ok {
        let o = |b: bool| if b { "ok" } else { "err" };
        cx.r.violation(R_WS, &format!("{R_WS} {kind} observed={} expected={}", o(observed), o(expect_ok)), format!("verify_response_with_signature kind={kind}: {out:?}"), rec(ks, true));
    }
    if cx.log.is_some() {
        cx.log_keyset(ks);
        let mut v = rec(ks, false);
        v["observed"] = json!(if observed { "ok" } else { "err" });
        v["returned_sig_hex"] = Value::Null;
        cx.write_line(&v);
        cx.r.count("calls_logged_for_python_reference", 1);
    }
}

// ------------------------------------------------------------------------------------------------
// exchanges
struct Exchange {
    signer: usize,
    id: u64,
    req: Vec<u8>,
    resp: Vec<u8>,
    nonce: [u8; 32],
    r: [u8; 32],
    s: [u8; 32],
    der: Vec<u8>,
    exshape: String,
}

fn param(id: u64, nonce: &[u8; 32]) -> String {
    format!("{}:{}", id, hex(nonce))
}
fn authentic_digest(req: &[u8], resp: &[u8], id: u64, nonce: &[u8; 32]) -> [u8; 32] {
    compose(&[&sha(req), &sha(resp), param(id, nonce).as_bytes()])
}
/// Sign `msg` (ECDSA/SHA-256 over the message) and encode strictly with the hand-written encoder.
fn sign_der(cx: &mut Cx, sk: &SigningKey, msg: &[u8]) -> ([u8; 32], [u8; 32], Vec<u8>) {
    let sig: p256::ecdsa::Signature = sk.sign(msg);
    let raw: &[u8] = sig.as_ref();
    let mut r = [0u8; 32];
    let mut s = [0u8; 32];
    r.copy_from_slice(&raw[..32]);
    s.copy_from_slice(&raw[32..64]);
    let der = der_sig(&r, &s);
    if der.as_slice() != sig.to_der().as_bytes() {
        cx.r.inconclusive.push("harness DER encoder disagrees with the signing crate's encoder".into());
    }
    (r, s, der)
}

fn gen_exchange(cx: &mut Cx, rng: &mut Rng, ks: &KeySet, small: bool) -> Exchange {
    let signer = if ks.ids.len() == 1 || rng.bool() { 0 } else { 1 + rng.usize(ks.ids.len() - 1) };
    let id = ks.ids[signer];
    let (req, rq) = gen_body(rng, false, small);
    let (resp, rs) = gen_body(rng, true, small);
    let mut nonce = [0u8; 32];
    match rng.below(12) {
        0 => {}
        1 => nonce = [0xff; 32],
        _ => nonce.copy_from_slice(&rng.bytes(32)),
    }
    let d = authentic_digest(&req, &resp, id, &nonce);
    let (r, s, der) = sign_der(cx, &ks.sks[signer], &d);
    let sp = if signer == 0 { "latest".to_string() } else { format!("hist{signer}") };
    let exshape = format!("h{} {} {}:{} {}:{}", ks.nhist(), sp, rq, size_class(req.len()), rs, size_class(resp.len()));
    Exchange { signer, id, req, resp, nonce, r, s, der, exshape }
}

fn wrap(enc: &str, inner: &str) -> Vec<u8> {
    match enc {
        "quoted" => format!("\"{inner}\""),
        "weak" => format!("W/\"{inner}\""),
        _ => inner.to_string(),
    }
    .into_bytes()
}
fn flip(v: &[u8], bit: usize) -> Vec<u8> {
    let mut o = v.to_vec();
    o[bit / 8] ^= 1 << (bit % 8);
    o
}
fn mixed_case(s: &str, rng: &mut Rng) -> String {
    // at least one upper and one lower hex letter whenever the string has two letters
    let mut n = 0;
    s.chars()
        .map(|c| {
            if c.is_ascii_alphabetic() {
                n += 1;
                if n % 2 == 1 || rng.bool() { c.to_ascii_uppercase() } else { c }
            } else {
                c
            }
        })
        .collect()
}

const ENCS: [&str; 3] = ["plain", "quoted", "weak"];

fn base_call(e: &Exchange, enc: &'static str) -> Call {
    let inner = format!("{}:{}", hex(&e.der), hex(&sha(&e.req)));
    Call { rule: Rule::Mutant, kind: String::new(), enc, req: e.req.clone(), resp: e.resp.clone(), key_id: e.id, nonce: e.nonce, etag: Some(wrap(enc, &inner)), expect_ok: None, log: true, extra: String::new(), etag_repeat: 1 }
}

/// All judged calls for one authentic exchange `e` (partner `p` = another exchange of the same key set).
fn exchange_calls(cx: &mut Cx, rng: &mut Rng, ks: &KeySet, e: &Exchange, p: &Exchange, enc: &'static str) -> Vec<Call> {
    let mut out: Vec<Call> = vec![];
    let sh = hex(&e.der);
    let hh = hex(&sha(&e.req));
    let twin_s = sub_be(&N_BE, &e.s);
    let twin = der_sig(&e.r, &twin_s);
    let high = if e.s > twin_s { "as-signed-high-s" } else { "as-signed-low-s" };

    // authentic, three encodings
    for en in ENCS {
        let mut c = base_call(e, en);
        c.rule = Rule::Authentic;
        c.kind = "authentic".into();
        c.extra = high.into();
        c.expect_ok = Some(e.der.clone());
        out.push(c.clone());
        // the same authentic header present two or three times (identical values): still the authentic response
        if rng.chance(1, 4) {
            c.kind = "authentic-etag-repeated".into();
            c.etag_repeat = 2 + (rng.below(2) as u8);
            out.push(c);
        }
    }
    // accepted encoding variants, three encodings each
    let mixed_s = mixed_case(&sh, rng);
    let mixed_h = mixed_case(&hh, rng);
    let variants: Vec<(&str, String, String, Vec<u8>)> = vec![
        ("hash-upper-hex", sh.clone(), hh.to_uppercase(), e.der.clone()),
        ("signature-upper-hex", sh.to_uppercase(), hh.clone(), e.der.clone()),
        ("both-upper-hex", sh.to_uppercase(), hh.to_uppercase(), e.der.clone()),
        ("mixed-case-hex", mixed_s, mixed_h, e.der.clone()),
        ("s-twin", hex(&twin), hh.clone(), twin.clone()),
        ("s-twin-upper-hex", hex(&twin).to_uppercase(), hh.to_uppercase(), twin.clone()),
    ];
    for (kind, s_half, h_half, want) in &variants {
        for en in ENCS {
            let mut c = base_call(e, en);
            c.rule = Rule::Encoding;
            c.kind = kind.to_string();
            c.etag = Some(wrap(en, &format!("{s_half}:{h_half}")));
            c.expect_ok = Some(want.clone());
            out.push(c);
        }
    }

    macro_rules! m {
        ($kind:expr, |$c:ident| $body:block) => {{
            let mut $c = base_call(e, enc);
            $c.kind = $kind.to_string();
            $body
            out.push($c);
        }};
    }
    macro_rules! etag {
        ($kind:expr, $inner:expr) => {{
            let v: String = $inner;
            m!($kind, |c| { c.etag = Some(wrap(enc, &v)); })
        }};
    }
    macro_rules! raw {
        ($kind:expr, $bytes:expr) => {{
            let v: Vec<u8> = $bytes;
            m!($kind, |c| { c.etag = Some(v); })
        }};
    }

    // ---- swaps with the partner exchange ----
    if p.req != e.req {
        m!("swap-request-body", |c| { c.req = p.req.clone(); });
        etag!("swap-hash-half", format!("{sh}:{}", hex(&sha(&p.req))));
        m!("swap-request-body+hash-half", |c| { c.req = p.req.clone(); c.etag = Some(wrap(enc, &format!("{sh}:{}", hex(&sha(&p.req))))); });
    }
    if p.resp != e.resp {
        m!("swap-response-body", |c| { c.resp = p.resp.clone(); });
    }
    if p.nonce != e.nonce {
        m!("swap-nonce", |c| { c.nonce = p.nonce; });
    }
    if p.id != e.id {
        m!("swap-key-id", |c| { c.key_id = p.id; });
    }
    etag!("swap-whole-etag", format!("{}:{}", hex(&p.der), hex(&sha(&p.req))));
    etag!("swap-signature-half", format!("{}:{hh}", hex(&p.der)));

    // ---- retained request body differs from the signed one ----
    let mut reqs: Vec<(&str, Vec<u8>)> = vec![];
    if !e.req.is_empty() {
        reqs.push(("1bit", flip(&e.req, rng.usize(e.req.len() * 8))));
        reqs.push(("truncated", e.req[..e.req.len() - 1].to_vec()));
        reqs.push(("empty", vec![]));
        if e.req.len() >= 2 {
            reqs.push(("head-cut", e.req[1..].to_vec()));
        }
    }
    let mut ext = e.req.clone();
    ext.push(rng.next_u32() as u8);
    reqs.push(("extended", ext));
    let mut ext0 = e.req.clone();
    ext0.push(0);
    reqs.push(("extended-nul", ext0));
    for (k, body) in &reqs {
        m!(format!("retained-request-{k}"), |c| { c.req = body.clone(); });
        // same, with the hash half following the retained body: only the signature can catch it
        m!(format!("retained-request-{k}+hash-updated"), |c| { c.req = body.clone(); c.etag = Some(wrap(enc, &format!("{sh}:{}", hex(&sha(body))))); });
    }

    // ---- response body mutated ----
    let mut resps: Vec<(&str, Vec<u8>)> = vec![];
    if !e.resp.is_empty() {
        resps.push(("1bit", flip(&e.resp, rng.usize(e.resp.len() * 8))));
        resps.push(("truncated", e.resp[..e.resp.len() - 1].to_vec()));
        resps.push(("emptied", vec![]));
        if e.resp.len() >= 2 {
            resps.push(("head-cut", e.resp[1..].to_vec()));
            let mut sw = e.resp.clone();
            let l = sw.len();
            sw.swap(0, l - 1);
            if sw != e.resp {
                resps.push(("ends-swapped", sw));
            }
        }
    } else {
        resps.push(("empty-to-nonempty", vec![rng.next_u32() as u8]));
    }
    let mut app = e.resp.clone();
    app.push(rng.next_u32() as u8);
    resps.push(("appended", app));
    let mut app0 = e.resp.clone();
    app0.push(b'\n');
    resps.push(("appended-newline", app0));
    if e.resp != e.req {
        resps.push(("replaced-by-request-body", e.req.clone()));
    }
    for (k, body) in resps {
        m!(format!("response-{k}"), |c| { c.resp = body; });
    }

    // ---- nonce ----
    m!("nonce-1bit", |c| { c.nonce = flip(&e.nonce, rng.usize(256)).try_into().unwrap(); });
    if e.nonce != [0u8; 32] {
        m!("nonce-zero", |c| { c.nonce = [0u8; 32]; });
    }
    m!("nonce-reversed", |c| { let mut n = e.nonce; n.reverse(); if n == e.nonce { n[0] ^= 1; } c.nonce = n; });

    // ---- key id ----
    for (i, id) in ks.ids.iter().enumerate() {
        if *id != e.id {
            let k = if i == 0 { "key-id-other-latest" } else { "key-id-other-historical" };
            m!(k, |c| { c.key_id = *id; });
        }
    }
    let mut unk = rng.next_u64();
    while ks.ids.contains(&unk) {
        unk = rng.next_u64();
    }
    m!("key-id-unknown-random", |c| { c.key_id = unk; });
    for (k, cand) in [("key-id-unknown-plus1", e.id.wrapping_add(1)), ("key-id-unknown-minus1", e.id.wrapping_sub(1)), ("key-id-unknown-topbit", e.id ^ (1 << 63)), ("key-id-unknown-low32", e.id & 0xffff_ffff)] {
        if !ks.ids.contains(&cand) {
            m!(k, |c| { c.key_id = cand; });
        }
    }

    // ---- re-signed with another key ----
    let d = authentic_digest(&e.req, &e.resp, e.id, &e.nonce);
    for (i, sk) in ks.sks.iter().enumerate() {
        if i == e.signer || VerifyingKey::from(sk) == VerifyingKey::from(&ks.sks[e.signer]) {
            continue;
        }
        let (_, _, der) = sign_der(cx, sk, &d);
        etag!(if i == 0 { "resigned-by-latest-key" } else { "resigned-by-historical-key" }, format!("{}:{hh}", hex(&der)));
        // the other key signs a digest naming ITS id, but the request was sent with e.id
        let d2 = authentic_digest(&e.req, &e.resp, ks.ids[i], &e.nonce);
        let (_, _, der2) = sign_der(cx, sk, &d2);
        etag!("resigned-by-other-key-over-its-own-id", format!("{}:{hh}", hex(&der2)));
        break;
    }
    if let Some(f) = &ks.foreign {
        let (_, _, der) = sign_der(cx, f, &d);
        etag!("resigned-by-foreign-key", format!("{}:{hh}", hex(&der)));
    }

    // ---- digest composed differently (signed by the right key) ----
    let hq = sha(&e.req);
    let hr = sha(&e.resp);
    let pa = param(e.id, &e.nonce).into_bytes();
    let mut half_q = [0u8; 32];
    half_q[..16].copy_from_slice(&hq[..16]);
    let mut half_r = [0u8; 32];
    half_r[..16].copy_from_slice(&hr[..16]);
    let wrong: Vec<(&str, Vec<u8>)> = vec![
        ("digest-order-req-param-resp", compose(&[&hq, &pa, &hr]).to_vec()),
        ("digest-order-resp-req-param", compose(&[&hr, &hq, &pa]).to_vec()),
        ("digest-order-resp-param-req", compose(&[&hr, &pa, &hq]).to_vec()),
        ("digest-order-param-req-resp", compose(&[&pa, &hq, &hr]).to_vec()),
        ("digest-order-param-resp-req", compose(&[&pa, &hr, &hq]).to_vec()),
        ("digest-without-request-hash", compose(&[&hr, &pa]).to_vec()),
        ("digest-without-response-hash", compose(&[&hq, &pa]).to_vec()),
        ("digest-without-param", compose(&[&hq, &hr]).to_vec()),
        ("digest-nonce-decimal", compose(&[&hq, &hr, format!("{}:{}", e.id, dec_be(&e.nonce)).as_bytes()]).to_vec()),
        ("digest-nonce-upper-hex", compose(&[&hq, &hr, format!("{}:{}", e.id, hex(&e.nonce).to_uppercase()).as_bytes()]).to_vec()),
        ("digest-nonce-raw-bytes", compose(&[&hq, &hr, format!("{}:", e.id).as_bytes(), &e.nonce]).to_vec()),
        ("digest-param-nonce-colon-id", compose(&[&hq, &hr, format!("{}:{}", hex(&e.nonce), e.id).as_bytes()]).to_vec()),
        ("digest-param-id-hex", compose(&[&hq, &hr, format!("{:x}:{}", e.id, hex(&e.nonce)).as_bytes()]).to_vec()),
        ("digest-param-with-cup2key-prefix", compose(&[&hq, &hr, format!("cup2key={}:{}", e.id, hex(&e.nonce)).as_bytes()]).to_vec()),
        ("digest-param-id-only", compose(&[&hq, &hr, format!("{}:", e.id).as_bytes()]).to_vec()),
        ("digest-param-nonce-only", compose(&[&hq, &hr, format!(":{}", hex(&e.nonce)).as_bytes()]).to_vec()),
        ("digest-request-hash-prefix16", compose(&[&half_q, &hr, &pa]).to_vec()),
        ("digest-response-hash-prefix16", compose(&[&hq, &half_r, &pa]).to_vec()),
        ("digest-hex-hashes", compose(&[hex(&hq).as_bytes(), hex(&hr).as_bytes(), &pa]).to_vec()),
        ("digest-no-inner-hashing", compose(&[&e.req, &e.resp, &pa]).to_vec()),
        ("digest-double-hashed-outer", sha(&d).to_vec()),
        ("digest-response-body-only", hr.to_vec()),
    ];
    for (k, msg) in wrong {
        if msg == d {
            continue;
        }
        let (_, _, der) = sign_der(cx, &ks.sks[e.signer], &msg);
        etag!(k, format!("{}:{hh}", hex(&der)));
    }

    // ---- ETag structure ----
    etag!("hash-half-only", hh.clone());
    etag!("signature-half-only", sh.clone());
    etag!("signature-then-colon", format!("{sh}:"));
    etag!("colon-then-hash", format!(":{hh}"));
    etag!("colon-only", ":".to_string());
    etag!("empty", String::new());
    etag!("extra-field", format!("{sh}:{hh}:{}", hex(&rng.bytes(4))));
    etag!("extra-trailing-colon", format!("{sh}:{hh}:"));
    etag!("extra-leading-colon", format!(":{sh}:{hh}"));
    etag!("double-colon", format!("{sh}::{hh}"));
    etag!("halves-swapped", format!("{hh}:{sh}"));
    etag!("other-separator-semicolon", format!("{sh};{hh}"));
    etag!("other-separator-space", format!("{sh} {hh}"));
    for (k, ws) in [("space", " "), ("tab", "\t")] {
        etag!(format!("{k}-inside-leading"), format!("{ws}{sh}:{hh}"));
        etag!(format!("{k}-inside-trailing"), format!("{sh}:{hh}{ws}"));
        etag!(format!("{k}-before-colon"), format!("{sh}{ws}:{hh}"));
        etag!(format!("{k}-after-colon"), format!("{sh}:{ws}{hh}"));
        etag!(format!("{k}-mid-signature"), format!("{}{ws}{}:{hh}", &sh[..10], &sh[10..]));
        let w = String::from_utf8(wrap(enc, &format!("{sh}:{hh}"))).unwrap();
        if enc != "plain" {
            raw!(format!("{k}-outside-leading"), format!("{ws}{w}").into_bytes());
            raw!(format!("{k}-outside-trailing"), format!("{w}{ws}").into_bytes());
        }
    }
    let a = format!("{sh}:{hh}");
    raw!("weak-prefix-without-quotes", format!("W/{a}").into_bytes());
    raw!("weak-prefix-lower-case", format!("w/\"{a}\"").into_bytes());
    raw!("weak-prefix-single-quotes", format!("W/'{a}'").into_bytes());
    raw!("single-quotes", format!("'{a}'").into_bytes());
    raw!("weak-prefix-no-slash", format!("W\"{a}\"").into_bytes());
    raw!("weak-prefix-backslash", format!("W\\\"{a}\"").into_bytes());
    raw!("lone-quote", b"\"".to_vec());
    raw!("two-quotes", b"\"\"".to_vec());
    raw!("three-quotes", b"\"\"\"".to_vec());
    raw!("weak-empty", b"W/\"\"".to_vec());
    raw!("weak-lone-quote", b"W/\"".to_vec());
    raw!("weak-prefix-only", b"W/".to_vec());
    raw!("unbalanced-open-quote", format!("\"{a}").into_bytes());
    raw!("unbalanced-close-quote", format!("{a}\"").into_bytes());
    raw!("unbalanced-weak-open", format!("W/\"{a}").into_bytes());
    raw!("quote-mid-around-colon", format!("{sh}\":\"{hh}").into_bytes());
    raw!("each-half-quoted", format!("\"{sh}\":\"{hh}\"").into_bytes());
    raw!("quote-inside-signature", format!("\"{}\"{}:{hh}\"", &sh[..8], &sh[8..]).into_bytes());
    raw!("double-quoted", format!("\"\"{a}\"\"").into_bytes());
    raw!("weak-double-quoted", format!("W/\"\"{a}\"\"").into_bytes());
    raw!("weak-prefix-twice", format!("W/W/\"{a}\"").into_bytes());
    raw!("weak-inside-quotes", format!("\"W/\"{a}\"\"").into_bytes());
    raw!("weak-inside-weak", format!("W/\"W/\"{a}\"\"").into_bytes());
    raw!("escaped-quotes", format!("\\\"{a}\\\"").into_bytes());
    raw!("etag-header-name-in-value", format!("ETag: \"{a}\"").into_bytes());
    m!("missing-etag-header", |c| { c.etag = None; });

    // ---- hash half ----
    etag!("hash-of-response-body", format!("{sh}:{}", hex(&if hr != hq { hr } else { [0x11; 32] })));
    etag!("hash-zero", format!("{sh}:{}", hex(&[0u8; 32])));
    etag!("hash-1bit", format!("{sh}:{}", hex(&flip(&hq, rng.usize(256)))));
    etag!("hash-31-bytes", format!("{sh}:{}", &hh[..62]));
    etag!("hash-33-bytes", format!("{sh}:{hh}00"));
    etag!("hash-16-bytes", format!("{sh}:{}", &hh[..32]));
    etag!("hash-double", format!("{sh}:{}", hex(&sha(&hq))));
    etag!("hash-odd-length", format!("{sh}:{}", &hh[..63]));
    etag!("hash-leading-nibble", format!("{sh}:0{hh}"));
    etag!("hash-0x-prefix", format!("{sh}:0x{hh}"));
    etag!("hash-non-hex-char", format!("{sh}:{}g{}", &hh[..20], &hh[21..]));
    etag!("hash-base64-like", format!("{sh}:{}+/=", &hh[..61]));
    etag!("hash-sha256-colon-prefix", format!("{sh}:sha256:{hh}"));

    // ---- signature half: hex level ----
    etag!("signature-odd-length", format!("{}:{hh}", &sh[..sh.len() - 1]));
    etag!("signature-leading-nibble", format!("0{sh}:{hh}"));
    etag!("signature-0x-prefix", format!("0x{sh}:{hh}"));
    for ch in ['g', 'x', '-', '_', '+', '.'] {
        let pos = rng.usize(sh.len());
        etag!(format!("signature-non-hex-char-{}", ch as u32), format!("{}{ch}{}:{hh}", &sh[..pos], &sh[pos + 1..]));
    }
    etag!("signature-1bit", format!("{}:{hh}", hex(&flip(&e.der, rng.usize(e.der.len() * 8)))));

    // ---- signature half: DER level ----
    let rc = der_uint_content(&e.r);
    let sc = der_uint_content(&e.s);
    let seq = |rr: &[u8], ss: &[u8]| tlv(0x30, &[tlv(2, rr), tlv(2, ss)].concat());
    let pad = |v: &[u8]| [&[0u8][..], v].concat();
    let mut ders: Vec<(&str, Vec<u8>)> = vec![
        ("der-r-extra-leading-zero", seq(&pad(&rc), &sc)),
        ("der-s-extra-leading-zero", seq(&rc, &pad(&sc))),
        ("der-sequence-long-form-length", [&[0x30u8, 0x81, (e.der.len() - 2) as u8][..], &e.der[2..]].concat()),
        ("der-sequence-long-form-length-2", [&[0x30u8, 0x82, 0, (e.der.len() - 2) as u8][..], &e.der[2..]].concat()),
        ("der-r-long-form-length", tlv(0x30, &[&[2u8, 0x81, rc.len() as u8][..], &rc, &tlv(2, &sc)].concat())),
        ("der-s-long-form-length", tlv(0x30, &[&tlv(2, &rc)[..], &[2u8, 0x81, sc.len() as u8], &sc].concat())),
        ("der-indefinite-length", [&[0x30u8, 0x80][..], &e.der[2..], &[0, 0]].concat()),
        ("der-trailing-byte-outside", [&e.der[..], &[0u8]].concat()),
        ("der-trailing-byte-inside", tlv(0x30, &[&e.der[2..], &[0u8]].concat())),
        ("der-trailing-null-tlv-inside", tlv(0x30, &[&e.der[2..], &[5u8, 0]].concat())),
        ("der-third-integer", tlv(0x30, &[&e.der[2..], &tlv(2, &[1])[..]].concat())),
        ("der-sequence-length-short-by-one", [&[0x30u8, (e.der.len() - 3) as u8][..], &e.der[2..]].concat()),
        ("der-sequence-length-long-by-one", [&[0x30u8, (e.der.len() - 1) as u8][..], &e.der[2..]].concat()),
        ("der-set-tag", [&[0x31u8][..], &e.der[1..]].concat()),
        ("der-r-bitstring-tag", tlv(0x30, &[tlv(3, &rc), tlv(2, &sc)].concat())),
        ("der-s-octetstring-tag", tlv(0x30, &[tlv(2, &rc), tlv(4, &sc)].concat())),
        ("der-only-r", tlv(0x30, &tlv(2, &rc))),
        ("der-empty-sequence", vec![0x30, 0]),
        ("der-r-empty-integer", seq(&[], &sc)),
        ("der-s-empty-integer", seq(&rc, &[])),
        ("der-r-zero", seq(&[0], &sc)),
        ("der-s-zero", seq(&rc, &[0])),
        ("der-r-equals-n", seq(&der_uint_content(&N_BE), &sc)),
        ("der-s-equals-n", seq(&rc, &der_uint_content(&N_BE))),
        ("der-r-all-ff", seq(&der_uint_content(&[0xff; 32]), &sc)),
        ("der-s-all-ff", seq(&rc, &der_uint_content(&[0xff; 32]))),
        ("der-r-33-bytes-value", seq(&[&[1u8][..], &e.r].concat(), &sc)),
        ("der-r-s-swapped", seq(&sc, &rc)),
        ("der-r-twice", seq(&rc, &rc)),
        ("der-raw-r-s-concatenation", [&e.r[..], &e.s[..]].concat()),
        ("der-nested-sequence", tlv(0x30, &e.der)),
        ("der-octet-string-wrapped", tlv(0x04, &e.der)),
    ];
    if rc[0] == 0 && rc.len() == 33 {
        ders.push(("der-r-negative-missing-pad", seq(&rc[1..], &sc)));
    }
    if sc[0] == 0 && sc.len() == 33 {
        ders.push(("der-s-negative-missing-pad", seq(&rc, &sc[1..])));
    }
    // r + n and s + n (same residue) when they still fit in 256 bits: essentially never, kept for completeness
    for (k, d) in ders {
        if d == e.der || d == twin {
            continue;
        }
        etag!(k, format!("{}:{hh}", hex(&d)));
    }

    // ---- truncation at every structural boundary ----
    let rl = e.der[3] as usize;
    let cuts: Vec<(&str, usize)> = vec![
        ("after-seq-tag", 1), ("after-seq-len", 2), ("after-r-tag", 3), ("after-r-len", 4), ("mid-r", 4 + rl / 2), ("after-r", 4 + rl),
        ("after-s-tag", 5 + rl), ("after-s-len", 6 + rl), ("mid-s", 6 + rl + (e.der.len() - 6 - rl) / 2), ("last-byte-missing", e.der.len() - 1),
    ];
    for (k, n) in cuts {
        // the ETag text cut there ...
        etag!(format!("etag-truncated-{k}"), hex(&e.der[..n]));
        // ... and the signature cut there with the hash half intact
        etag!(format!("signature-truncated-{k}"), format!("{}:{hh}", hex(&e.der[..n])));
    }
    etag!("etag-truncated-mid-hash", format!("{sh}:{}", &hh[..30]));
    etag!("etag-truncated-last-hash-nibble", format!("{sh}:{}", &hh[..63]));
    etag!("etag-truncated-last-hash-byte", format!("{sh}:{}", &hh[..62]));
    if enc != "plain" {
        let w = wrap(enc, &a);
        raw!("etag-truncated-closing-quote", w[..w.len() - 1].to_vec());
        raw!("etag-truncated-first-byte", w[1..].to_vec());
    }

    // ---- obs-text / non-ASCII bytes in the header value ----
    let w = wrap(enc, &a);
    let pos = rng.usize(w.len());
    let mut o1 = w.clone();
    o1[pos] = 0x80 + rng.below(128) as u8;
    raw!("obs-text-byte-replaced", o1);
    raw!("obs-text-trailing-ff", [&w[..], &[0xffu8]].concat());
    raw!("obs-text-leading-bom", [&[0xefu8, 0xbb, 0xbf][..], &w].concat());
    raw!("obs-text-utf8-inside-quotes", [&b"\""[..], a.as_bytes(), "\u{e9}".as_bytes(), b"\""].concat());
    raw!("obs-text-weak-then-continuation-byte", [&b"W/\""[..], &[0xa9u8], a.as_bytes(), b"\""].concat());
    raw!("obs-text-lead-byte-before-closing-quote", [&b"\""[..], a.as_bytes(), &[0xc3u8], b"\""].concat());
    raw!("obs-text-only", vec![0xc3, 0xa9]);
    raw!("obs-text-quote-lead-quote", vec![b'"', 0xe2, b'"']);
    raw!("obs-text-weak-lead-quote", vec![b'W', b'/', b'"', 0xf0, b'"']);
    out
}

fn run_exchanges(cx: &mut Cx, n: u64) {
    let mut rng = cx.args.rng(1);
    let mut done = 0u64;
    let mut kidx = cx.args.shard;
    while done < n {
        let nhist = (kidx % 5) as usize;
        let dup = nhist >= 1 && rng.chance(1, 6);
        kidx += 1;
        let mut ks = match gen_keyset(cx, &mut rng, nhist, dup) {
            Some(k) => k,
            None => {
                done += 1;
                continue;
            }
        };
        let g = (2 + rng.below(3)).min((n - done).max(2)) as usize;
        let exs: Vec<Exchange> = (0..g).map(|_| gen_exchange(cx, &mut rng, &ks, false)).collect();
        for i in 0..g {
            let e = &exs[i];
            let p = &exs[(i + 1) % g];
            let enc = ENCS[((done + cx.args.shard) % 3) as usize];
            let calls = exchange_calls(cx, &mut rng, &ks, e, p, enc);
            for c in &calls {
                judge(cx, &mut ks, &e.exshape, c);
            }
            with_signature_calls(cx, &mut rng, &mut ks, e, p);
            done += 1;
            cx.r.count("authentic_exchanges", 1);
        }
    }
}

fn with_signature_calls(cx: &mut Cx, rng: &mut Rng, ks: &mut KeySet, e: &Exchange, p: &Exchange) {
    let x = e.exshape.clone();
    let twin = der_sig(&e.r, &sub_be(&N_BE, &e.s));
    judge_ws(cx, ks, &x, "authentic", &e.der, &e.req, &e.resp, e.id, e.nonce, true);
    judge_ws(cx, ks, &x, "s-twin", &twin, &e.req, &e.resp, e.id, e.nonce, true);
    let mut req2 = e.req.clone();
    if req2.is_empty() { req2.push(0) } else { req2 = flip(&req2, rng.usize(req2.len() * 8)) }
    judge_ws(cx, ks, &x, "request-body-1bit", &e.der, &req2, &e.resp, e.id, e.nonce, false);
    let mut resp2 = e.resp.clone();
    if resp2.is_empty() { resp2.push(0) } else { resp2 = flip(&resp2, rng.usize(resp2.len() * 8)) }
    judge_ws(cx, ks, &x, "response-body-1bit", &e.der, &e.req, &resp2, e.id, e.nonce, false);
    if e.req != e.resp {
        judge_ws(cx, ks, &x, "bodies-exchanged", &e.der, &e.resp, &e.req, e.id, e.nonce, false);
    }
    judge_ws(cx, ks, &x, "nonce-1bit", &e.der, &e.req, &e.resp, e.id, flip(&e.nonce, rng.usize(256)).try_into().unwrap(), false);
    if let Some(other) = ks.ids.iter().copied().find(|i| *i != e.id) {
        judge_ws(cx, ks, &x, "key-id-other", &e.der, &e.req, &e.resp, other, e.nonce, false);
    }
    let mut unk = rng.next_u64();
    while ks.ids.contains(&unk) {
        unk = rng.next_u64();
    }
    judge_ws(cx, ks, &x, "key-id-unknown", &e.der, &e.req, &e.resp, unk, e.nonce, false);
    judge_ws(cx, ks, &x, "partner-signature", &p.der, &e.req, &e.resp, e.id, e.nonce, false);
    let d = authentic_digest(&e.req, &e.resp, e.id, &e.nonce);
    let other_sk = ks.sks.iter().enumerate().find(|(i, k)| *i != e.signer && VerifyingKey::from(*k) != VerifyingKey::from(&ks.sks[e.signer])).map(|(_, k)| k.clone());
    if let Some(sk) = other_sk {
        let (_, _, der) = sign_der(cx, &sk, &d);
        judge_ws(cx, ks, &x, "resigned-by-other-key", &der, &e.req, &e.resp, e.id, e.nonce, false);
    }
    if let Some(f) = ks.foreign.clone() {
        let (_, _, der) = sign_der(cx, &f, &d);
        judge_ws(cx, ks, &x, "resigned-by-foreign-key", &der, &e.req, &e.resp, e.id, e.nonce, false);
    }
    let (_, _, der) = sign_der(cx, &ks.sks[e.signer].clone(), &compose(&[&sha(&e.req), &sha(&e.resp)]));
    judge_ws(cx, ks, &x, "digest-without-param", &der, &e.req, &e.resp, e.id, e.nonce, false);
}

// ------------------------------------------------------------------------------------------------
// exhaustive single-bit flips
fn pos_class(i: usize, n: usize) -> &'static str {
    if i == 0 { "first" } else if i + 1 == n { "last" } else { "mid" }
}

fn run_bitflips(cx: &mut Cx, n: u64) {
    let mut rng = cx.args.rng(2);
    for k in 0..n {
        let nhist = ((k + cx.args.shard) % 3) as usize;
        let mut ks = match gen_keyset(cx, &mut rng, nhist, false) {
            Some(k) => k,
            None => continue,
        };
        let e = gen_exchange(cx, &mut rng, &ks, true);
        let enc = ENCS[((k + cx.args.shard) % 3) as usize];
        let hq = sha(&e.req);
        let sh = hex(&e.der);
        let hh = hex(&hq);
        // the unflipped exchange must be accepted, otherwise the flips prove nothing
        let mut a = base_call(&e, enc);
        a.rule = Rule::Authentic;
        a.kind = "authentic".into();
        a.extra = "bitflip-base".into();
        a.expect_ok = Some(e.der.clone());
        judge(cx, &mut ks, &e.exshape, &a);
        let regions = der_regions(&e.der);
        let go = |cx: &mut Cx, ks: &mut KeySet, field: &str, extra: String, f: &dyn Fn(&mut Call)| {
            let mut c = base_call(&e, enc);
            c.rule = Rule::Bitflip;
            c.kind = field.to_string();
            c.extra = extra;
            f(&mut c);
            cx.flip_ctr += 1;
            c.log = cx.flip_ctr % 20 == 0;
            judge(cx, ks, &e.exshape, &c);
        };
        for b in 0..e.der.len() * 8 {
            let d = flip(&e.der, b);
            go(cx, &mut ks, "signature", format!("{} bit{}", regions[b / 8], b % 8), &|c| c.etag = Some(wrap(enc, &format!("{}:{hh}", hex(&d)))));
        }
        for b in 0..256 {
            let h = flip(&hq, b);
            go(cx, &mut ks, "hash", format!("{} bit{}", pos_class(b / 8, 32), b % 8), &|c| c.etag = Some(wrap(enc, &format!("{sh}:{}", hex(&h)))));
        }
        for b in 0..e.resp.len() * 8 {
            let body = flip(&e.resp, b);
            go(cx, &mut ks, "response-body", format!("{} bit{}", pos_class(b / 8, e.resp.len()), b % 8), &|c| c.resp = body.clone());
        }
        for b in 0..e.req.len() * 8 {
            let body = flip(&e.req, b);
            let x = format!("{} bit{}", pos_class(b / 8, e.req.len()), b % 8);
            go(cx, &mut ks, "retained-request", x.clone(), &|c| c.req = body.clone());
            go(cx, &mut ks, "retained-request+hash-updated", x, &|c| {
                c.req = body.clone();
                c.etag = Some(wrap(enc, &format!("{sh}:{}", hex(&sha(&body)))));
            });
        }
        for b in 0..256 {
            let nn: [u8; 32] = flip(&e.nonce, b).try_into().unwrap();
            go(cx, &mut ks, "nonce", format!("{} bit{}", pos_class(b / 8, 32), b % 8), &|c| c.nonce = nn);
        }
        for b in 0..64 {
            let id = e.id ^ (1u64 << b);
            let known = if ks.ids.contains(&id) { "known" } else { "unknown" };
            go(cx, &mut ks, "key-id", format!("bit{b} {known}"), &|c| c.key_id = id);
        }
        cx.r.count("exhaustive_bitflip_exchanges", 1);
    }
}

// ------------------------------------------------------------------------------------------------
// ETag grammar
fn skeleton(b: &[u8]) -> String {
    let mut classes: Vec<char> = vec![];
    for &x in b {
        let c = match x {
            b'W' => 'W',
            b'/' => '/',
            b'"' => 'q',
            b':' => ':',
            b'0'..=b'9' | b'a'..=b'f' => 'h',
            b'A'..=b'F' => 'H',
            b' ' => 's',
            b'\t' => 't',
            0x80..=0xff => 'b',
            _ => 'x',
        };
        let run = matches!(c, 'h' | 'H' | 'x' | 's' | 'b');
        if !(run && classes.last() == Some(&c)) {
            classes.push(c);
        }
    }
    let n = classes.len();
    let head: String = classes.iter().take(5).collect();
    let tail: String = if n > 5 { classes[n.max(8) - 3..].iter().collect() } else { String::new() };
    let lc = match b.len() { 0 => "0", 1..=3 => "1-3", 4..=6 => "4-6", 7..=20 => "7-20", _ => "21+" };
    format!("{head}~{tail}~{lc}")
}

const ALPHA6: [u8; 6] = [b'W', b'/', b'"', b':', b'a', b'0'];
/// i-th string of the enumeration of all strings over ALPHA6 by length then lexicographic; None past `maxlen`.
fn nth_pattern(mut i: u64, maxlen: u32) -> Option<Vec<u8>> {
    for l in 0..=maxlen {
        let cnt = 6u64.pow(l);
        if i < cnt {
            let mut v = vec![0u8; l as usize];
            for k in (0..l as usize).rev() {
                v[k] = ALPHA6[(i % 6) as usize];
                i /= 6;
            }
            return Some(v);
        }
        i -= cnt;
    }
    None
}

fn random_etag(rng: &mut Rng, good_hash_hex: &str, ascii_only: bool, avoid_der: bool) -> Vec<u8> {
    let mut v: Vec<u8> = vec![];
    let ntok = rng.usize(81);
    let tok = |rng: &mut Rng, v: &mut Vec<u8>| match rng.below(if ascii_only { 15 } else { 17 }) {
        0 => v.extend_from_slice(b"W/"),
        1 | 2 => v.push(b'"'),
        3 => v.push(b':'),
        4..=7 => v.push(*rng.pick(b"0123456789abcdef")),
        8 | 9 => v.push(*rng.pick(b"ABCDEF")),
        10 | 11 => v.push(*rng.pick(b"ghxyzGXZ-_+=.,;'\\/W~!@()[]{}<>|?*&^%$#`")),
        12 => v.push(b' '),
        13 => v.push(b'\t'),
        14 => v.extend_from_slice(b"W/\""),
        _ => v.push(0x80 + rng.below(128) as u8),
    };
    match rng.below(8) {
        0 => v.extend_from_slice(b"W/\""),
        1 => v.push(b'"'),
        2 => v.extend_from_slice(b"W/"),
        3 => v.extend_from_slice(b"w/\""),
        _ => {}
    }
    let with_good_hash = rng.chance(1, 4);
    let limit = if with_good_hash { ntok.min(40) } else { ntok };
    for _ in 0..limit {
        tok(rng, &mut v);
    }
    if with_good_hash {
        // reaches the signature decoder: the hash half is right, the signature half is noise
        if avoid_der {
            // (Miri) keep well away from anything that parses as DER and would start curve arithmetic
            for x in v.iter_mut() {
                if *x == b'3' {
                    *x = b'4';
                }
            }
        }
        v.push(b':');
        v.extend_from_slice(good_hash_hex.as_bytes());
    }
    match rng.below(6) {
        0 | 1 => v.push(b'"'),
        2 => v.extend_from_slice(b"\"\""),
        _ => {}
    }
    v
}

fn grammar_call(req: &[u8], resp: &[u8], id: u64, kind: &str, etag: Vec<u8>) -> Call {
    let extra = skeleton(&etag);
    Call { rule: Rule::Grammar, kind: kind.into(), enc: "raw", req: req.to_vec(), resp: resp.to_vec(), key_id: id, nonce: [7u8; 32], etag: Some(etag), expect_ok: None, log: true, extra, etag_repeat: 1 }
}

fn run_grammar(cx: &mut Cx, ks: &mut KeySet, nrandom: u64, maxlen: u32, miri: bool) {
    let mut rng = cx.args.rng(3);
    let req = b"{\"request\":{\"protocol\":\"3.0\"}}".to_vec();
    let resp = b")]}'\n{\"response\":{\"protocol\":\"3.0\"}}".to_vec();
    let id = ks.ids[0];
    let good = hex(&sha(&req));
    let exshape = format!("h{} grammar", ks.nhist());
    let mut i = 0u64;
    while let Some(p) = nth_pattern(i, maxlen) {
        if cx.args.mine(i) {
            let c = grammar_call(&req, &resp, id, "enumerated", p);
            judge(cx, ks, &exshape, &c);
            cx.r.count("grammar_enumerated", 1);
        }
        i += 1;
    }
    // the boundary strings of the quote-stripping patterns, in every shard
    for b in ["", "W", "W/", "W/\"", "\"", "\"\"", "W/\"\"", "W/\"\"\"", "\"\"\"", "W/\"a", "W/a\"", "\"a", "a\"", "/\"\"", "W\"\"", "w/\"\"", "W/\":\"", "\":\"", "W/\"W/\"\"\""] {
        let c = grammar_call(&req, &resp, id, "boundary", b.as_bytes().to_vec());
        judge(cx, ks, &exshape, &c);
    }
    for _ in 0..nrandom {
        let e = random_etag(&mut rng, &good, miri, miri);
        let c = grammar_call(&req, &resp, id, "random", e);
        judge(cx, ks, &exshape, &c);
        cx.r.count("grammar_random", 1);
    }
}

/// Miri layer: no key generation, no signing, nothing that reaches curve arithmetic.
fn run_miri(cx: &mut Cx) {
    use std::str::FromStr;
    let vk = match VerifyingKey::from_str(omaha_client::cup_ecdsa::test_support::RAW_PUBLIC_KEY_FOR_TEST) {
        Ok(k) => k,
        Err(_) => {
            cx.r.inconclusive.push("fixed test PEM key not parseable".into());
            return;
        }
    };
    let mut ks = match build_keyset(cx, vec![123456789], vec![vk], vec![], None) {
        Some(k) => k,
        None => return,
    };
    let total_enum: u64 = (0..=4).map(|l| 6u64.pow(l)).sum();
    let per_shard_enum = total_enum / cx.args.nshards.max(1);
    let nrandom = 250u64.saturating_sub(per_shard_enum).max(40);
    run_grammar(cx, &mut ks, nrandom, 4, true);
    // crafted negatives that get past the hash comparison into the DER decoder, never further
    let req = b"miri".to_vec();
    let hh = hex(&sha(&req));
    let crafted: Vec<(&str, String)> = vec![
        ("der-empty-sequence", format!("3000:{hh}")),
        ("der-r-zero", format!("3006020100020101:{hh}")),
        ("der-s-zero", format!("3006020101020100:{hh}")),
        ("der-truncated", format!("30440220:{hh}")),
        ("der-long-form", format!("308106020101020101:{hh}")),
        ("der-trailing", format!("300602010102010100:{hh}")),
        ("der-negative", format!("3006020180020101:{hh}")),
        ("signature-empty", format!(":{hh}")),
        ("signature-odd", format!("304:{hh}")),
        ("hash-upper-signature-bad", format!("zz:{}", hh.to_uppercase())),
        ("missing-colon", hh.clone()),
    ];
    for (k, inner) in crafted {
        for enc in ENCS {
            let mut c = grammar_call(&req, b"resp", 123456789, k, wrap(enc, &inner));
            c.rule = Rule::Mutant;
            c.enc = enc;
            judge(cx, &mut ks, "h0 miri", &c);
        }
    }
    let mut c = grammar_call(&req, b"resp", 123456789, "missing-etag-header", vec![]);
    c.rule = Rule::Mutant;
    c.etag = None;
    judge(cx, &mut ks, "h0 miri", &c);
    for (k, bytes) in [("obs-text-quote-lead-quote", vec![b'"', 0xe2, b'"']), ("obs-text-weak-lead-quote", vec![b'W', b'/', b'"', 0xf0, b'"']), ("obs-text-only", vec![0xc3, 0xa9])] {
        let mut c = grammar_call(&req, b"resp", 123456789, k, bytes);
        c.rule = Rule::Mutant;
        judge(cx, &mut ks, "h0 miri", &c);
    }
}

// ------------------------------------------------------------------------------------------------
fn replay(args: &Args, r: &mut Report, path: &str) {
    let v: Value = match std::fs::read_to_string(path).ok().and_then(|t| serde_json::from_str(&t).ok()) {
        Some(v) => v,
        None => {
            r.inconclusive.push(format!("replay file {path} unreadable"));
            return;
        }
    };
    let rule = v["rule"].as_str().unwrap_or("replay").to_string();
    let signature = v["signature"].as_str().unwrap_or("replay").to_string();
    let rec = &v["replay"];
    let _ = args;
    r.eval(shape_of(&["replay", &signature]), true);
    r.hit(&rule);
    if rec["api"] == "pem_roundtrip" {
        r.notes.push("replay of a pem-roundtrip case: re-run the shard with the same seed".into());
        return;
    }
    let unhex = |k: &str| ::hex::decode(rec[k].as_str().unwrap_or("")).unwrap_or_default();
    let keys: Result<PublicKeys, _> = serde_json::from_str(rec["keys_pem_json"].as_str().unwrap_or(""));
    let keys = match keys {
        Ok(k) => k,
        Err(e) => {
            r.inconclusive.push(format!("replay: keys_pem_json not parseable: {e}"));
            return;
        }
    };
    let h = StandardCupv2Handler::new(&keys);
    let req = unhex("req_body_hex");
    let resp = unhex("resp_body_hex");
    let key_id: u64 = rec["key_id"].as_str().and_then(|s| s.parse().ok()).unwrap_or(0);
    let mut nonce = [0u8; 32];
    let nb = unhex("nonce_hex");
    if nb.len() == 32 {
        nonce.copy_from_slice(&nb);
    }
    // what had to happen: for python-reference findings the signature line carries it
    let expected = if let Some(i) = signature.find("expected=") { signature[i + 9..].starts_with("ok") } else { rec["expected"] == "ok" };
    let (observed, detail, returned) = if rec["api"] == "with_signature" {
        match DerSignature::from_bytes(&unhex("sig_hex")) {
            Err(_) => (Some(false), "signature is not DER".to_string(), None),
            Ok(sig) => match guard(|| h.verify_response_with_signature(&sig, &req, &resp, key_id, &Nonce::from(nonce)).map_err(|e| format!("{e:?}"))) {
                Err(p) => (None, format!("panic at {}: {}", p.loc, p.msg), None),
                Ok(Ok(())) => (Some(true), "Ok(())".into(), None),
                Ok(Err(e)) => (Some(false), e, None),
            },
        }
    } else {
        let etag = rec["etag_hex"].as_str().map(|s| ::hex::decode(s).unwrap_or_default());
        match call_library(&h, &req, &resp, key_id, nonce, etag.as_deref(), rec["etag_count"].as_u64().unwrap_or(1).max(1) as u8) {
            Err(why) => {
                r.inconclusive.push(format!("replay: {why}"));
                return;
            }
            Ok(Err(p)) => (None, format!("panic at {}: {}", p.loc, p.msg), None),
            Ok(Ok(Ok(sig))) => (Some(true), format!("Ok({})", hex(&sig)), Some(sig)),
            Ok(Ok(Err(e))) => (Some(false), e, None),
        }
    };
    let sig_changed = match (&returned, rec["expected_sig_hex"].as_str()) {
        (Some(got), Some(want)) => hex(got) != want.to_lowercase(),
        _ => false,
    };
    let o = |b: bool| if b { "accept" } else { "reject" };
    match observed {
        None => r.violation(&rule, &signature, format!("replayed: {detail}"), rec.clone()),
        Some(ob) if ob != expected || sig_changed => r.violation(&rule, &signature, format!("replayed: library {} ({detail}), expected {}{}", o(ob), o(expected), if sig_changed { "; returned signature differs from the one in the ETag" } else { "" }), rec.clone()),
        Some(ob) => r.notes.push(format!("replay did not reproduce: library {} as expected ({detail})", o(ob))),
    }
}

fn describe(r: &mut Report) {
    r.rule_text = "Authentic CUPv2 exchanges are built by the harness itself: key sets (latest + 0..4 historical keys, distinct ids incl. 0, 1, 2^53(+1), 2^63(-1), u64::MAX and random; optionally one key registered under two ids) from PRNG bytes, \
request/response bodies (empty, tiny .. 4 KiB; random bytes, all-0xFF, all-NUL, printable text, realistic Omaha JSON), nonces (random, all-zero, all-0xFF); the digest SHA256(SHA256(req)||SHA256(resp)||\"id:nonce\") is composed with sha2 directly, \
signed harness-side and DER-encoded by a hand-written encoder; the PublicKeys go through a JSON/PEM round trip before the handler is built. Each exchange is checked authentic in the three ETag encodings (plain, quoted, weak), in the accepted encoding variants \
(upper/mixed-case hex, the (r, n-s) twin) and in ~200 mutants that each carry their verdict by construction (swaps with another exchange of the same key set, body/nonce/key-id changes, re-signing with another/foreign key, 22 wrong digest compositions, \
ETag structure/quoting/whitespace/hex/DER/truncation/obs-text variants, missing header). A subset of small exchanges gets EVERY single-bit flip of signature, hash, response body, retained request body (with and without following hash half), nonce and key id. \
ETag grammar: every string of length 0..6 over {W / \" : a 0} plus random token strings (with and without a correct hash half). verify_response_with_signature is exercised directly. Every call is also logged and re-decided offline by a pure-Python P-256 reference. \
A case's shape = (rule, mutant kind, ETag encoding, #historical keys, which key signed, body kind and size class of request and response, flipped region/bit or token skeleton); non-trivial = everything except the plain-encoded authentic exchange under a single-key set.".into();
    r.require(&[R_AUTH, R_RET, R_ENC, R_MUT, R_FLIP, R_GRAM, R_WS, R_PEM]);
    r.assume("trusted: the sha2 crate and the p256/ecdsa crates' SIGNING path on the harness side (used only to manufacture signatures; the library never sees private keys)");
    r.assume("trusted: Python's hashlib and big integers (lib/p256_ref.py) for the offline reference; the p256 VERIFY and DER/PEM parsing paths are code under test as used by the library");
    r.assume("the public_key_id argument of verify_response always equals request_metadata.public_key_id (a differing argument is a don't-care); responses with several ETag headers are a don't-care and not generated");
}

pub fn run(args: &Args, r: &mut Report) {
    describe(r);
    if let Some(p) = args.replay.clone() {
        replay(args, r, &p);
        return;
    }
    let mut cx = Cx::new(args, r);
    if args.layer == "miri" {
        cx.r.required.retain(|x| x == R_MUT || x == R_GRAM || x == R_PEM);
        run_miri(&mut cx);
        cx.finish();
        return;
    }
    let f = if args.layer == "asan" { 4 } else { 1 };
    let nex = args.budget(300 / f, 5000 / f);
    let nflip = args.budget(8 / f, 100 / f);
    let ngram = args.budget(20_000 / f, 500_000 / f);
    run_exchanges(&mut cx, nex);
    run_bitflips(&mut cx, nflip);
    let mut rng = args.rng(4);
    if let Some(mut ks) = gen_keyset(&mut cx, &mut rng, (args.shard % 3) as usize, false) {
        run_grammar(&mut cx, &mut ks, ngram, 6, false);
    }
    cx.finish();
}
