//! C11 — Every control request gets exactly one, truthful reply.

use crate::common::{Args, Report, Rng};
use crate::props::gen::*;
use crate::props::monitors::*;
use crate::sim::driver::*;
use crate::sim::world::*;
use serde_json::json;

pub fn run(args: &Args, r: &mut Report) {
    r.rule_text = "start()-mode histories (1..4 checks over all paths, reboot waits with pings) in which EVERY environment future is a gate \
        (timers, HTTP exchanges, policy answers, plan creation, install steps, reboot) and the seeded scheduler interleaves up to 6 \
        start_update_check requests from up to 3 handle clones (either source) with gate releases at every blocking-point class; \
        variants: a request abandoned by its caller (future dropped after the first poll) followed by another one through the same handle object, requests while nothing else is enabled (strict-wake: the stream is polled only when its waker fired), two sources \
        ready before one poll, all handles dropped mid-run, machine dropped before / after requests, invalid app set.  After the \
        injection phase all gates are drained.  Oracle: reply / attribution checker over the log (replies carry [lo, hi] sequence \
        intervals; Started / Throttled need an injective assignment to update_check_allowed calls with matching options and answer; \
        unassigned calls must be explainable by fired timers).  Shape key = history + injection points (blocking-point class at each \
        request) + variant.  Non-trivial = at least one request."
        .into();
    r.require(&[
        "c11-every-request-answered",
        "c11-at-most-one-reply",
        "c11-already-running-truthful",
        "c11-started-throttled-attribution",
        "c11-gone-after-machine-gone",
        "c11-reboot-question-on-demand-justified",
        "c11-on-demand-upgrades-reboot-question",
        "c11-on-demand-upgrade-is-kept",
        "c11-on-demand-check-asks-reboot-on-demand",
        "c11-every-on-demand-request-asks-reboot-question",
        "c11-request-wakes-waiting-machine",
        "c11-scheduled-operation-survives-handle-drop",
        "c11-check-runs-with-decided-options",
        "c11-request-answered-despite-ready-timers",
        "c11-abandoned-on-demand-request-still-upgrades-reboot-question",
    ]);
    let n = args.budget(40_000, 400_000);
    for i in 0..n {
        if args.skip(i) {
            continue;
        }
        let mut rng = Rng::derive(args.seed, args.shard, 11, i);
        let variant = i % 8; // 0..4 general, 5 wake-only, 6 handle drop, 7 machine gone / invalid
        let len = 1 + rng.usize(4);
        let mut paths: Vec<Path> = (0..len).map(|_| *rng.pick(&ALL_PATHS)).collect();
        if rng.bool() {
            paths[0] = Path::Install;
        }
        let cfg = HistCfg { start_mode: true, cup: rng.chance(1, 5), n_apps: 1 + rng.usize(2), paths, cohorts: false, deliveries: rng.bool(), random_params: true, throttles: true };
        let mut case = gen_history(&mut rng, &cfg);
        let apps = case.setup.apps.clone();
        for c in case.script.checks.iter_mut() {
            if !c.results.is_empty() && rng.bool() {
                for x in c.results.iter_mut() {
                    if *x == InstRes::Failed {
                        *x = InstRes::Installed;
                    }
                }
                c.reboot_needed = true;
            }
        }
        let l = add_reboot_waits(&mut case.script, &mut rng, false, &apps);
        for c in case.script.checks.iter_mut() {
            if c.reboot_needed {
                let k = 1 + rng.usize(4);
                c.reboot_allowed = (0..k).map(|_| false).chain(std::iter::once(true)).collect();
            }
        }
        for _ in 0..10 {
            let p = gen_params(&mut rng);
            case.script.decisions.push(*rng.pick(&[Decision::Ok(p), Decision::Ok(p), Decision::OkDeferred(p), Decision::TooSoon, Decision::Throttled, Decision::Denied]));
        }
        case.script.gated = GateCfg { policy: rng.bool(), plan: rng.bool(), install: rng.bool(), reboot: rng.bool() };
        // scheduling answers of every kind, with and without a minimum wait
        for _ in 0..30 {
            let kind = match rng.below(3) {
                0 => TimeKind::Wall,
                1 => TimeKind::Mono,
                _ => TimeKind::Both,
            };
            let min_wait_s = if rng.bool() { Some(30 + rng.below(900)) } else { None };
            case.script.timings.push(TimingSpec { kind, offset_s: 600 + rng.below(3600), min_wait_s, same_as_previous: rng.chance(1, 3) });
        }
        case.shape.push(l);
        case.shape.push(format!("v{}", variant));
        case.max_steps = 12_000;
        case.nontrivial = true;
        let w = make_world(&case);
        let mut d = Driver::new(&w, &case.setup);
        d.max_steps = case.max_steps;
        d.strict = true;
        let mut m = Mon::default();
        let mut inj = String::new();
        // two extra handle clones
        let h1 = d.clone_handle(0);
        let h2 = d.clone_handle(0);
        let nh = 1 + h1.is_some() as usize + h2.is_some() as usize;
        let mut budget = match variant {
            5 => 2,
            _ => 1 + rng.usize(6),
        };
        let mut dropped_all = false;
        let mut checks_after_drop = 0usize;
        let mut steps = 0u64;
        let target_idle = case.stop_idle;
        let mut gone_phase = false;
        let lag_mode = variant < 5 && rng.bool();
        let mut lagged = 0;
        loop {
            // a slow observer: sometimes the stream is not polled although it was woken
            if lag_mode && lagged < 3 && !d.pending_gates().is_empty() && rng.chance(1, 6) {
                lagged += 1;
                inj.push_str("lag,");
            } else {
                lagged = 0;
                d.settle();
            }
            steps += 1;
            if d.panicked.is_some() || d.out_of_steps || steps > 4000 {
                break;
            }
            if d.ended && !gone_phase {
                break;
            }
            let idle = d.count_state(&StateSnap::Idle);
            if dropped_all {
                checks_after_drop = d.count_results();
            }
            if idle >= target_idle && budget == 0 {
                break;
            }
            let gates = d.pending_gates();
            // what is the machine blocked on?  (label of the oldest pending gate)
            let bp = gates.first().map(|g| d.gate_kind(*g).label()).unwrap_or_else(|| "none".into());
            match variant {
                5 => {
                    // strict-wake: only timers are pending and none is fired; a request alone must get the machine going
                    let only_timers = !gates.is_empty() && gates.iter().all(|g| matches!(d.gate_kind(*g), GateKind::Timer(_)));
                    let in_wait = only_timers && d.pending_ctl().is_empty();
                    if in_wait && budget > 0 && rng.chance(1, 2) {
                        // is the machine in its main wait (not inside a check or a reboot wait)?
                        let in_main_wait = {
                            let g = lock(&d.w);
                            let mut busy = false;
                            for r in g.log.iter() {
                                match &r.ev {
                                    Ev::PolicyCheckAllowed { answer, .. } => busy = answer.params().is_some(),
                                    Ev::Taken(EvSnap::State(StateSnap::Idle)) | Ev::Built => busy = false,
                                    _ => {}
                                }
                            }
                            !busy
                        };
                        let (waiting_for_check, in_reboot_wait) = (in_main_wait, false);
                        budget -= 1;
                        let before = lock(&d.w).n_allowed;
                        let od = rng.bool();
                        let req = d.send_control(rng.usize(nh), od);
                        inj.push_str("wake,");
                        d.settle();
                        if waiting_for_check && !in_reboot_wait {
                            // no timer fired, yet the policy must have been asked and the reply delivered
                            // (gated policy answers are released first)
                            for _ in 0..6 {
                                let pg: Vec<usize> = d.pending_gates().into_iter().filter(|g| matches!(d.gate_kind(*g), GateKind::Policy(_))).collect();
                                if pg.is_empty() {
                                    break;
                                }
                                d.release(pg[0]);
                                d.settle();
                            }
                            let asked = lock(&d.w).n_allowed > before;
                            let answered = req.map(|q| !d.pending_ctl().contains(&q)).unwrap_or(true);
                            m.judge("c11-request-wakes-waiting-machine", asked && answered, if !asked { "policy-not-asked" } else { "no-reply" }, || {
                                format!("request sent while the machine was waiting on timers {:?}; without firing any timer: policy asked={} reply delivered={}", gates, asked, answered)
                            });
                        }
                        continue;
                    }
                }
                6 => {
                    if !dropped_all && idle >= 1 && rng.chance(1, 3) {
                        for h in 0..d.handles.len() {
                            d.drop_handle(h);
                        }
                        dropped_all = true;
                        budget = 0;
                        inj.push_str("dropall,");
                        continue;
                    }
                }
                7 => {
                    if !gone_phase && rng.chance(1, 10) {
                        // the machine goes away while handles (and maybe requests) are outstanding
                        d.drop_stream();
                        gone_phase = true;
                        inj.push_str("gone,");
                        for _ in 0..(1 + rng.usize(2)) {
                            let od = rng.bool();
                            d.send_control(rng.usize(nh), od);
                        }
                        d.poll_ctl(0);
                        break;
                    }
                }
                _ => {}
            }
            if budget > 1 && !dropped_all && variant < 5 && rng.chance(1, 25) {
                // a caller gives up on a request and asks again through the same handle
                budget -= 2;
                let (o1, o2) = (rng.bool(), rng.bool());
                d.abandon_and_resend(rng.usize(nh), o1, o2);
                inj.push_str("abandon,");
                continue;
            }
            if budget > 0 && !dropped_all && rng.chance(1, 5) {
                budget -= 1;
                let od = rng.bool();
                d.send_control(rng.usize(nh), od);
                inj.push_str(&bp);
                inj.push(',');
                // sometimes make a second source ready before the next poll
                if !gates.is_empty() && rng.chance(1, 3) {
                    let g = gates[rng.usize(gates.len())];
                    d.release(g);
                    inj.push_str("+gate,");
                }
                continue;
            }
            if gates.is_empty() {
                break;
            }
            let g = gates[rng.usize(gates.len())];
            d.release(g);
        }
        // ---- drain: release everything until nothing moves (bounded), so that every request must be answered
        let mut drained = true;
        if !gone_phase {
            let mut rounds = 0;
            loop {
                d.settle();
                if d.panicked.is_some() || d.ended {
                    break;
                }
                if d.pending_ctl().is_empty() {
                    break;
                }
                let gates = d.pending_gates();
                if gates.is_empty() {
                    break;
                }
                // timers last: a pending request must not need a timer
                let non_timer: Vec<usize> = gates.iter().copied().filter(|g| !matches!(d.gate_kind(*g), GateKind::Timer(_))).collect();
                let g = if !non_timer.is_empty() { non_timer[0] } else { gates[0] };
                d.release(g);
                rounds += 1;
                if rounds > 3000 {
                    drained = false;
                    break;
                }
            }
        }
        if variant == 6 && dropped_all {
            // scheduled operation continues on timers alone
            let before = lock(&d.w).n_allowed;
            let mut rounds = 0;
            while lock(&d.w).n_allowed < before + 2 && rounds < 400 && !d.ended && d.panicked.is_none() {
                d.settle();
                let gates = d.pending_gates();
                if gates.is_empty() {
                    break;
                }
                d.release(gates[0]);
                rounds += 1;
            }
            d.settle();
            let after = lock(&d.w).n_allowed;
            m.judge("c11-scheduled-operation-survives-handle-drop", after > before && !d.ended, "", || {
                format!("after all handles were dropped the machine stopped asking its policy when timers fire ({} -> {} questions, ended={})", before, after, d.ended)
            });
            let _ = checks_after_drop;
        }
        case.shape.push(inj.chars().take(60).collect());
        let end = if d.panicked.is_some() { RunEnd::Panicked } else { RunEnd::Stopped };
        let run = finish_run(&case, w, d, end);
        r.eval(case.shape_key(), true);
        r.interleavings.insert(run.sig);
        {
            let g = lock(&run.w);
            mon_c11(&g.log, &run.flow, drained, &mut m);
            // "the check then runs with the request's options": every exchange of a check (retries and event
            // reports included) carries the parameters the policy decided when it was shown those options
            mon_request_params(&run.flow, &mut m, "c11-check-runs-with-decided-options", "c11-check-runs-with-decided-options");
        }
        m.judge("c11-no-lost-wakeup", run.lost_wakes.is_empty(), "", || format!("{:?}", run.lost_wakes));
        if let Some(p) = &run.panicked {
            report_panic(r, args, i, p, &run.w, case_desc(&case));
        }
        if r.want_sample() && i % 100 == 17 {
            let g = lock(&run.w);
            r.sample(json!({"case": i, "shape": case.shape, "control": g.log.iter().filter_map(|x| match &x.ev {
                Ev::CtlSend { req, handle, on_demand } => Some(format!("{} send req{} handle{} on_demand={}", x.seq, req, handle, on_demand)),
                Ev::CtlReply { req, reply, lo, hi } => Some(format!("{} reply req{} {} [{}..{}]", x.seq, req, reply, lo, hi)),
                Ev::PolicyCheckAllowed { on_demand, answer, .. } => Some(format!("{} update_check_allowed on_demand={} -> {:?}", x.seq, on_demand, answer)),
                Ev::PolicyRebootAllowed { on_demand, answer } => Some(format!("{} reboot_allowed on_demand={} -> {}", x.seq, on_demand, answer)),
                Ev::Taken(EvSnap::State(s)) => Some(format!("{} state {:?}", x.seq, s)),
                _ => None }).take(50).collect::<Vec<_>>()}));
        }
        absorb(r, args, i, m, &run.w, case_desc(&case));
    }
    // a timer whose wait_until completes at once during the reboot wait (the ping time is always "reached"): the
    // machine pings round after round, and a request made meanwhile must still be answered within a bounded
    // number of rounds (each round the request is taken with probability >= 1/3 by the fair select)
    let n3 = args.budget(120, 2_000);
    for j in 0..n3 {
        let i = 30_000_000 + j;
        if args.skip(i) {
            continue;
        }
        let mut rng = Rng::derive(args.seed, args.shard, 113, j);
        let cfg = HistCfg { start_mode: true, cup: false, n_apps: 1 + rng.usize(2), paths: vec![Path::Install], cohorts: false, deliveries: false, random_params: false, throttles: false };
        let mut case = gen_history(&mut rng, &cfg);
        for c in case.script.checks.iter_mut() {
            for x in c.results.iter_mut() {
                *x = InstRes::Installed;
            }
            c.reboot_needed = true;
            c.reboot_fails = false;
            c.reboot_allowed = vec![false; 400];
        }
        case.script.pings = (0..400).map(|_| RespSpec::ack()).collect();
        case.max_steps = 20_000;
        let w = make_world(&case);
        let mut d = Driver::new(&w, &case.setup);
        d.max_steps = case.max_steps;
        // run into the reboot wait
        let mut guard_rounds = 0;
        while d.count_state(&StateSnap::WaitingForReboot) == 0 && guard_rounds < 200 {
            d.settle();
            let gates = d.pending_gates();
            if gates.is_empty() || d.ended || d.panicked.is_some() {
                break;
            }
            d.release(gates[0]);
            guard_rounds += 1;
        }
        d.settle();
        if d.count_state(&StateSnap::WaitingForReboot) == 0 || d.panicked.is_some() {
            r.count("ready-timers-case-did-not-reach-reboot-wait", 1);
            continue;
        }
        lock(&w).script.until_timers_ready = true;
        // let the first ping round start (its ping timer is still a gate), then ask
        let abandon = rng.chance(1, 3);
        let od = abandon || rng.bool();
        let mut asked: Option<usize> = None;
        let mut rounds = 0u32;
        let mut answered_after: Option<u32> = None;
        while rounds < 120 {
            d.settle();
            if d.ended || d.panicked.is_some() {
                break;
            }
            if let Some(q) = asked {
                if abandon {
                    // the caller gave up on its on-demand request: the machine must still act on it
                    let g = lock(&d.w);
                    let send_seq = g.log.iter().find(|x| matches!(&x.ev, Ev::CtlSend { req, .. } if *req == q)).map(|x| x.seq).unwrap_or(0);
                    if g.log.iter().any(|x| x.seq > send_seq && matches!(x.ev, Ev::PolicyRebootAllowed { on_demand: true, .. })) {
                        answered_after = Some(rounds);
                        break;
                    }
                } else if !d.pending_ctl().contains(&q) {
                    answered_after = Some(rounds);
                    break;
                }
            }
            let gates = d.pending_gates();
            // release only ping-timer / HTTP gates: the 30-minute re-ask timer never fires in this case
            let pick = gates.iter().copied().find(|g| !matches!(d.gate_kind(*g), GateKind::Timer(TimerSpec::For(_))));
            let Some(g) = pick else { break };
            if asked.is_none() && rounds >= 2 {
                asked = if abandon { d.send_and_abandon(0, true) } else { d.send_control(0, od) };
            }
            d.release(g);
            rounds += 1;
        }
        r.eval(crate::common::shape_of(&["ready-ping-timers", if od { "on-demand" } else { "scheduled" }, if abandon { "abandoned" } else { "awaited" }]), true);
        let mut m = Mon::default();
        if asked.is_some() && abandon {
            m.judge("c11-abandoned-on-demand-request-still-upgrades-reboot-question", answered_after.is_some(), "", || {
                format!("an on-demand request whose caller gave up was made during the reboot wait; after {} further rounds the policy had not been asked the on-demand reboot question", rounds)
            });
        } else if asked.is_some() {
            m.judge("c11-request-answered-despite-ready-timers", answered_after.is_some(), "", || {
                format!("a request made during the reboot wait was still unanswered after {} ping rounds with an always-ready ping timer", rounds)
            });
        }
        let run = finish_run(&case, w, d, RunEnd::Stopped);
        if let Some(p) = &run.panicked {
            report_panic(r, args, i, p, &run.w, case_desc(&case));
        }
        absorb(r, args, i, m, &run.w, json!({"ready_ping_timers": true, "answered_after_rounds": answered_after}));
    }
    // a machine that never started (invalid app set): requests resolve to Gone
    let n2 = args.budget(200, 4_000);
    for j in 0..n2 {
        let i = 20_000_000 + j;
        if args.skip(i) {
            continue;
        }
        let mut rng = Rng::derive(args.seed, args.shard, 111, j);
        let na = 1 + rng.usize(2);
        let mut apps = gen_apps(&mut rng, na);
        apps[0].version = [0, 0, 0, 0];
        let setup = Setup { apps, start_mode: true, ..Default::default() };
        let case = FlowCase::new(setup, Script::default());
        let w = make_world(&case);
        let mut d = Driver::new(&w, &case.setup);
        let before = rng.bool();
        if before {
            d.send_control(0, rng.bool());
        }
        d.settle();
        d.send_control(0, rng.bool());
        d.settle();
        d.poll_ctl(0);
        let run = finish_run(&case, w, d, RunEnd::Ended);
        r.eval(crate::common::shape_of(&["invalid-app-set", if before { "request-before-first-poll" } else { "after" }]), true);
        let mut m = Mon::default();
        {
            let g = lock(&run.w);
            let reqs = collect_ctl(&g.log);
            for q in &reqs {
                let ok = matches!(&q.reply, Some((r, _, _)) if r == "Gone");
                m.judge("c11-gone-after-machine-gone", ok, "invalid-app-set", || format!("request to a machine that refused to start got {:?}", q.reply));
            }
        }
        absorb(r, args, i, m, &run.w, json!({"invalid_app_set": true}));
    }
}
