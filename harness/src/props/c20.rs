//! C20 — "Versions parse, print and order numerically".
//!
//! Oracle: an independent reference parser (split on '.', 1..=4 parts, each `[0-9]+` with a value
//! that fits u32, missing parts zero), the canonical rendering "a.b.c.d" and the lexicographic
//! numeric comparison of 4-tuples.  `omaha_client::version::Version` is run on exhaustive and random
//! inputs and every result (FromStr, Display, Debug, serde, From<[u32; N]>, Ord/Eq) is compared.

use crate::common::{guard, Args, Fnv, PanicInfo, Report, Rng};
use omaha_client::version::Version;
use serde_json::{json, Value};
use std::cmp::Ordering;
use std::collections::BTreeMap;

const RULES: [&str; 7] = [
    "parse-accepts",
    "parse-rejects",
    "print-canonical",
    "print-parse-roundtrip",
    "json",
    "from-array",
    "ordering",
];
const TUPLE_VALUES: [u64; 9] = [0, 1, 9, 10, 99, 100, 1 << 31, (1 << 32) - 2, (1 << 32) - 1];
const ALPHABET: [char; 8] = ['0', '1', '9', '.', '+', '-', ' ', 'a'];

// ---------------------------------------------------------------------------------------------
// Reference

#[derive(Clone, Copy, Debug, PartialEq, Eq)]
enum Expect {
    Accept([u32; 4]),
    Reject,
    /// Some part is `+digits`: the statement does not decide; if accepted the value must be this.
    PlusDontCare([u32; 4]),
}

fn split_dots(s: &str) -> Vec<&str> {
    let mut parts = vec![];
    let mut start = 0;
    for (i, b) in s.bytes().enumerate() {
        if b == b'.' {
            parts.push(&s[start..i]);
            start = i + 1;
        }
    }
    parts.push(&s[start..]);
    parts
}
fn ref_part(p: &str, allow_plus: bool) -> Option<u32> {
    let digits = if allow_plus { p.strip_prefix('+').unwrap_or(p) } else { p };
    if digits.is_empty() || !digits.bytes().all(|b| b.is_ascii_digit()) {
        return None;
    }
    let significant = digits.trim_start_matches('0');
    if significant.len() > 10 {
        return None;
    }
    let v = significant.bytes().fold(0u64, |acc, b| acc * 10 + (b - b'0') as u64);
    u32::try_from(v).ok()
}
fn ref_parse_with(s: &str, allow_plus: bool) -> Option<[u32; 4]> {
    let parts = split_dots(s);
    if parts.len() > 4 {
        return None;
    }
    let mut a = [0u32; 4];
    for (i, p) in parts.iter().enumerate() {
        a[i] = ref_part(p, allow_plus)?;
    }
    Some(a)
}
fn ref_parse(s: &str) -> Expect {
    match (ref_parse_with(s, false), ref_parse_with(s, true)) {
        (Some(a), _) => Expect::Accept(a),
        (None, Some(a)) => Expect::PlusDontCare(a),
        (None, None) => Expect::Reject,
    }
}
fn canonical(a: [u32; 4]) -> String {
    format!("{}.{}.{}.{}", a[0], a[1], a[2], a[3])
}
fn ref_cmp(a: [u32; 4], b: [u32; 4]) -> Ordering {
    for i in 0..4 {
        if a[i] < b[i] {
            return Ordering::Less;
        }
        if a[i] > b[i] {
            return Ordering::Greater;
        }
    }
    Ordering::Equal
}
fn render(parts: &[u64]) -> String {
    parts.iter().map(|p| p.to_string()).collect::<Vec<_>>().join(".")
}

// ---------------------------------------------------------------------------------------------
// Classification

fn is_boundary_value(v: u32) -> bool {
    matches!(v, 9 | 10 | 99 | 100) || v >= 1 << 31 || v.is_power_of_two() && v > 1 << 15
}
fn part_class(p: &str) -> &'static str {
    if p.is_empty() {
        "empty"
    } else if p.bytes().all(|b| b.is_ascii_digit()) {
        match ref_part(p, false) {
            None => "overflow",
            Some(_) if p.len() > 1 && p.starts_with('0') => "leading-zero",
            Some(0) => "zero",
            Some(v) if is_boundary_value(v) => "boundary",
            Some(v) if v < 1000 => "small",
            Some(_) => "big",
        }
    } else if p.starts_with('+') {
        "plus-sign"
    } else if p.starts_with('-') {
        "minus-sign"
    } else if p.chars().any(|c| c.is_whitespace()) {
        "space"
    } else if p.bytes().any(|b| b.is_ascii_alphabetic()) {
        "letter"
    } else if !p.is_ascii() {
        "unicode"
    } else {
        "other"
    }
}
/// (shape, nontrivial, coarse feature used in signatures)
fn text_shape(rule: &str, s: &str) -> (u64, bool, &'static str) {
    let parts = split_dots(s);
    let mut f = Fnv::new();
    f.str(rule).u64(parts.len().min(8) as u64).u64((s.len() > 64) as u64);
    let mut plain_small = parts.len() == 4;
    let mut feature = "";
    let mut odd = 0u64; // parts that are not plain numbers
    for (i, p) in parts.iter().take(8).enumerate() {
        let c = part_class(p);
        let numeric = matches!(c, "zero" | "small" | "boundary" | "big");
        if i < 4 {
            // positional skeleton of the four meaningful positions
            f.str(match c {
                "zero" | "boundary" => c,
                "small" | "big" => "num",
                _ => "odd",
            });
        }
        odd += !numeric as u64;
        plain_small &= c == "small";
        if feature.is_empty() && !numeric {
            feature = c;
        }
    }
    f.str(feature).u64(odd.min(2)); // class of the first odd part, and whether there are more
    let feature = if parts.len() > 4 {
        "too-many-parts"
    } else if !feature.is_empty() {
        feature
    } else if parts.len() < 4 {
        "short"
    } else {
        "plain"
    };
    (f.finish(), !plain_small, feature)
}
fn tuple_shape(rule: &str, parts: &[u32]) -> (u64, bool) {
    let mut f = Fnv::new();
    f.str(rule).u64(parts.len() as u64);
    let mut plain_small = parts.len() == 4;
    for &p in parts {
        let c = if p == 0 {
            0u64
        } else if is_boundary_value(p) {
            match p {
                u32::MAX => 6,
                x if x >= 1 << 31 => 5,
                x if x > 100 => 4,
                _ => 3,
            }
        } else if p < 1000 {
            1
        } else {
            2
        };
        plain_small &= c == 1;
        f.u64(c);
    }
    (f.finish(), !plain_small)
}

// ---------------------------------------------------------------------------------------------
// Monitors

struct Ctx<'a> {
    r: &'a mut Report,
    seen: BTreeMap<String, u32>,
    sampled: u32,
    n_alt: u64,
}

fn clip(s: &str) -> String {
    if s.len() <= 120 {
        format!("{s:?}")
    } else {
        let cut = s.char_indices().nth(80).map(|x| x.0).unwrap_or(s.len());
        format!("{:?}... ({} bytes)", &s[..cut], s.len())
    }
}

impl Ctx<'_> {
    /// At most 2 violations per signature and shard, so one systematic fault cannot crowd out others.
    fn viol(&mut self, rule: &str, sig: String, detail: String, replay: Value) {
        let k = self.seen.entry(sig.clone()).or_insert(0);
        *k += 1;
        if *k <= 2 {
            self.r.violation(rule, &sig, detail, replay);
        } else {
            self.r.count(&format!("more_violations[{sig}]"), 1);
        }
    }
    fn panicked(&mut self, rule: &str, p: PanicInfo, replay: Value) {
        let sig = format!("panic@{}", p.site());
        self.viol(rule, sig, format!("panic `{}` at {} while judging {}", p.msg, p.loc, rule), replay);
    }
    fn sample(&mut self, kind: u32, v: impl FnOnce() -> Value) {
        if self.sampled & (1 << kind) == 0 && self.r.want_sample() {
            self.sampled |= 1 << kind;
            self.r.sample(v());
        }
    }

    /// Judge one outcome (direct parse or via JSON) against the reference expectation.
    fn judge_parse(&mut self, rule_json: bool, s: &str, got: Result<(Version, String), String>, expect: Expect) {
        let replay = json!({"kind": "text", "text": s});
        let via = if rule_json { "serde_json::from_str of the JSON string" } else { "parse" };
        let (acc, rej) = if rule_json { ("json", "json") } else { ("parse-accepts", "parse-rejects") };
        let base_rule = if rule_json { "json" } else if expect == Expect::Reject { rej } else { acc };
        let (shape, nontrivial, feature) = text_shape(base_rule, s);
        if !matches!((expect, &got), (Expect::PlusDontCare(_), Err(_))) {
            self.r.eval(shape, nontrivial); // an undecided outcome is not an oracle decision
        }
        match (expect, got) {
            (Expect::Accept(a), Ok((v, printed))) | (Expect::PlusDontCare(a), Ok((v, printed))) => {
                self.r.hit(acc);
                if expect != Expect::Accept(a) {
                    self.r.count("plus_sign_dont_care_accepted", 1);
                }
                let same = guard(|| v == Version::from(a)).unwrap_or(false);
                if !same || printed != canonical(a) {
                    self.viol(acc, format!("{acc} wrong-value {feature}"),
                        format!("{via} of {} gave {printed} (== from({a:?}): {same}), expected {}", clip(s), canonical(a)), replay);
                }
            }
            (Expect::Accept(a), Err(e)) => {
                self.r.hit(acc);
                self.viol(acc, format!("{acc} rejected {feature}"),
                    format!("{via} of {} failed with `{e}`, expected {}", clip(s), canonical(a)), replay);
            }
            (Expect::PlusDontCare(_), Err(_)) => self.r.count("plus_sign_dont_care_rejected", 1),
            (Expect::Reject, Err(_)) => self.r.hit(rej),
            (Expect::Reject, Ok((_, printed))) => {
                self.r.hit(rej);
                self.viol(rej, format!("{rej} accepted {feature}"),
                    format!("{via} of {} gave {printed}, expected rejection", clip(s)), replay);
            }
        }
    }

    /// parse-accepts / parse-rejects / json (string input) for an arbitrary text.
    fn check_text(&mut self, s: &str) {
        let expect = ref_parse(s);
        let replay = || json!({"kind": "text", "text": s});
        match guard(|| s.parse::<Version>().map(|v| (v, v.to_string())).map_err(|e| format!("{e} / {e:?}"))) {
            Err(p) => {
                self.r.hit(if expect == Expect::Reject { "parse-rejects" } else { "parse-accepts" });
                self.panicked(if expect == Expect::Reject { "parse-rejects" } else { "parse-accepts" }, p, replay())
            }
            Ok(got) => {
                if matches!((&got, expect), (Ok(_), Expect::Accept(_))) && split_dots(s).len() < 4 {
                    self.sample(0, || json!({"rule": "parse-accepts", "text": s, "parsed": got.as_ref().ok().map(|x| x.1.clone()),
                        "expected": format!("{expect:?}")}));
                }
                self.judge_parse(false, s, got, expect)
            }
        }
        let js = serde_json::to_string(s).unwrap_or_default();
        match guard(|| serde_json::from_str::<Version>(&js).map(|v| (v, v.to_string())).map_err(|e| e.to_string())) {
            Err(p) => {
                self.r.hit("json");
                self.panicked("json", p, replay())
            }
            Ok(got) => self.judge_parse(true, s, got, expect),
        }
        // the same text through the other serde_json entry points: a JSON literal with \u escapes,
        // an owned serde_json::Value, and a reader (none of them can lend a borrowed &str)
        if self.n_alt % 7 == 0 {
            let escaped: String = format!("\"{}\"", s.chars().map(|c| format!("\\u{:04x}", c as u32)).collect::<String>());
            let all_bmp = s.chars().all(|c| (c as u32) < 0xd800);
            if all_bmp {
                match guard(|| serde_json::from_str::<Version>(&escaped).map(|v| (v, v.to_string())).map_err(|e| e.to_string())) {
                    Err(p) => self.panicked("json", p, replay()),
                    Ok(got) => self.judge_parse(true, s, got, expect),
                }
            }
            match guard(|| serde_json::from_value::<Version>(serde_json::Value::String(s.to_string())).map(|v| (v, v.to_string())).map_err(|e| e.to_string())) {
                Err(p) => self.panicked("json", p, replay()),
                Ok(got) => self.judge_parse(true, s, got, expect),
            }
            match guard(|| serde_json::from_reader::<_, Version>(js.as_bytes()).map(|v| (v, v.to_string())).map_err(|e| e.to_string())) {
                Err(p) => self.panicked("json", p, replay()),
                Ok(got) => self.judge_parse(true, s, got, expect),
            }
        }
        self.n_alt += 1;
    }

    /// from-array, print-canonical, print-parse-roundtrip, json (serialisation) for 1..=4 numbers.
    fn check_tuple(&mut self, parts: &[u32]) {
        let mut a = [0u32; 4];
        a[..parts.len()].copy_from_slice(parts);
        let want = canonical(a);
        let replay = || json!({"kind": "tuple", "parts": parts});

        let (shape, nontrivial) = tuple_shape("from-array", parts);
        self.r.eval(shape, nontrivial);
        self.r.hit("from-array");
        let built = guard(|| {
            let short = match *parts {
                [x] => Version::from([x]),
                [x, y] => Version::from([x, y]),
                [x, y, z] => Version::from([x, y, z]),
                _ => Version::from(a),
            };
            let full = Version::from(a);
            (short, full, short == full, short.to_string())
        });
        let v = match built {
            Err(p) => return self.panicked("from-array", p, replay()),
            Ok((_short, full, same, printed)) => {
                if !same || printed != want {
                    self.viol("from-array", format!("from-array len={}", parts.len()),
                        format!("Version::from({parts:?}) prints {printed} (== from({a:?}): {same}), expected {want}"), replay());
                }
                full
            }
        };

        let (shape, nontrivial) = tuple_shape("print-canonical", parts);
        self.r.eval(shape, nontrivial);
        self.r.hit("print-canonical");
        // every printing route: Display / to_string / Debug, their alternate forms (`{:#}`, `{:#?}` — what
        // `dbg!` and pretty-printed containers use), width / fill flags, nested in an Option
        match guard(|| (v.to_string(), format!("{v:?}"), format!("{v}"), format!("{v:#}"), format!("{v:#?}"), format!("{:#?}", Some(v)), format!("{v:>1}"))) {
            Err(p) => self.panicked("print-canonical", p, replay()),
            Ok((d1, dbg, d2, alt, pdbg, nested, padded)) => {
                if d1 != want || dbg != want || d2 != want {
                    self.viol("print-canonical", "print-canonical".into(),
                        format!("Version::from({a:?}): to_string = {d1:?}, Debug = {dbg:?}, Display = {d2:?}, expected {want:?}"), replay());
                }
                if alt != want || pdbg != want || !nested.contains(want.as_str()) || padded != want {
                    self.viol("print-canonical", "print-canonical alternate-route".into(),
                        format!("Version::from({a:?}): {{:#}} = {alt:?}, {{:#?}} = {pdbg:?}, Some(v) {{:#?}} = {nested:?}, {{:>1}} = {padded:?}, expected {want:?} on every route"), replay());
                }
            }
        }

        let (shape, nontrivial) = tuple_shape("print-parse-roundtrip", parts);
        self.r.eval(shape, nontrivial);
        self.r.hit("print-parse-roundtrip");
        match guard(|| v.to_string().parse::<Version>().map(|w| (w == v, w.to_string())).map_err(|e| e.to_string())) {
            Err(p) => self.panicked("print-parse-roundtrip", p, replay()),
            Ok(Ok((true, _))) => {}
            Ok(other) => self.viol("print-parse-roundtrip", "print-parse-roundtrip".into(),
                format!("parse(print(Version::from({a:?}))) = {other:?}, expected the same version"), replay()),
        }

        let (shape, nontrivial) = tuple_shape("json", parts);
        self.r.eval(shape, nontrivial);
        self.r.hit("json");
        match guard(|| {
            let text = serde_json::to_string(&v).map_err(|e| e.to_string())?;
            let value = serde_json::to_value(v).map_err(|e| e.to_string())?;
            let back = serde_json::from_str::<Version>(&text).map_err(|e| e.to_string())?;
            Ok::<_, String>((text, value, back == v))
        }) {
            Err(p) => self.panicked("json", p, replay()),
            Ok(Ok((text, value, true))) if text == format!("\"{want}\"") && value == Value::String(want.clone()) => {
                if parts.len() < 4 {
                    self.sample(1, || json!({"rule": "json/from-array", "array": parts, "json": text, "expected_json": format!("\"{want}\"")}));
                }
            }
            Ok(other) => self.viol("json", "json serialize".into(),
                format!("JSON of Version::from({a:?}) = {other:?} (text, value, from_str(text) == v), expected \"{want}\""), replay()),
        }
    }

    /// json: anything that is not a JSON string must fail to deserialise.
    fn check_json_raw(&mut self, js: &str) {
        let replay = json!({"kind": "json-raw", "json": js});
        let mut f = Fnv::new();
        f.str("json-raw").str(js.get(..1).unwrap_or("")).u64(js.len().min(16) as u64);
        self.r.eval(f.finish(), true);
        self.r.hit("json");
        match guard(|| serde_json::from_str::<Version>(js).map(|v| v.to_string()).map_err(|e| e.to_string())) {
            Err(p) => self.panicked("json", p, replay),
            Ok(Err(_)) => {}
            Ok(Ok(v)) => self.viol("json", "json accepts non-string".into(),
                format!("serde_json::from_str::<Version>({js:?}) gave {v}, expected an error"), replay),
        }
    }

    /// ordering: cmp / partial_cmp / == / != / < / <= / > / >= against the numeric tuple order.
    fn check_order(&mut self, a: [u32; 4], b: [u32; 4]) {
        let want = ref_cmp(a, b);
        let first_diff = (0..4).find(|&i| a[i] != b[i]);
        let mut f = Fnv::new();
        f.str("ordering").u64(first_diff.map_or(9, |i| i as u64)).u64(want as i8 as u64);
        let mut stringy = false; // would a per-component string comparison disagree?
        if let Some(i) = first_diff {
            stringy = a[i].to_string().cmp(&b[i].to_string()) != want;
            f.u64(stringy as u64).u64((32 - (a[i] ^ b[i]).leading_zeros()) as u64);
            f.u64((0..4).filter(|&j| j > i && ref_cmp([a[j]; 4], [b[j]; 4]) == want.reverse()).count() as u64);
        }
        self.r.eval(f.finish(), first_diff != Some(0) || stringy || a[0].max(b[0]) >= 1 << 31);
        self.r.hit("ordering");
        let replay = json!({"kind": "order", "a": a, "b": b});
        match guard(|| {
            let (x, y) = (Version::from(a), Version::from(b));
            (x.cmp(&y), x.partial_cmp(&y), [x == y, x != y, x < y, x <= y, x > y, x >= y], y.cmp(&x))
        }) {
            Err(p) => self.panicked("ordering", p, replay),
            Ok((c, pc, ops, rev)) => {
                let want_ops = [want.is_eq(), want.is_ne(), want.is_lt(), want.is_le(), want.is_gt(), want.is_ge()];
                if c != want || pc != Some(want) || rev != want.reverse() {
                    self.viol("ordering", "ordering cmp".into(),
                        format!("{}.cmp({}) = {c:?}, partial_cmp = {pc:?}, reversed cmp = {rev:?}; expected {want:?}", canonical(a), canonical(b)), replay);
                } else if ops != want_ops {
                    self.viol("ordering", "ordering operators".into(),
                        format!("{} vs {}: [==, !=, <, <=, >, >=] = {ops:?}, expected {want_ops:?}", canonical(a), canonical(b)), replay);
                }
                if stringy {
                    self.sample(2, || json!({"rule": "ordering", "a": canonical(a), "b": canonical(b), "cmp": format!("{c:?}"), "expected": format!("{want:?}")}));
                }
            }
        }
    }

    fn replay(&mut self, v: &Value) -> Option<()> {
        let arr4 = |k: &str| -> Option<[u32; 4]> {
            let x: Vec<u32> = v.get(k)?.as_array()?.iter().filter_map(|n| n.as_u64().map(|n| n as u32)).collect();
            <[u32; 4]>::try_from(x).ok()
        };
        match v.get("kind")?.as_str()? {
            "text" => self.check_text(v.get("text")?.as_str()?),
            "tuple" => {
                let p: Vec<u32> = v.get("parts")?.as_array()?.iter().filter_map(|n| n.as_u64().map(|n| n as u32)).collect();
                if p.is_empty() || p.len() > 4 {
                    return None;
                }
                self.check_tuple(&p)
            }
            "json-raw" => self.check_json_raw(v.get("json")?.as_str()?),
            "order" => self.check_order(arr4("a")?, arr4("b")?),
            _ => return None,
        }
        Some(())
    }
}

// ---------------------------------------------------------------------------------------------
// Generators

fn gen_u32(g: &mut Rng) -> u32 {
    match g.below(6) {
        0 => g.below(1000) as u32,
        1 => *g.pick(&TUPLE_VALUES) as u32,
        2 => {
            let b = 1 + g.below(32);
            (g.next_u64() >> (64 - b)) as u32
        }
        3 => u32::MAX - g.below(3) as u32,
        4 => (1u32 << g.below(32)).wrapping_add(g.below(3) as u32).wrapping_sub(1),
        _ => g.next_u32(),
    }
}
fn digits(g: &mut Rng, n: usize) -> String {
    (0..n).map(|_| (b'0' + g.below(10) as u8) as char).collect()
}
fn gen_part(g: &mut Rng) -> String {
    match g.below(20) {
        0..=7 => gen_u32(g).to_string(),
        8 => format!("{}{}", "0".repeat(*g.pick(&[1usize, 2, 9, 10, 40, 300])), gen_u32(g)),
        9 => match g.below(5) {
            0 => "4294967296".to_string(),
            1 => format!("{}{}", u32::MAX, g.below(10)),
            2 => format!("1{}", digits(g, 19)),
            3 => "99999999999".to_string(),
            _ => (u32::MAX as u64 + 1 + g.below(1 << 40)).to_string(),
        },
        10 => format!("+{}", gen_u32(g)),
        11 => format!("-{}", gen_u32(g)),
        12 => match g.below(4) {
            0 => format!(" {}", gen_u32(g)),
            1 => format!("{} ", gen_u32(g)),
            2 => format!("1 {}", g.below(10)),
            _ => format!("{}{}", g.pick(&["\t", "\n", "\r\n", "\u{a0}"]), gen_u32(g)),
        },
        13 => g.pick(&["a", "1a", "a1", "0x10", "1e3", "1_000", "NaN", "1,2", "1/2"]).to_string(),
        14 => g.pick(&["\u{661}", "\u{ff11}\u{ff12}", "\u{b2}", "1\u{661}", "\u{96f}", "\u{1d7d9}"]).to_string(),
        15 => String::new(),
        16 => g.pick(&["+", "-", "+-1", "++1", "+0", "-0", "+00", "+ 1", "1+", "1-"]).to_string(),
        17 => "0".repeat(1 + g.usize(12)),
        18 => format!("{}\0", gen_u32(g)),
        _ => format!("+{}", u32::MAX as u64 + 1 + g.below(1000)),
    }
}
fn gen_text(g: &mut Rng) -> String {
    if g.chance(1, 60) {
        // a version-like prefix followed by a label whose multi-byte characters straddle the usual cut-off
        // lengths (what a diagnostics message might echo): every variant is invalid
        let edge = *g.pick(&[8usize, 16, 20, 24, 32, 40, 48, 64, 100, 128, 255, 256]);
        let mut s = format!("{}.{}.{}", gen_u32(g) % 200, gen_u32(g) % 10, gen_u32(g) % 10_000);
        s.push('-');
        while s.len() + 1 < edge.saturating_sub(g.usize(4)) {
            s.push('a');
        }
        let wide = *g.pick(&['\u{e9}', '\u{436}', '\u{4e2d}', '\u{1f600}']);
        for _ in 0..2 + g.usize(6) {
            s.push(wide);
        }
        return s;
    }
    if g.chance(1, 200) {
        // very long inputs
        return match g.below(4) {
            0 => {
                let n = 200 + g.usize(5000);
                digits(g, n)
            }
            1 => vec!["1"; 5 + g.usize(2000)].join("."),
            2 => format!("{}{}.2", "0".repeat(1000 + g.usize(4000)), gen_u32(g)),
            _ => ".".repeat(1 + g.usize(3000)),
        };
    }
    let nparts = *g.pick(&[0usize, 1, 1, 2, 2, 3, 3, 4, 4, 4, 4, 5, 6]);
    let mut s = (0..nparts).map(|_| gen_part(g)).collect::<Vec<_>>().join(".");
    match g.below(24) {
        0 => s.insert(0, ' '),
        1 => s.push(' '),
        2 => s.push('\n'),
        3 => s.insert(0, '.'),
        4 => s.push('.'),
        5 => s = s.replacen('.', "..", 1),
        6 => s = s.replacen('.', ",", 1),
        7 => s.push('\0'),
        8 => s = s.replacen('.', "\u{3002}", 1),
        _ => {}
    }
    s
}
fn order_set() -> Vec<[u32; 4]> {
    let mut v: Vec<[u32; 4]> = vec![];
    for vals in [&[0u32, 1, u32::MAX][..], &[9, 10], &[1 << 31, (1 << 31) + 1]] {
        let k = vals.len();
        for i in 0..k.pow(4) {
            v.push([vals[i % k], vals[i / k % k], vals[i / (k * k) % k], vals[i / (k * k * k)]]);
        }
    }
    for pos in 0..4 {
        for x in [0u32, 1, 2, 9, 10, 11, 99, 100, 255, 256, 65535, 65536, (1 << 31) - 1, 1 << 31, u32::MAX - 1, u32::MAX] {
            let mut t = [5u32, 50, 500, 5000];
            t[pos] = x;
            v.push(t);
        }
    }
    v.sort_unstable();
    v.dedup();
    v
}
const JSON_RAW: [&str; 16] = [
    "null", "0", "1", "1.2", "1234", "true", "false", "[1,2,3,4]", "[\"1.2.3.4\"]", "{}", "{\"version\":\"1.2.3.4\"}",
    "[]", "-1", "1e3", "[1]", "4294967295",
];

pub fn run(args: &Args, r: &mut Report) {
    r.rule_text = "Cases: (a) EXHAUSTIVE all tuples of 0..=6 numbers over {0,1,9,10,99,100,2^31,2^32-2,2^32-1} joined with '.' \
        (597 871 texts; the 7 380 with 1..=4 parts also go through From<[u32;N]>, Display/Debug, print->parse and serde); \
        (b) EXHAUSTIVE all 37 449 strings of length <= 5 over {0,1,9,'.','+','-',' ','a'}; (c) EXHAUSTIVE all ordered pairs over \
        177 boundary versions (31 329 pairs); (d) fixed JSON non-strings; (e) random: u32 tuples, texts built part-wise from plain / boundary / \
        leading-zero / overflowing / '+'- / '-'-prefixed / spaced / lettered / non-ASCII-digit / empty / NUL-containing parts with \
        0..6 parts and whole-string mutations (outer spaces, newline, leading/trailing/double dots, other separators), very long \
        inputs, and random ordering pairs (equal, one component changed, unrelated). Each text is parsed directly and via a JSON \
        string. A case is distinct by (rule, number of parts, zero/number/boundary/odd skeleton of the first four parts, class of the first odd part among empty/overflow/\
        leading-zero/plus-sign/minus-sign/space/letter/unicode/other, whether more than one part is odd) or, for orderings, (first differing position, \
        result, whether string order disagrees, bit distance, later components pointing the other way); it is non-trivial unless \
        it is four small plain numbers (orderings: unless decided by an ordinary first component). '+digits' parts are don't-care."
        .into();
    r.require(&RULES);
    r.assume("serde_json string escaping/unescaping and its type errors are correct");
    r.assume("std u32/u64 Display and comparison used by the reference rendering and ordering are correct");
    r.assume("the harness's reference parser implements the statement: 1..=4 dot-separated [0-9]+ parts, each value < 2^32, leading zeros allowed");

    // anyhow captures a backtrace per parse error when RUST_BACKTRACE is set (about 30 us each, 10x the
    // whole check); that is irrelevant to the property, so switch it off for library errors only.
    // Single-threaded at this point; read once by std and cached.
    if std::env::var_os("RUST_LIB_BACKTRACE").is_none() {
        std::env::set_var("RUST_LIB_BACKTRACE", "0");
    }

    let mut cx = Ctx { r, seen: BTreeMap::new(), sampled: 0, n_alt: 0 };

    if let Some(path) = &args.replay {
        let v: Value = std::fs::read_to_string(path).ok().and_then(|s| serde_json::from_str(&s).ok()).unwrap_or(Value::Null);
        if cx.replay(v.get("replay").unwrap_or(&v)).is_none() {
            cx.r.inconclusive.push(format!("cannot parse replay file {path}"));
        }
        return;
    }

    let miri = args.layer == "miri";
    let budget = if miri { args.budget(24_000, 24_000).min(1_500) } else { args.budget(1_000_000, 20_000_000) };
    let mut idx = 0u64; // global enumeration index: decides the owning shard

    // (a) tuples over the boundary values; (b) short strings over the alphabet
    let (max_tuple, max_str) = if miri { (2, 2) } else { (6, 5) };
    for len in 0..=max_tuple {
        let mut parts = vec![0u64; len];
        for code in 0..9u64.pow(len as u32) {
            idx += 1;
            if !args.mine(idx) {
                continue;
            }
            let mut c = code;
            for p in parts.iter_mut() {
                *p = TUPLE_VALUES[(c % 9) as usize];
                c /= 9;
            }
            cx.check_text(&render(&parts));
            if (1..=4).contains(&len) {
                let t: Vec<u32> = parts.iter().map(|&p| p as u32).collect();
                cx.check_tuple(&t);
            }
        }
    }
    for len in 0..=max_str {
        for code in 0..8u64.pow(len as u32) {
            idx += 1;
            if !args.mine(idx) {
                continue;
            }
            let mut c = code;
            let s: String = (0..len).map(|_| { let ch = ALPHABET[(c % 8) as usize]; c /= 8; ch }).collect();
            cx.check_text(&s);
        }
    }
    cx.r.count("enumerated_texts_all_shards", idx);
    // (c) all pairs over the boundary versions; (d) JSON non-strings
    let set = order_set();
    let stride = if miri { 97 } else { 1 };
    for (i, a) in set.iter().enumerate() {
        for (j, b) in set.iter().enumerate() {
            idx += 1;
            if args.mine(idx) && (i * set.len() + j) % stride == 0 {
                cx.check_order(*a, *b);
            }
        }
    }
    cx.r.count("ordering_set_size", set.len() as u64);
    for js in JSON_RAW {
        idx += 1;
        if args.mine(idx) {
            cx.check_json_raw(js);
        }
    }
    if !miri {
        cx.r.exhaustive = Some(true);
    }
    cx.r.count("exhaustive_phase_evaluations", cx.r.evaluations);

    // (e) random cases: up to the budget, and at least a quarter of it
    let target = cx.r.evaluations.max(budget * 3 / 4) + budget / 4;
    let mut g = args.rng(20);
    let mut i = 0u64;
    while cx.r.evaluations < target {
        match i % 8 {
            0..=3 => cx.check_text(&gen_text(&mut g)),
            4 => {
                let t: Vec<u32> = (0..1 + g.usize(4)).map(|_| gen_u32(&mut g)).collect();
                cx.check_tuple(&t);
                cx.check_text(&render(&t.iter().map(|&x| x as u64).collect::<Vec<_>>()));
            }
            5 => {
                let n = g.below(1 << 40);
                cx.check_json_raw(&if g.bool() { n.to_string() } else { format!("[{n}]") })
            }
            _ => {
                let a = [gen_u32(&mut g), gen_u32(&mut g), gen_u32(&mut g), gen_u32(&mut g)];
                let mut b = a;
                match g.below(4) {
                    0 => {}
                    1 => b = [gen_u32(&mut g), gen_u32(&mut g), gen_u32(&mut g), gen_u32(&mut g)],
                    _ => {
                        // change one component, let later ones pull the other way
                        let p = g.usize(4);
                        b[p] = if g.bool() { a[p].wrapping_add(1) } else { gen_u32(&mut g) };
                        for q in p + 1..4 {
                            if g.bool() {
                                b[q] = gen_u32(&mut g);
                            }
                        }
                    }
                }
                cx.check_order(a, b);
            }
        }
        i += 1;
    }
    cx.r.count("random_cases", i);
}
