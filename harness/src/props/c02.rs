//! C02 — Unauthenticated responses never influence the updater.

use crate::common::{Args, Report, Rng};
use crate::model::flow::Flow;
use crate::props::gen::*;
use crate::props::monitors::*;
use crate::sim::driver::Sched;
use crate::sim::world::*;
use serde_json::json;

const KINDS: [&str; 9] = ["absent", "garbage", "flipsig", "foreignkey", "wrongkeyid", "otherbody", "hashonly", "otherheldkey", "replay"];

fn etag_of(kind: &str, rng: &mut Rng) -> EtagSpec {
    match kind {
        "absent" => EtagSpec::Absent,
        "garbage" => EtagSpec::Raw(rng.pick(&[&b"W/\"0815\""[..], b"deadbeef:cafe", b"\"\"", b":", b"3006020101020101"]).to_vec()),
        "flipsig" => EtagSpec::FlipSig,
        "foreignkey" => EtagSpec::ForeignKey,
        "wrongkeyid" => EtagSpec::WrongKeyId,
        "otherbody" => EtagSpec::OtherBody,
        "hashonly" => EtagSpec::HashOnly,
        "otherheldkey" => EtagSpec::OtherHeldKey,
        _ => EtagSpec::Replay(rng.usize(8)),
    }
}

/// A tempting forged payload: update offer + new cohorts + day + X-Retry-After, or an error status.
fn forged_reply(rng: &mut Rng, apps: &[crate::sim::driver::AppSpec], kind: &str, is_uc: bool) -> (RespSpec, String) {
    let variant = rng.below(6);
    let mut rep = match variant {
        4 => ReplySpec::ok(BodySpec::Raw(vec![])), // nothing to parse, still nothing to trust
        5 => {
            // a body far larger than any genuine answer (valid JSON: whitespace padding in front of an offer)
            let (doc, _) = gen_doc(rng, apps, Some(is_uc), true);
            let mut b = vec![b' '; (1 << 20) + 4096 + rng.usize(1 << 20)];
            b.extend_from_slice(&crate::sim::omaha::render_doc(&doc));
            ReplySpec::ok(BodySpec::Raw(b))
        }
        0 | 1 => {
            let (mut doc, _) = gen_doc(rng, apps, Some(is_uc), true);
            doc.daystart = Some(Some(9999));
            for a in doc.apps.iter_mut() {
                a.cohort = [Some("forged-cohort".into()), Some("forged-hint".into()), Some("forged-name".into())];
            }
            ReplySpec::ok(BodySpec::Doc(doc))
        }
        2 => ReplySpec::status(*rng.pick(&[400u16, 500, 503])),
        _ => ReplySpec::ok(BodySpec::Ack { daystart: Some(Some(9999)), cohort: [Some("forged-cohort".into()), None, None] }),
    };
    if rng.bool() {
        rep = rep.with_retry_after(b"4242");
    }
    let label = format!("v{}{}", variant, if rep.headers.is_empty() { "" } else { "+ra" });
    (RespSpec::Reply(rep.with_etag(etag_of(kind, rng))), label)
}

#[derive(Clone, Copy, Debug, PartialEq)]
enum Pos {
    Uc(usize, usize),
    Report(usize, usize),
    Ping(usize),
}

fn positions(case: &FlowCase) -> Vec<Pos> {
    let mut v = vec![];
    for (c, cs) in case.script.checks.iter().enumerate() {
        for k in 0..cs.attempts.len() {
            v.push(Pos::Uc(c, k));
        }
        for j in 0..3 {
            v.push(Pos::Report(c, j));
        }
    }
    for p in 0..3 {
        v.push(Pos::Ping(p));
    }
    v
}

fn put(case: &mut FlowCase, pos: Pos, spec: RespSpec) {
    match pos {
        Pos::Uc(c, k) => case.script.checks[c].attempts[k] = spec,
        Pos::Report(c, j) => {
            let r = &mut case.script.checks[c].reports;
            while r.len() <= j {
                r.push(RespSpec::ack());
            }
            r[j] = spec;
        }
        Pos::Ping(p) => {
            while case.script.pings.len() <= p {
                case.script.pings.push(RespSpec::ack());
            }
            case.script.pings[p] = spec;
        }
    }
}

/// What the twin comparison looks at: announced states / result kind per check, request kinds,
/// final counter / poll / cohorts.
fn digest(f: &Flow, w: &W) -> Vec<String> {
    let mut out = vec![];
    for c in &f.checks {
        out.push(format!("check{} events {:?}", c.idx, c.events.iter().map(|e| short(&e.1)).collect::<Vec<_>>()));
        out.push(format!("check{} requests uc={} reports={} plan={} install={}", c.idx, c.uc.len(), c.reports.len(), c.plan.is_some(), c.install_start.is_some()));
    }
    out.push(format!("pings {}", f.pings.len()));
    let g = lock(w);
    let (failed, lc, poll) = decode_book(&g.storage.committed);
    out.push(format!("final counter={} poll={:?} last_contact_set={}", failed, poll, lc.is_some()));
    let mut apps: Vec<_> = g.storage.committed.iter().filter(|(k, _)| k.starts_with("{app")).map(|(k, v)| format!("{}={:?}", k, v)).collect();
    apps.sort();
    out.push(format!("apps {:?}", apps));
    out
}

pub fn run(args: &Args, r: &mut Report) {
    r.rule_text = "Fault enumeration with the real StandardCupv2Handler: base histories (1..3 checks over all ten paths, reboot waits with pings, \
        start() mode) and, for EVERY request position of the base script (each update-check attempt, each of three event-report slots \
        per check, each of three ping slots) one run per forgery kind {no ETag, garbage ETag, bit-flipped signature, foreign key, \
        wrong key id, signature over another body, hash-only, replay of an earlier genuine response of the same run}, the forged \
        reply carrying a tempting payload (update offer + new cohorts + day number, error status, X-Retry-After).  Judged by the \
        flow model with 'unauthentic = failed exchange, nothing learned' (states, no retry, no plan / install, counter + 1, lost \
        event accounting, poll / last contact / cohorts unchanged) and by a twin run in which the same exchange fails with a \
        non-retried transport error instead.  Shape key = base shape + position class + forgery kind + payload variant."
        .into();
    r.require(&[
        "c02:c04-states-path",
        "c02:c04-server-response-iff",
        "c02:c04-result-actions",
        "c02:c06-no-retry",
        "c02:c10-lost-event-accounting",
        "c02:c07-poll-policy-next",
        "c02:c08-counter-policy-next",
        "c02:c08-last-contact-policy-next",
        "c02:c09-apps-policy-next",
        "c02-forged-update-check-is-validation-error",
        "c02-no-plan-or-install-after-forgery",
        "c02-twin-run-equivalent",
        "c02-forged-position-reached",
    ]);
    let n_base = args.budget(128, 1_000);
    let mut runs = 0u64;
    for i in 0..n_base {
        if args.skip(i) {
            continue;
        }
        let mut rng = Rng::derive(args.seed, args.shard, 2, i);
        let len = 1 + rng.usize(3);
        let mut paths: Vec<Path> = (0..len).map(|_| *rng.pick(&ALL_PATHS)).collect();
        // make sure installs with reboot waits (hence pings) are frequent
        if rng.bool() {
            paths[0] = Path::Install;
        }
        let cfg = HistCfg { start_mode: true, cup: true, n_apps: 1 + rng.usize(2), paths, cohorts: true, deliveries: false, random_params: false, throttles: false };
        let mut base = gen_history(&mut rng, &cfg);
        let apps = base.setup.apps.clone();
        let l = add_reboot_waits(&mut base.script, &mut rng, true, &apps);
        base.script.pings.truncate(3);
        base.shape.push(l);
        base.sched = Sched::Random;
        // an extra plain check at the end makes the after-effects visible on the wire and to the policy
        base.script.checks.push(gen_check(&mut rng, &apps, Path::NoUpdate, true, false, false).0);
        base.script.decisions.push(Decision::Ok(ParamsSnap::default_lib()));
        base.stop_idle += 1;
        // in a sixth of the bases the first offer is for an app the client does not have (the reports that
        // follow name no app at all)
        if rng.chance(1, 6) {
            for cs in base.script.checks.iter_mut() {
                let Some(RespSpec::Reply(rep)) = cs.attempts.last_mut() else { continue };
                let BodySpec::Doc(doc) = &mut rep.body else { continue };
                if n_offered(doc) == 0 {
                    continue;
                }
                for a in doc.apps.iter_mut() {
                    if a.updatecheck.as_ref().map(|u| u.status == "ok").unwrap_or(false) {
                        a.updatecheck = Some(UcSpec::status("noupdate"));
                    }
                }
                doc.apps.push(doc_app("{unknown-9}", AppKind::Offer, &mut rng, false));
                if !cs.results.is_empty() {
                    cs.results = vec![InstRes::Installed];
                }
                base.shape.push("unknown-only-offer".into());
                break;
            }
        }
        let sched_seed = rng.next_u64();
        for (pi, pos) in positions(&base).into_iter().enumerate() {
            for (ki, kind) in KINDS.iter().enumerate() {
                // quick tier: stratified sample (every kind x every position class is still covered)
                if !args.thorough() && (pi + ki + i as usize) % 3 != 0 {
                    continue;
                }
                let mut frng = Rng::derive(args.seed ^ 0xF0, i, pi as u64, ki as u64);
                let is_uc = matches!(pos, Pos::Uc(..));
                let (forged, vlabel) = forged_reply(&mut frng, &apps, kind, is_uc);
                let mut case = base.clone();
                put(&mut case, pos, forged);
                let pclass = match pos {
                    Pos::Uc(_, k) => format!("uc-attempt{}", k),
                    Pos::Report(_, j) => format!("report{}", j),
                    Pos::Ping(p) => format!("ping{}", p),
                };
                case.shape.push(pclass.clone());
                case.shape.push(kind.to_string());
                case.shape.push(vlabel);
                let mut twin = base.clone();
                put(&mut twin, pos, if is_uc { RespSpec::User } else { RespSpec::Transport });
                let run = run_case_restart(&case, &[case.setup.clone()], &mut Rng::new(sched_seed), 0);
                let trun = run_case_restart(&twin, &[twin.setup.clone()], &mut Rng::new(sched_seed), 0);
                runs += 1;
                // was the forged reply actually delivered?
                let delivered_forged = {
                    let g = lock(&run.w);
                    g.log.iter().any(|x| matches!(&x.ev, Ev::HttpResp { delivered: Delivered::Reply { authentic: false, .. }, .. }))
                };
                if !delivered_forged {
                    r.count("position-not-reached", 1);
                    continue;
                }
                r.eval(case.shape_key(), true);
                r.hit("c02-forged-position-reached");
                r.count(&format!("forged-{}", pclass.trim_end_matches(char::is_numeric)), 1);
                let mut m = Mon::default();
                mon_c04(&run.flow, &case.setup, &mut m);
                let mut bo = vec![];
                mon_c06(&run.flow, &mut m, &mut bo);
                mon_c10(&run.flow, &mut m);
                mon_state(&run.flow, &case.setup, Proj::Poll, &mut m);
                mon_state(&run.flow, &case.setup, Proj::Book, &mut m);
                mon_state(&run.flow, &case.setup, Proj::Cohort, &mut m);
                let mut m2 = Mon::default();
                for (k, v) in m.hits {
                    m2.hits.insert(format!("c02:{}", k), v);
                }
                for (rule, sig, d) in m.viols {
                    m2.viols.push((format!("c02:{}", rule), format!("c02:{} [{} {}]", sig, pclass.trim_end_matches(char::is_numeric), kind), d));
                }
                let mut m = m2;
                // explicit C02 rules
                for c in run.flow.checks.iter() {
                    let forged_uc = c.uc.iter().any(|a| matches!(&a.resp, Some((_, Delivered::Reply { authentic: false, .. }))));
                    if forged_uc && c.complete {
                        let is_val = matches!(&c.result, Some((_, Err(e))) if e.contains("CupValidation"));
                        m.judge("c02-forged-update-check-is-validation-error", is_val, kind, || format!("check #{} got a forged reply but ended with {:?}", c.idx, c.result.as_ref().map(|x| &x.1)));
                        m.judge("c02-no-plan-or-install-after-forgery", c.plan.is_none() && c.install_start.is_none(), kind, || format!("check #{}: plan / install after a forged reply", c.idx));
                    }
                }
                // twin run: same observable behaviour as a non-retried transport failure at that position
                if trun.panicked.is_none() && run.panicked.is_none() {
                    let a = digest(&run.flow, &run.w);
                    let b = digest(&trun.flow, &trun.w);
                    m.judge("c02-twin-run-equivalent", a == b, &format!("{} {}", pclass.trim_end_matches(char::is_numeric), kind), || {
                        let diff: Vec<String> = a.iter().zip(b.iter()).filter(|(x, y)| x != y).map(|(x, y)| format!("forged: {}\n  twin:   {}", x, y)).collect();
                        format!("forged run differs from its twin (transport failure at the same position):\n{}", diff.join("\n"))
                    });
                }
                if let Some(p) = &run.panicked {
                    report_panic(r, args, i, p, &run.w, case_desc(&case));
                }
                if r.want_sample() && runs % 97 == 1 {
                    r.sample(json!({"base": i, "position": pclass, "forgery": kind, "shape": case.shape,
                        "observed": digest(&run.flow, &run.w)}));
                }
                absorb(r, args, i, m, &run.w, case_desc(&case));
            }
        }
    }
    r.count("forged-runs", runs);
}
