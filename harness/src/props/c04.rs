//! C04 — Update-check flow: announced states and result match what happened.

use crate::common::{Args, Report, Rng};
use crate::props::gen::*;
use crate::props::monitors::*;
use serde_json::json;

pub fn run(args: &Args, r: &mut Report) {
    r.rule_text = "Generated update-check histories run through the real state machine (one-shot and start() mode, with and \
        without CUP) against scripted environment doubles; per case: path (10 classes: transport / status / caller / forged \
        failure, unparseable body, no update, plan error, deferred, denied, install) stratified round-robin x 1..3 apps x \
        response shape (subset / permutation of known apps, unknown ids, ok / noupdate / restricted / error statuses, no \
        updatecheck) x per-app installer results x reboot needed x transient failures before the final attempt; then random \
        multi-check histories (length <= 6).  The flow model derives the expected announced states / result from what the \
        harness itself answered.  Shape key = mode, CUP, #apps, per check: path + response-shape letters + result vector + \
        pre-failures.  Non-trivial = anything but a single one-app no-update check."
        .into();
    r.require(&[
        "c04-final-schedule-protocol-result",
        "c04-exactly-one-result",
        "c04-states-path",
        "c04-server-response-iff",
        "c04-installer-errors",
        "c04-result-actions",
        "c04-idle-after-check",
        "c04-waiting-for-reboot-iff",
    ]);
    r.assume("policy / installer doubles respect their documented contracts (one install result per offered app, in response order)");
    r.assume("when one response names an app id twice the installer double still returns one result per offered response app, in response order; only the announced states, error events and the result are judged for such responses");
    let n = args.budget(40_000, 400_000);
    for i in 0..n {
        if args.skip(i) {
            continue;
        }
        let mut rng = Rng::derive(args.seed, args.shard, 4, i);
        let gi = i * args.nshards + args.shard; // global index for stratification
        let history = gi % 5 == 4;
        let cfg = if history {
            let len = 2 + rng.usize(5);
            HistCfg {
                start_mode: true,
                cup: rng.bool(),
                n_apps: 1 + rng.usize(3),
                paths: (0..len).map(|_| *rng.pick(&ALL_PATHS)).collect(),
                cohorts: rng.bool(),
                deliveries: rng.chance(1, 3),
                random_params: true,
                throttles: true,
            }
        } else {
            let s = gi / 5;
            HistCfg {
                start_mode: (s / 30) % 2 == 1,
                cup: (s / 60) % 2 == 1,
                n_apps: 1 + ((s / 10) % 3) as usize,
                paths: vec![ALL_PATHS[(s % 10) as usize]],
                cohorts: rng.bool(),
                deliveries: false,
                random_params: rng.bool(),
                throttles: false,
            }
        };
        let mut case = gen_history(&mut rng, &cfg);
        if rng.chance(1, 6) {
            add_duplicate_ids(&mut case, &mut rng);
        }
        // in a quarter of the cases an embedder task takes the shared storage and app-set locks (in the
        // library's own order, storage first) at arbitrary points of the flow
        if rng.chance(1, 4) {
            case.embedder_rate = 5;
        }
        {
            use crate::sim::world::*;
            let mut same = 0u64;
            for cs in &case.script.checks {
                if let Some(RespSpec::Reply(rep)) = cs.attempts.last() {
                    if let BodySpec::Doc(doc) = &rep.body {
                        let offered: Vec<_> = doc.apps.iter().filter(|a| a.updatecheck.as_ref().map(|u| u.status == "ok").unwrap_or(false)).collect();
                        if !offered.is_empty() && offered.iter().all(|a| case.setup.apps.iter().any(|x| x.id == a.id && a.updatecheck.as_ref().and_then(|u| u.manifest_version.clone()) == Some(x.version_string()))) {
                            same += 1;
                        }
                    }
                }
            }
            r.count("checks-offering-only-the-installed-version", same);
        }
        // a third of the start()-mode cases run under the hostile scheduler: control requests at quiescent points
        // and right after an emission (while the machine is parked on it), a lagging observer, spurious polls, and
        // every control handle dropped at an arbitrary point (the scheduled operation must go on as before)
        let hostile = case.setup.start_mode && rng.chance(1, 3);
        let run = if hostile {
            use crate::sim::world::Decision;
            for _ in 0..6 {
                let p = gen_params(&mut rng);
                case.script.decisions.push(*rng.pick(&[Decision::Ok(p), Decision::Ok(p), Decision::OkDeferred(p), Decision::TooSoon, Decision::Throttled, Decision::Denied]));
            }
            let h = Hostile { ctl_budget: rng.usize(3), ctl_num: 1, ctl_den: 6, spurious: rng.bool(), multi_release: rng.bool(), lag: rng.bool() };
            let mut lab = format!("hostile:ctl{}", h.ctl_budget);
            if rng.chance(1, 3) {
                let n = 1 + rng.usize(14);
                case.ctl_on_emission.push((n, rng.bool()));
                lab.push_str(&format!(",ce{}", n));
                r.count("requests-sent-right-after-an-emission", 1);
            }
            if rng.chance(1, 4) {
                case.drop_handles_after = Some(rng.below(25));
                lab.push_str(",drop");
                r.count("cases-dropping-every-handle", 1);
            }
            if rng.bool() {
                // installs that need a reboot wait for permission (refused a few times, pings in between)
                let apps = case.setup.apps.clone();
                let l = add_reboot_waits(&mut case.script, &mut rng, false, &apps);
                lab.push_str(&format!(",{}", l));
            }
            case.shape.push(lab);
            case.embedder_rate = 0;
            case.max_steps = 8_000;
            run_hostile(&case, &mut rng, &h)
        } else {
            run_case(&case, &mut rng)
        };
        r.eval(case.shape_key(), case.nontrivial);
        r.interleavings.insert(run.sig);
        let mut m = Mon::default();
        mon_c04(&run.flow, &case.setup, &mut m);
        if case.embedder_rate > 0 {
            let g = crate::sim::world::lock(&run.w);
            let dead = g.log.iter().find(|x| matches!(x.ev, crate::sim::world::Ev::ObserverBlocked { on: "deadlock-with-embedder" }));
            m.judge("c04-flow-completes-with-embedder-task", dead.is_none() && run.end != crate::sim::driver::RunEnd::Blocked, "", || {
                format!("run ended {:?}: the machine and an embedder task that locks storage then the app set wait for each other (seq {:?})", run.end, dead.map(|d| d.seq))
            });
            r.count("embedder-touches", g.log.iter().filter(|x| matches!(x.ev, crate::sim::world::Ev::EmbedderTouched)).count() as u64);
        }
        if let Some(p) = &run.panicked {
            report_panic(r, args, i, p, &run.w, case_desc(&case));
        }
        r.count(&format!("end-{:?}", run.end), 1);
        r.count("checks-observed", run.flow.checks.len() as u64);
        if r.want_sample() && case.nontrivial && gi % 7 == 0 {
            r.sample(json!({
                "case": i, "shape": case.shape,
                "observed": run.flow.checks.iter().map(|c| json!({
                    "outcome": outcome_label(c),
                    "events": c.events.iter().map(|e| short(&e.1)).collect::<Vec<_>>(),
                    "expected_states": format!("{:?}", c.exp.states),
                    "result": format!("{:?}", c.result.as_ref().map(|r| &r.1)),
                })).collect::<Vec<_>>(),
            }));
        }
        absorb(r, args, i, m, &run.w, case_desc(&case));
    }
}

/// Repeat one app id inside the final response of some checks (results stay positional: one per offered
/// response app).  Only used by C04, whose monitor judges states / error events / the result list.
fn add_duplicate_ids(case: &mut FlowCase, rng: &mut Rng) {
    use crate::sim::world::*;
    let mut any = false;
    for cs in case.script.checks.iter_mut() {
        let Some(RespSpec::Reply(rep)) = cs.attempts.last_mut() else { continue };
        if rep.status != 200 || rep.etag != EtagSpec::Auto {
            continue;
        }
        let BodySpec::Doc(doc) = &mut rep.body else { continue };
        if doc.apps.is_empty() {
            continue;
        }
        let src = rng.usize(doc.apps.len());
        let pos = rng.usize(doc.apps.len() + 1);
        let had_offer = n_offered(doc) > 0;
        let kinds: &[AppKind] = if had_offer {
            &[AppKind::Offer, AppKind::NoUpdate, AppKind::NoUpdateCheck, AppKind::ErrorStatus]
        } else {
            &[AppKind::NoUpdate, AppKind::NoUpdateCheck, AppKind::Restricted]
        };
        let id = doc.apps[src].id.clone();
        let dup = doc_app(&id, *rng.pick(kinds), rng, false);
        let dup_offered = dup.updatecheck.as_ref().map(|u| u.status == "ok").unwrap_or(false);
        doc.apps.insert(pos, dup);
        if dup_offered && !cs.results.is_empty() {
            // position of the new app among the offered ones
            let k = doc.apps[..pos].iter().filter(|a| a.updatecheck.as_ref().map(|u| u.status == "ok").unwrap_or(false)).count();
            let res = *rng.pick(&[InstRes::Installed, InstRes::Deferred, InstRes::Failed]);
            cs.results.insert(k.min(cs.results.len()), res);
        }
        any = true;
    }
    if any {
        case.shape.push("+dupid".into());
        case.nontrivial = true;
    }
}
