//! C04 — Update-check flow: announced states and result match what happened.

use crate::common::{Args, Report, Rng};
use crate::props::gen::*;
use crate::props::monitors::*;
use serde_json::json;

pub fn run(args: &Args, r: &mut Report) {
    r.rule_text = "Generated update-check histories run through the real state machine (one-shot and start() mode, with and \
        without CUP) against scripted environment doubles; per case: path (10 classes: transport / status / caller / forged \
        failure, unparseable body, no update, plan error, deferred, denied, install) stratified round-robin x 1..3 apps x \
        response shape (subset / permutation of known apps, unknown ids, ok / noupdate / restricted / error statuses, no \
        updatecheck) x per-app installer results x reboot needed x transient failures before the final attempt; then random \
        multi-check histories (length <= 6).  The flow model derives the expected announced states / result from what the \
        harness itself answered.  Shape key = mode, CUP, #apps, per check: path + response-shape letters + result vector + \
        pre-failures.  Non-trivial = anything but a single one-app no-update check."
        .into();
    r.require(&[
        "c04-final-schedule-protocol-result",
        "c04-exactly-one-result",
        "c04-states-path",
        "c04-server-response-iff",
        "c04-installer-errors",
        "c04-result-actions",
        "c04-idle-after-check",
        "c04-waiting-for-reboot-iff",
    ]);
    r.assume("policy / installer doubles respect their documented contracts (one install result per offered app, in response order)");
    r.assume("duplicate app ids inside one response are not generated (don't-care)");
    let n = args.budget(40_000, 400_000);
    for i in 0..n {
        if args.skip(i) {
            continue;
        }
        let mut rng = Rng::derive(args.seed, args.shard, 4, i);
        let gi = i * args.nshards + args.shard; // global index for stratification
        let history = gi % 5 == 4;
        let cfg = if history {
            let len = 2 + rng.usize(5);
            HistCfg {
                start_mode: true,
                cup: rng.bool(),
                n_apps: 1 + rng.usize(3),
                paths: (0..len).map(|_| *rng.pick(&ALL_PATHS)).collect(),
                cohorts: rng.bool(),
                deliveries: rng.chance(1, 3),
                random_params: true,
                throttles: true,
            }
        } else {
            let s = gi / 5;
            HistCfg {
                start_mode: (s / 30) % 2 == 1,
                cup: (s / 60) % 2 == 1,
                n_apps: 1 + ((s / 10) % 3) as usize,
                paths: vec![ALL_PATHS[(s % 10) as usize]],
                cohorts: rng.bool(),
                deliveries: false,
                random_params: rng.bool(),
                throttles: false,
            }
        };
        let case = gen_history(&mut rng, &cfg);
        let run = run_case(&case, &mut rng);
        r.eval(case.shape_key(), case.nontrivial);
        r.interleavings.insert(run.sig);
        let mut m = Mon::default();
        mon_c04(&run.flow, &case.setup, &mut m);
        if let Some(p) = &run.panicked {
            report_panic(r, args, i, p, &run.w, case_desc(&case));
        }
        r.count(&format!("end-{:?}", run.end), 1);
        r.count("checks-observed", run.flow.checks.len() as u64);
        if r.want_sample() && case.nontrivial && gi % 7 == 0 {
            r.sample(json!({
                "case": i, "shape": case.shape,
                "observed": run.flow.checks.iter().map(|c| json!({
                    "outcome": outcome_label(c),
                    "events": c.events.iter().map(|e| short(&e.1)).collect::<Vec<_>>(),
                    "expected_states": format!("{:?}", c.exp.states),
                    "result": format!("{:?}", c.result.as_ref().map(|r| &r.1)),
                })).collect::<Vec<_>>(),
            }));
        }
        absorb(r, args, i, m, &run.w, case_desc(&case));
    }
}
