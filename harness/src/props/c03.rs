//! C03 — Every CUP request is freshly and faithfully decorated.

use crate::common::{guard, Args, Report, Rng};
use crate::props::gen::*;
use crate::props::monitors::Mon;
use crate::sim::driver::*;
use crate::sim::omaha::ServerKeys;
use crate::sim::world::*;
use omaha_client::cup_ecdsa::StandardCupv2Handler;
use omaha_client::protocol::request::{Event, EventType, GUID};
use omaha_client::request_builder::RequestBuilder;
use serde_json::json;
use std::collections::BTreeSet;

/// String-level URI splitter (deliberately not http::Uri): (scheme, authority, path, query).
pub fn split_uri(u: &str) -> Option<(String, String, String, Option<String>)> {
    let (scheme, rest) = u.split_once("://")?;
    let rest = rest.split('#').next().unwrap_or(rest);
    let (before_q, query) = match rest.split_once('?') {
        Some((a, q)) => (a, Some(q.to_string())),
        None => (rest, None),
    };
    let (authority, path) = match before_q.find('/') {
        Some(i) => (&before_q[..i], &before_q[i..]),
        None => (before_q, ""),
    };
    Some((scheme.to_ascii_lowercase(), authority.to_ascii_lowercase(), if path.is_empty() { "/".to_string() } else { path.to_string() }, query))
}

/// Judge one wire URI against the configured service URL; returns (key id, nonce hex) if well formed.
pub fn judge_uri(m: &mut Mon, service_url: &str, wire: &str, latest_id: u64, ctx: &str) -> Option<(u64, String)> {
    let (Some(s), Some(w)) = (split_uri(service_url), split_uri(wire)) else {
        m.judge("c03-uri-shape", false, "unsplittable", || format!("{}: cannot split service url {:?} / wire uri {:?}", ctx, service_url, wire));
        return None;
    };
    m.judge("c03-uri-base-intact", s.0 == w.0 && s.1 == w.1 && s.2 == w.2, "", || {
        format!("{}: scheme/authority/path changed: service url {:?}, wire {:?}", ctx, service_url, wire)
    });
    let wq = w.3.clone().unwrap_or_default();
    // the original query must be a prefix; what follows is exactly one added pair
    let added: Option<String> = match &s.3 {
        None => Some(wq.clone()),
        Some(orig) if orig.is_empty() => Some(wq.strip_prefix('&').unwrap_or(&wq).to_string()),
        Some(orig) => wq.strip_prefix(orig.as_str()).and_then(|r| r.strip_prefix('&')).map(|x| x.to_string()),
    };
    let Some(added) = added else {
        m.judge("c03-query-intact", false, "", || format!("{}: existing query {:?} not preserved in {:?}", ctx, s.3, wire));
        return None;
    };
    m.judge("c03-query-intact", true, "", String::new);
    let ok_form = added.strip_prefix("cup2key=").and_then(|v| v.split_once(':')).map(|(id, nonce)| {
        (id.parse::<u64>().ok(), nonce.to_string(), nonce.len() == 64 && nonce.bytes().all(|c| c.is_ascii_digit() || (b'a'..=b'f').contains(&c)) && !id.starts_with('+'))
    });
    match ok_form {
        Some((Some(id), nonce, true)) if !added.contains('&') => {
            m.judge("c03-exactly-one-cup2key-added", true, "", String::new);
            m.judge("c03-latest-key-id", id == latest_id, "", || format!("{}: cup2key carries key id {}, latest is {}", ctx, id, latest_id));
            Some((id, nonce))
        }
        _ => {
            m.judge("c03-exactly-one-cup2key-added", false, "", || format!("{}: added query part {:?} is not cup2key=<id>:<64 hex>", ctx, added));
            None
        }
    }
}

const HOSTS: [&str; 8] = ["omaha.example", "EXAMPLE.com", "localhost", "10.0.0.1", "[::1]", "[2001:db8::1]", "[fe80::1%25eth0]", "a-b.c_d.example"];

pub fn gen_url(rng: &mut Rng) -> (String, String) {
    let scheme = *rng.pick(&["http", "https", "HTTP"]);
    let host = *rng.pick(&HOSTS);
    let port = match rng.below(4) {
        0 => ":8080".to_string(),
        1 => ":443".to_string(),
        _ => String::new(),
    };
    let depth = rng.usize(5);
    let segs = ["service", "update2", "json", "v1", "a%20b", "x.y", "~u", ""];
    let mut path = String::new();
    for _ in 0..depth {
        path.push('/');
        path.push_str(*rng.pick(&segs[..]));
    }
    if depth == 0 && rng.bool() {
        path.push('/');
    }
    let nq = rng.usize(4);
    let mut q = String::new();
    let pairs = ["a=1", "foo=bar", "cup2key=1:00", "x", "k=", "=v", "e=%3D", "cup2key=zz"];
    for i in 0..nq {
        if i > 0 {
            q.push('&');
        }
        q.push_str(*rng.pick(&pairs[..]));
    }
    let trailing_q = nq == 0 && rng.chance(1, 6);
    let mut url = format!("{}://{}{}{}", scheme, host, port, path);
    if nq > 0 || trailing_q {
        url.push('?');
        url.push_str(&q);
    }
    let class = format!("{}-{}-p{}-d{}-q{}{}", scheme.to_ascii_lowercase(), if host.starts_with('[') { "v6" } else if host.chars().next().unwrap().is_ascii_digit() { "v4" } else { "name" }, !port.is_empty(), depth, nq, if trailing_q { "t" } else { "" });
    (url, class)
}

const BAD_URLS: [&str; 10] = ["", "not a url", "http://exa mple.com/", "http://[::1/", "http://example.com/\u{7f}", "://x", "http://example.com/a b", "http://exam\nple.com", "http://example.com/%", "\u{0}"];

pub fn run(args: &Args, r: &mut Report) {
    r.rule_text = "(a) RequestBuilder::build with the real StandardCupv2Handler over a service-URL grammar (http/https, names / IPv4 / bracketed \
        IPv6 / zone ids, ports, path depth 0..4, 0..3 existing query pairs including ones already named cup2key, trailing '?') x key \
        sets (latest + 0..3 historical) x app sets x request kinds; each builder is built twice; URLs the http crate rejects must \
        give an error and no request.  (b) the state machine with CUP on over histories with retries, event reports and pings: every \
        wire request and the RequestMetadata handed to the installer are judged, nonces are collected across the whole shard.  Oracle: \
        string-level URI splitter + run-global nonce set.  Shape key = URL class + key-set shape + request kind (a) / history shape (b)."
        .into();
    r.require(&[
        "c03-uri-base-intact",
        "c03-query-intact",
        "c03-exactly-one-cup2key-added",
        "c03-latest-key-id",
        "c03-metadata-body-is-wire-body",
        "c03-metadata-key-and-nonce",
        "c03-nonce-never-reused",
        "c03-rebuild-fresh-nonce-same-body",
        "c03-rebuild-after-new-id-sends-new-id",
        "c03-bad-url-is-error",
        "c03-installer-metadata-is-wire-request",
        "c03-every-request-decorated",
    ]);
    r.assume("letter case of scheme and host, userinfo and fragments are don't-cares; an empty existing query ('...?') may be continued with or without '&'");
    let mut nonces: BTreeSet<String> = BTreeSet::new();
    let mut reused = 0u64;
    let mut long_lived: Option<StandardCupv2Handler> = None;
    // ---- (a) direct builds
    let n = args.budget(60_000, 400_000);
    for i in 0..n {
        if args.skip(i) {
            continue;
        }
        let mut rng = Rng::derive(args.seed, args.shard, 3, i);
        let nk = 1 + rng.usize(4);
        let mut ids: Vec<u64> = vec![];
        while ids.len() < nk {
            let id = *rng.pick(&[0u64, 1, 42, 123456789, u32::MAX as u64 + 1, u64::MAX, rng.clone().next_u64()]);
            if !ids.contains(&id) {
                ids.push(id);
            }
        }
        let keys = ServerKeys::generate(&mut Rng::new(100 + (i % 7)), &ids);
        let handler = StandardCupv2Handler::new(&keys.public_keys());
        // one handler that lives as long as the shard and sees every service URL (a product talking to several
        // endpoints, or one whose URL is reconfigured, keeps its handler)
        if long_lived.is_none() {
            let k = ServerKeys::generate(&mut Rng::new(4242), &[77, 5]);
            long_lived = Some(StandardCupv2Handler::new(&k.public_keys()));
        }
        let bad = i % 25 == 24;
        let (url, class) = if bad { (BAD_URLS[(i / 25) as usize % BAD_URLS.len()].to_string(), "bad".to_string()) } else { gen_url(&mut rng) };
        let w = World::new(Script::default());
        let setup = Setup { service_url: url.clone(), apps: gen_apps(&mut rng, 1 + (i % 3) as usize), ..Default::default() };
        let config = make_config(&setup, &w);
        let params = gen_params(&mut rng).to_lib();
        let kind = i % 3;
        let mut b = RequestBuilder::new(&config, &params);
        for a in &setup.apps {
            let app = a.to_app();
            b = match kind {
                0 => b.add_update_check(&app).add_ping(&app),
                1 => b.add_event(&app, Event::success(EventType::UpdateDownloadStarted)),
                _ => b.add_ping(&app),
            };
        }
        b = b.session_id(GUID::new()).request_id(GUID::new());
        let mut m = Mon::default();
        let shape = crate::common::shape_of(&[&class, &format!("k{}", nk), &format!("kind{}", kind)]);
        r.eval(shape, true);
        let built = guard(|| (b.build(Some(&handler)), b.build(Some(&handler))));
        match built {
            Err(p) => {
                r.violation("no-panic", &format!("panic@{}", p.site()), format!("build panicked on service url {:?}: {}", url, p.msg), json!({"service_url": url}));
            }
            Ok((first, second)) => {
                let http_ok = url.parse::<http::Uri>().is_ok() && !url.is_empty();
                if !http_ok || bad {
                    if !http_ok {
                        m.judge("c03-bad-url-is-error", first.is_err(), "", || format!("service url {:?} is rejected by the http crate but build returned a request", url));
                    }
                } else {
                    if let Some(h) = long_lived.as_ref() {
                        if let Ok(Ok((req3, meta3))) = guard(|| b.build(Some(h))) {
                            let uri3 = req3.uri().to_string();
                            let got3 = judge_uri(&mut m, &url, &uri3, 77, "long-lived-handler");
                            if let (Some(md), Some((id, nonce))) = (&meta3, &got3) {
                                let nb: [u8; 32] = md.nonce.into();
                                m.judge("c03-metadata-key-and-nonce", md.public_key_id == *id && ::hex::encode(nb) == *nonce, "long-lived-handler", || "metadata and wire disagree for the long-lived handler".into());
                                if !nonces.insert(nonce.clone()) {
                                    reused += 1;
                                }
                            }
                        }
                    }
                    // the builder is reused for every retry with a fresh request id (and by embedders with a fresh
                    // session id): what is kept for verification must still be the bytes of THAT request
                    {
                        let rid = GUID::new();
                        let rid_s = serde_json::to_string(&rid).unwrap_or_default().trim_matches('"').to_string();
                        let b2 = if i % 2 == 0 { b.request_id(rid) } else { b.session_id(rid) };
                        if let Ok(Ok((req4, meta4))) = guard(|| b2.build(Some(&handler))) {
                            let body4 = futures::executor::block_on(hyper::body::to_bytes(req4.into_body())).map(|b| b.to_vec()).unwrap_or_default();
                            if let Some(md) = &meta4 {
                                m.judge("c03-metadata-body-is-wire-body", md.request_body == body4, "after-new-id", || "RequestMetadata.request_body differs from the bytes put on the wire after the builder got a new request/session id".into());
                            }
                            let has = rid_s.len() >= 32 && String::from_utf8_lossy(&body4).to_lowercase().contains(&rid_s.to_lowercase());
                            m.judge("c03-rebuild-after-new-id-sends-new-id", has, if i % 2 == 0 { "requestid" } else { "sessionid" }, || format!("the builder was given the id {} but the body put on the wire does not carry it", rid_s));
                        }
                    }
                    match (first, second) {
                        (Ok((req1, meta1)), Ok((req2, meta2))) => {
                            let mut bodies = vec![];
                            let mut ns = vec![];
                            for (req, meta) in [(req1, meta1), (req2, meta2)] {
                                let uri = req.uri().to_string();
                                let body = futures::executor::block_on(hyper::body::to_bytes(req.into_body())).map(|b| b.to_vec()).unwrap_or_default();
                                let got = judge_uri(&mut m, &url, &uri, ids[0], "build");
                                match (&meta, &got) {
                                    (Some(md), Some((id, nonce))) => {
                                        m.judge("c03-metadata-body-is-wire-body", md.request_body == body, "", || "RequestMetadata.request_body differs from the bytes put on the wire".into());
                                        // "the same nonce": the 64 hex digits on the wire are the metadata's 32 nonce bytes
                                        // (encoded here independently of the library's own Display)
                                        let nonce_bytes: [u8; 32] = md.nonce.into();
                                        m.judge("c03-metadata-key-and-nonce", md.public_key_id == *id && ::hex::encode(nonce_bytes) == *nonce, "", || {
                                            format!("metadata (key {}, nonce bytes {}) vs uri (key {}, nonce {})", md.public_key_id, ::hex::encode(nonce_bytes), id, nonce)
                                        });
                                        if !nonces.insert(nonce.clone()) {
                                            reused += 1;
                                        }
                                        ns.push(nonce.clone());
                                    }
                                    (None, _) => m.judge("c03-metadata-present", false, "", || "handler configured but no RequestMetadata returned".into()),
                                    _ => {}
                                }
                                bodies.push(body);
                            }
                            if ns.len() == 2 {
                                m.judge("c03-rebuild-fresh-nonce-same-body", ns[0] != ns[1] && bodies[0] == bodies[1], if ns[0] == ns[1] { "same-nonce" } else { "body-differs" }, || {
                                    format!("two builds of one builder: nonces {} / {}, bodies equal={}", ns[0], ns[1], bodies[0] == bodies[1])
                                });
                            }
                        }
                        (a, _) => {
                            m.judge("c03-valid-url-builds", a.is_ok(), &class, || format!("service url {:?} is accepted by the http crate but build failed: {:?}", url, a.err().map(|e| e.to_string())));
                        }
                    }
                }
            }
        }
        if r.want_sample() && i % 500 == 1 {
            r.sample(json!({"service_url": url, "class": class, "key_ids": ids.iter().map(|x| x.to_string()).collect::<Vec<_>>()}));
        }
        for (k, v) in m.hits {
            r.hits(&k, v);
        }
        for (rule, sig, detail) in m.viols {
            let mut rp = args.case_replay(i);
            rp["service_url"] = json!(url);
            r.violation(&rule, &sig, detail, rp);
        }
    }
    // ---- (b) through the state machine
    let nh = args.budget(4_000, 20_000);
    for j in 0..nh {
        let i = 10_000_000 + j;
        if args.skip(i) {
            continue;
        }
        let mut rng = Rng::derive(args.seed, args.shard, 33, j);
        let len = 1 + rng.usize(4);
        let cfg = HistCfg {
            start_mode: rng.bool(),
            cup: true,
            n_apps: 1 + rng.usize(2),
            paths: (0..len).map(|_| *rng.pick(&ALL_PATHS)).collect(),
            cohorts: false,
            deliveries: rng.bool(),
            random_params: false,
            throttles: false,
        };
        let mut case = gen_history(&mut rng, &cfg);
        if !cfg.start_mode {
            case.script.checks.truncate(1);
        }
        let apps = case.setup.apps.clone();
        let l = add_reboot_waits(&mut case.script, &mut rng, false, &apps);
        case.shape.push(l);
        let (url, class) = gen_url(&mut rng);
        case.setup.service_url = url.clone();
        case.shape.push(class);
        // the handler carries its own keys: Config::omaha_public_keys is informational and may be absent
        case.setup.keys_in_config = !rng.chance(1, 4);
        case.shape.push(format!("cfgkeys={}", case.setup.keys_in_config));
        case.sched = Sched::Random;
        let run = run_case(&case, &mut rng);
        r.eval(case.shape_key(), true);
        let mut m = Mon::default();
        let latest = case.key_ids[0];
        let g = lock(&run.w);
        let mut last_uc: Option<(Vec<u8>, u64, String)> = None;
        for rec in g.log.iter() {
            match &rec.ev {
                Ev::HttpReq { uri, body, kind, .. } => {
                    let got = judge_uri(&mut m, &url, uri, latest, "state machine request");
                    m.judge("c03-every-request-decorated", got.is_some(), "", || format!("request at seq {} is not decorated: {}", rec.seq, uri));
                    if let Some((id, nonce)) = got {
                        if !nonces.insert(nonce.clone()) {
                            reused += 1;
                        }
                        if *kind == ReqKind::UpdateCheck {
                            last_uc = Some((body.clone(), id, nonce));
                        }
                    }
                }
                Ev::PlanCreate { meta, .. } => {
                    let ok = match (meta, &last_uc) {
                        (Some(md), Some((b, id, n))) => md.body == *b && md.key_id == *id && md.nonce_hex == *n,
                        _ => false,
                    };
                    m.judge("c03-installer-metadata-is-wire-request", ok, "", || {
                        format!("installer received metadata {:?} but the last update-check request on the wire had key/nonce {:?}", meta.as_ref().map(|x| (x.key_id, x.nonce_hex.clone(), x.body.len())), last_uc.as_ref().map(|x| (x.1, x.2.clone(), x.0.len())))
                    });
                }
                _ => {}
            }
        }
        drop(g);
        if let Some(p) = &run.panicked {
            report_panic(r, args, i, p, &run.w, case_desc(&case));
        }
        absorb(r, args, i, m, &run.w, case_desc(&case));
    }
    if args.only_case.is_none() {
        r.hits("c03-nonce-never-reused", nonces.len() as u64);
        if reused > 0 {
            r.violation("c03-nonce-never-reused", "c03-nonce-never-reused", format!("{} nonces were used more than once among {} requests", reused, nonces.len() as u64 + reused), json!({"reused": reused}));
        }
    }
    r.count("nonces-collected", nonces.len() as u64);
}
