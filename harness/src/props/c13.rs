//! C13 — Event stream is ordered, lossless and back-pressured.

use crate::common::{guard, Args, Report, Rng};
use crate::props::gen::*;
use crate::props::monitors::*;
use crate::sim::driver::*;
use crate::sim::world::*;
use futures::prelude::*;
use futures::stream::FusedStream;
use futures::task::{waker, Context, Poll};
use omaha_client::async_generator::{generate, GeneratorState};
use serde_json::json;
use std::cell::RefCell;
use std::pin::Pin;
use std::rc::Rc;
use std::sync::atomic::AtomicUsize;
use std::sync::Arc;
use std::task::Waker;

// ---------------------------------------------------------------------------------------------
// (a) generator programs

#[derive(Clone, Debug, PartialEq)]
enum Op {
    Yield(u32),
    YieldAll(Vec<u32>),
    SelfWake,
    Gate(usize),
    DropHandle,
    /// a yield whose future is polled once and then dropped (e.g. it lost a select against a deadline): the item is
    /// on its way and must still be delivered, in order
    YieldAbandon(u32),
    Return,
}

#[derive(Clone, Debug, PartialEq)]
enum PEv {
    Emit(u32),
    Resumed(u32),
    EmitAll(Vec<u32>),
    ResumedAll(Vec<u32>),
    GateAwait(usize),
    GateDone(usize),
    Returned(u32),
    /// yield_all pulled this item out of the caller's (lazy) iterator
    Produced(u32),
    EmitAbandoned(u32),
    // consumer side
    Taken(u32),
    Complete(u32),
    End,
    Pending,
    Release(usize),
}

#[derive(Default)]
struct PGate {
    released: bool,
    waker: Option<Waker>,
    polled: bool,
}

type PLog = Rc<RefCell<Vec<PEv>>>;
type PGates = Rc<RefCell<Vec<PGate>>>;

struct GateWait {
    gates: PGates,
    id: usize,
}
impl Future for GateWait {
    type Output = ();
    fn poll(self: Pin<&mut Self>, cx: &mut Context<'_>) -> Poll<()> {
        let mut g = self.gates.borrow_mut();
        let s = &mut g[self.id];
        if s.released {
            Poll::Ready(())
        } else {
            s.polled = true;
            s.waker = Some(cx.waker().clone());
            Poll::Pending
        }
    }
}

fn yield_once() -> impl Future<Output = ()> {
    let mut done = false;
    future::poll_fn(move |cx: &mut Context<'_>| {
        if !done {
            done = true;
            cx.waker().wake_by_ref();
            Poll::Pending
        } else {
            Poll::Ready(())
        }
    })
}

fn gen_program(rng: &mut Rng) -> (Vec<Op>, usize) {
    let len = 1 + rng.usize(14);
    let mut ops = vec![];
    let mut next_id = 1u32;
    let mut gates = 0usize;
    let mut abandoned_once = false;
    for _ in 0..len {
        ops.push(match rng.below(10) {
            0..=3 => {
                next_id += 1;
                Op::Yield(next_id - 1)
            }
            4 | 5 => {
                let k = if rng.chance(1, 4) { 4 + rng.usize(6) } else { rng.usize(4) };
                let ids: Vec<u32> = (0..k as u32).map(|j| next_id + j).collect();
                next_id += k as u32;
                Op::YieldAll(ids)
            }
            6 => {
                // at most one per program: its first poll finds the channel slot free (every earlier yield was awaited
                // to completion), so the item is on its way when the future is dropped
                if rng.chance(1, 3) && !abandoned_once {
                    abandoned_once = true;
                    next_id += 1;
                    Op::YieldAbandon(next_id - 1)
                } else {
                    Op::SelfWake
                }
            }
            7 | 8 => {
                gates += 1;
                Op::Gate(gates - 1)
            }
            _ => {
                if rng.chance(1, 3) {
                    Op::DropHandle
                } else {
                    Op::SelfWake
                }
            }
        });
    }
    if rng.chance(1, 5) {
        let pos = rng.usize(ops.len());
        ops.insert(pos, Op::Return);
    }
    (ops, gates)
}

fn prog_label(ops: &[Op]) -> String {
    ops.iter()
        .map(|o| match o {
            Op::Yield(_) => "y".to_string(),
            Op::YieldAbandon(_) => "x".to_string(),
            Op::YieldAll(v) => format!("a{}", v.len()),
            Op::SelfWake => "w".into(),
            Op::Gate(_) => "g".into(),
            Op::DropHandle => "d".into(),
            Op::Return => "r".into(),
        })
        .collect()
}

/// Run one program under one consumer schedule; returns the merged log and findings.
fn run_program(ops: &[Op], n_gates: usize, mode: u64, variant: u64, rng: &mut Rng, ask_terminated: bool) -> (Vec<PEv>, Vec<(String, String)>) {
    let log: PLog = Rc::new(RefCell::new(vec![]));
    let gates: PGates = Rc::new(RefCell::new((0..n_gates).map(|_| PGate::default()).collect()));
    let ret_val = 7000 + ops.len() as u32;
    let mut viol: Vec<(String, String)> = vec![];
    let ops_c = ops.to_vec();
    let (l2, g2) = (log.clone(), gates.clone());
    let gen = generate(move |co| async move {
        let mut co = Some(co);
        for op in ops_c {
            match op {
                Op::Yield(id) => {
                    if let Some(c) = co.as_mut() {
                        l2.borrow_mut().push(PEv::Emit(id));
                        c.yield_(id).await;
                        l2.borrow_mut().push(PEv::Resumed(id));
                    }
                }
                Op::YieldAll(ids) => {
                    if let Some(c) = co.as_mut() {
                        l2.borrow_mut().push(PEv::EmitAll(ids.clone()));
                        // a lazy iterator with a visible side effect per item
                        let l3 = l2.clone();
                        let lazy = ids.clone().into_iter().map(move |id| {
                            l3.borrow_mut().push(PEv::Produced(id));
                            id
                        });
                        c.yield_all(lazy).await;
                        l2.borrow_mut().push(PEv::ResumedAll(ids));
                    }
                }
                Op::YieldAbandon(id) => {
                    if let Some(c) = co.as_mut() {
                        l2.borrow_mut().push(PEv::EmitAbandoned(id));
                        let mut f = Box::pin(c.yield_(id));
                        let _ = futures::poll!(f.as_mut());
                        drop(f);
                    }
                }
                Op::SelfWake => yield_once().await,
                Op::Gate(g) => {
                    l2.borrow_mut().push(PEv::GateAwait(g));
                    GateWait { gates: g2.clone(), id: g }.await;
                    l2.borrow_mut().push(PEv::GateDone(g));
                }
                Op::DropHandle => co = None,
                Op::Return => {
                    l2.borrow_mut().push(PEv::Returned(ret_val + 1));
                    return ret_val + 1;
                }
            }
        }
        l2.borrow_mut().push(PEv::Returned(ret_val));
        ret_val
    });
    // expected yields: everything before DropHandle / Return
    let mut expected: Vec<u32> = vec![];
    let mut expect_ret = ret_val;
    let mut dropped = false;
    for op in ops {
        match op {
            Op::Yield(id) | Op::YieldAbandon(id) if !dropped => expected.push(*id),
            Op::YieldAll(ids) if !dropped => expected.extend(ids.iter().copied()),
            Op::DropHandle => dropped = true,
            Op::Return => {
                expect_ret = ret_val + 1;
                break;
            }
            _ => {}
        }
    }
    let root = Arc::new(WakeCounter(AtomicUsize::new(1)));
    let mut seen = 0usize;
    let mut ended = false;
    let mut taken: Vec<u32> = vec![];
    let mut completes: Vec<u32> = vec![];
    let mut polls_after_end = 0;
    let mut steps = 0;
    // a consumer that just received an item polls again without waiting for a wake-up
    let mut poll_again = true;
    let mut last_pending = false;
    // variant 0: the raw Generator stream; 1: into_yielded-like filter is exercised separately below
    let mut gen = Box::pin(gen);
    let _ = variant;
    loop {
        steps += 1;
        if steps > 400 {
            viol.push(("c13a-bounded-progress".into(), format!("program {:?} did not finish within 400 driver steps", prog_label(ops))));
            break;
        }
        let woken = root.count() != seen || poll_again;
        let may_poll = match mode {
            0 => woken || !last_pending || rng.chance(1, 2), // eager: also polls when not woken
            1 => woken,                                      // strict-wake
            _ => woken || rng.chance(1, 3),                  // hostile: spurious polls, lagging consumer
        };
        let lag = mode == 2 && woken && rng.chance(1, 3);
        if may_poll && !lag {
            seen = root.count();
            poll_again = false;
            last_pending = false;
            // (the Miri layer of this check runs with the aliasing model switched off, see DESIGN §13)
            let term_before = ask_terminated && gen.is_terminated();
            let wk = waker(root.clone());
            let mut cx = Context::from_waker(&wk);
            let res = guard(|| gen.as_mut().poll_next(&mut cx));
            match res {
                Err(p) => {
                    viol.push(("c13a-no-panic".into(), format!("poll_next panicked: {} at {} (after end: {})", p.msg, p.site(), ended)));
                    break;
                }
                Ok(Poll::Ready(Some(GeneratorState::Yielded(id)))) => {
                    log.borrow_mut().push(PEv::Taken(id));
                    taken.push(id);
                    poll_again = true;
                    if term_before {
                        viol.push(("c13a-is-terminated-consistent".into(), "is_terminated() was true but an item followed".into()));
                    }
                    if ended || !completes.is_empty() {
                        viol.push(("c13a-complete-last".into(), format!("item {} delivered after completion", id)));
                    }
                }
                Ok(Poll::Ready(Some(GeneratorState::Complete(r)))) => {
                    log.borrow_mut().push(PEv::Complete(r));
                    completes.push(r);
                    poll_again = true;
                    if term_before {
                        viol.push(("c13a-is-terminated-consistent".into(), "is_terminated() was true but Complete followed".into()));
                    }
                }
                Ok(Poll::Ready(None)) => {
                    log.borrow_mut().push(PEv::End);
                    if ended {
                        polls_after_end += 1;
                        if polls_after_end >= 3 {
                            break;
                        }
                    }
                    ended = true;
                }
                Ok(Poll::Pending) => {
                    log.borrow_mut().push(PEv::Pending);
                    last_pending = true;
                    if term_before {
                        viol.push(("c13a-is-terminated-consistent".into(), "is_terminated() was true but the stream was Pending".into()));
                    }
                    if ended {
                        viol.push(("c13a-end-is-final".into(), "Pending after the stream had ended".into()));
                        break;
                    }
                }
            }
            continue;
        }
        if ended {
            // keep polling a finished stream a few times (must stay None, must not panic)
            poll_again = true;
            continue;
        }
        // not polling: release a gate the program is (or will be) waiting on
        let pending: Vec<usize> = gates.borrow().iter().enumerate().filter(|(_, g)| !g.released).map(|(i, _)| i).collect();
        let waiting: Vec<usize> = pending.iter().copied().filter(|i| gates.borrow()[*i].polled).collect();
        if !waiting.is_empty() {
            let g = waiting[rng.usize(waiting.len())];
            let before = root.count();
            let wk = {
                let mut gs = gates.borrow_mut();
                gs[g].released = true;
                gs[g].waker.take()
            };
            log.borrow_mut().push(PEv::Release(g));
            if let Some(wk) = wk {
                wk.wake();
            }
            if root.count() == before {
                viol.push(("c13a-gate-completion-wakes-stream".into(), format!("gate {} completed but the stream's task was not woken", g)));
                break;
            }
        } else if !woken {
            if mode == 2 && rng.chance(1, 2) {
                continue; // hostile mode will poll spuriously later
            }
            if mode == 0 {
                continue;
            }
            viol.push(("c13a-no-stall".into(), format!("strict-wake consumer: nothing woken, no gate awaited, stream not ended (program {})", prog_label(ops))));
            break;
        }
    }
    // ---- oracle over the merged log
    if taken != expected {
        viol.push(("c13a-items-in-order-exactly-once".into(), format!("taken {:?} != emitted {:?}", taken, expected)));
    }
    if steps <= 400 && viol.is_empty() {
        if completes != vec![expect_ret] {
            viol.push(("c13a-exactly-one-complete".into(), format!("completions {:?}, expected [{}]", completes, expect_ret)));
        }
        if !ended {
            viol.push(("c13a-ends-with-none".into(), "stream never returned None".into()));
        }
    }
    // producer never ahead: Resumed(id) only after Taken(id); ResumedAll after all Taken
    let l = log.borrow();
    for (i, e) in l.iter().enumerate() {
        match e {
            PEv::Resumed(id) => {
                if !l[..i].iter().any(|x| *x == PEv::Taken(*id)) {
                    viol.push(("c13a-producer-not-ahead".into(), format!("producer resumed after yielding {} before the consumer took it", id)));
                }
            }
            PEv::EmitAll(ids) => {
                // the batch is pulled from the caller's iterator lazily: never more than two items ahead of what
                // the consumer has taken (one in the channel slot, one held by the forwarding loop)
                let end = l[i + 1..].iter().position(|x| matches!(x, PEv::ResumedAll(_))).map(|j| i + 1 + j).unwrap_or(l.len());
                let (mut produced, mut taken_n) = (0usize, 0usize);
                for x in &l[i + 1..end] {
                    match x {
                        PEv::Produced(id) if ids.contains(id) => {
                            produced += 1;
                            if produced > taken_n + 2 {
                                viol.push(("c13a-producer-not-ahead".into(), format!("yield_all pulled item {} (#{} of its batch) out of the iterator while the consumer had taken only {}", id, produced, taken_n)));
                                break;
                            }
                        }
                        PEv::Taken(id) if ids.contains(id) => taken_n += 1,
                        _ => {}
                    }
                }
            }
            PEv::ResumedAll(ids) => {
                for id in ids {
                    if !l[..i].iter().any(|x| *x == PEv::Taken(*id)) {
                        viol.push(("c13a-producer-not-ahead".into(), format!("yield_all resumed before the consumer took {}", id)));
                    }
                }
            }
            PEv::Emit(id) => {
                // nothing of the program runs between Emit(id) and Taken(id)
                if let Some(j) = l[i + 1..].iter().position(|x| *x == PEv::Taken(*id)) {
                    if l[i + 1..i + 1 + j].iter().any(|x| matches!(x, PEv::Emit(_) | PEv::EmitAll(_) | PEv::GateAwait(_) | PEv::Returned(_))) {
                        viol.push(("c13a-producer-not-ahead".into(), format!("producer ran past the yield of {} before it was taken", id)));
                    }
                }
            }
            _ => {}
        }
    }
    let out = l.clone();
    (out, viol)
}

pub fn run(args: &Args, r: &mut Report) {
    r.rule_text = "(a) random generator programs (length <= 15) over {yield unique id, yield_all of 0..3 ids, self-wake-and-pend, wait on an \
        external gate, drop the yield handle, early return} run against async_generator::generate under three consumer schedules \
        (eager: polls even when not woken; strict-wake: polls only when the root waker fired; hostile: spurious polls and a lagging \
        consumer), gates released in seeded order; producer and consumer log into one sequence.  (b) the state machine with every \
        environment future gated (timers, HTTP, policy, plan, install steps, reboot) under the hostile scheduler (random release \
        order, several releases before one poll, spurious polls) in strict-wake mode; log-order rules: after a positive check \
        decision / approved plan / computed schedule / reboot-needed / parsed response the matching event is taken before the next \
        boundary call; progress values arrive in order and completely before the install outcome is used; every gate release wakes \
        the root task.  Shape key = program skeleton + mode (a) / history + gating mask (b)."
        .into();
    r.require(&[
        "c13a-program-ran",
        "c13-event-taken-before-following-call",
        "c13-no-shared-lock-held-across-emission",
        "c13-progress-in-order",
        "c13-all-progress-before-outcome",
        "c13-gate-release-wakes-root",
        "c13-no-stall",
    ]);
    r.assume("how far the installer may run ahead of the observer between two progress values is not part of the statement");
    let miri = args.layer == "miri";
    // ---- (a)
    let n = if miri { 150 } else { args.budget(200_000, 2_000_000) };
    for i in 0..n {
        if args.skip(i) {
            continue;
        }
        let mut rng = Rng::derive(args.seed, args.shard, 13, i);
        let (ops, n_gates) = gen_program(&mut rng);
        let mode = i % 3;
        let (plog, viol) = run_program(&ops, n_gates, mode, 0, &mut rng, true);
        let label = prog_label(&ops);
        r.eval(crate::common::shape_of(&["prog", &label, &format!("m{}", mode)]), ops.len() > 1);
        r.hit("c13a-program-ran");
        let mut f = crate::common::Fnv::new();
        for e in &plog {
            f.str(match e {
                PEv::Taken(_) => "T",
                PEv::Pending => "P",
                PEv::Release(_) => "R",
                PEv::Complete(_) => "C",
                PEv::End => "E",
                _ => "p",
            });
        }
        r.interleavings.insert(f.finish());
        if r.want_sample() && i % 997 == 5 {
            r.sample(json!({"program": format!("{:?}", ops), "mode": (["eager", "strict-wake", "hostile"][mode as usize]), "merged_log": format!("{:?}", plog)}));
        }
        for (rule, detail) in viol {
            let mut rp = args.case_replay(i);
            rp["program"] = json!(format!("{:?}", ops));
            rp["log"] = json!(format!("{:?}", plog));
            r.violation(&rule, &rule, format!("{} (program {}, mode {})", detail, label, mode), rp);
        }
    }
    // ---- (b)
    let nb = if miri { 8 } else { args.budget(30_000, 300_000) };
    for j in 0..nb {
        let i = 30_000_000 + j;
        if args.skip(i) {
            continue;
        }
        let mut rng = Rng::derive(args.seed, args.shard, 1313, j);
        let start_mode = rng.chance(3, 4);
        let len = if start_mode { 1 + rng.usize(if miri { 1 } else { 3 }) } else { 1 };
        let mut paths: Vec<Path> = (0..len).map(|_| *rng.pick(&ALL_PATHS)).collect();
        if rng.bool() {
            paths[0] = Path::Install;
        }
        let cfg = HistCfg { start_mode, cup: false, n_apps: 1 + rng.usize(2), paths, cohorts: false, deliveries: rng.bool(), random_params: false, throttles: rng.bool() };
        let mut case = gen_history(&mut rng, &cfg);
        let apps = case.setup.apps.clone();
        for c in case.script.checks.iter_mut() {
            if !c.results.is_empty() {
                // monotone but with repeats (a stalled download re-reports its value; 1.0 twice)
                let mut v = 0.0f32;
                c.progress = (0..rng.usize(7))
                    .map(|_| {
                        if !rng.chance(1, 3) {
                            v = (v + 0.125 * (1 + rng.below(3)) as f32).min(1.0);
                        }
                        v
                    })
                    .collect();
                c.detach_last_progress = rng.chance(1, 3);
                c.detach_all_progress = rng.chance(1, 5);
            }
        }
        let l = add_reboot_waits(&mut case.script, &mut rng, false, &apps);
        case.script.gated = GateCfg { policy: rng.bool(), plan: rng.bool(), install: rng.bool(), reboot: rng.bool() };
        case.shape.push(l);
        case.shape.push(format!("{:?}", case.script.gated));
        case.max_steps = 10_000;
        case.nontrivial = true;
        let h = Hostile { ctl_budget: if start_mode { rng.usize(3) } else { 0 }, ctl_num: 1, ctl_den: 8, spurious: rng.bool(), multi_release: rng.bool(), lag: rng.bool() };
        let run = run_hostile(&case, &mut rng, &h);
        r.eval(case.shape_key(), true);
        r.interleavings.insert(run.sig);
        let mut m = Mon::default();
        {
            let g = lock(&run.w);
            mon_c13_flow(&g.log, &mut m);
            let releases = g.log.iter().filter(|x| matches!(x.ev, Ev::GateRelease { had_waker: true, .. })).count() as u64;
            m.hits.insert("c13-gate-release-wakes-root".into(), releases);
        }
        for lw in &run.lost_wakes {
            m.fail("c13-gate-release-wakes-root", "", lw.clone());
        }
        // strict-wake stall: blocked with nothing to release although the history is not finished
        let unfinished = run.flow.checks.iter().any(|c| !c.complete);
        m.judge("c13-no-stall", !(run.end == RunEnd::Blocked && (unfinished || run.flow.checks.is_empty())) && run.end != RunEnd::OutOfSteps, &format!("{:?}", run.end), || {
            format!("run ended {:?} with unfinished checks={} (strict-wake: the stream is only polled when its waker fired)", run.end, unfinished)
        });
        if let Some(p) = &run.panicked {
            report_panic(r, args, i, p, &run.w, case_desc(&case));
        }
        absorb(r, args, i, m, &run.w, case_desc(&case));
    }
}
