//! C16 — Response parser is total and faithful.
//!
//! Independent side: a grammar generator of Omaha v3 response documents that produces the
//! expected field tree (plain structs below) together with the document text written by an own
//! JSON serializer (own escaping, whitespace, member order).  The library side is
//! `omaha_client::protocol::response::parse_json_response`.

use crate::common::{guard, hex, shape_of, show_bytes, Args, Fnv, PanicInfo, Report, Rng};
use omaha_client::protocol::response::{parse_json_response, OmahaStatus, Response};
use serde_json::{json, Map, Value};
use std::collections::BTreeMap;

const R_FAITH: &str = "faithful-fields";
const R_STATUS: &str = "status-mapping";
const R_COHORT: &str = "cohort-absent-vs-empty";
const R_EXT: &str = "extensions-preserved";
const R_SIZE: &str = "size-u64-range";
const R_URLS: &str = "full-urls";
const R_XSSI: &str = "xssi-prefix";
const R_MISSING: &str = "reject-missing-required";
const R_TYPE: &str = "reject-wrong-type";
const R_RANDOM: &str = "total-random-bytes";
const R_TRUNC: &str = "total-truncations";
const R_FLIP: &str = "total-bitflips";
const R_DEEP: &str = "total-deep-nesting";

const XSSI: &[u8] = b")]}'\n";

/// An object given as a JSON array of its member values ("positional" form) is a wrongly typed
/// field under the statement; serde-derived structs happen to accept it.  Checked under its own
/// signature `reject-wrong-type <field>:positional-array`.
const CHECK_POSITIONAL_ARRAY: bool = true;

const S_DOC: u64 = 0x1601;
const S_PROBE: u64 = 0x1602;
const S_DEEP: u64 = 0x1603;
const S_BYTES: u64 = 0x1604;
const S_TRUNC: u64 = 0x1605;
const S_FLIP: u64 = 0x1606;
const S_SPECIAL: u64 = 0x1607;

// ---------------------------------------------------------------------------------------------
// Own JSON model + serializer (the independent side; never touches serde_json)

#[derive(Clone, Debug, PartialEq)]
enum J {
    Null,
    Bool(bool),
    U(u64),
    I(i64),
    /// literal token text (used only for deliberately odd numbers)
    Raw(String),
    Str(String),
    Arr(Vec<J>),
    Obj(Vec<(String, J)>),
}

#[derive(Clone, Copy, Debug)]
struct Style {
    ws: u8,
    esc: u8,
    shuffle: bool,
    esc_keys: bool,
    lead_ws: bool,
    trail_ws: bool,
}

impl Style {
    fn compact() -> Style {
        Style { ws: 0, esc: 0, shuffle: false, esc_keys: false, lead_ws: false, trail_ws: false }
    }
    fn gen(rng: &mut Rng) -> Style {
        Style {
            ws: rng.below(3) as u8,
            esc: rng.below(3) as u8,
            shuffle: rng.chance(3, 4),
            esc_keys: rng.chance(1, 4),
            lead_ws: rng.chance(1, 4),
            trail_ws: rng.chance(1, 4),
        }
    }
    fn tag(&self) -> String {
        format!(
            "w{}e{}s{}k{}l{}t{}",
            self.ws, self.esc, self.shuffle as u8, self.esc_keys as u8, self.lead_ws as u8, self.trail_ws as u8
        )
    }
}

fn put_ws(rng: &mut Rng, st: &Style, out: &mut String) {
    match st.ws {
        0 => {}
        1 => {
            if rng.chance(1, 3) {
                out.push(' ')
            }
        }
        _ => {
            for _ in 0..rng.below(4) {
                out.push(*rng.pick(&[' ', '\t', '\n', '\r']));
            }
        }
    }
}

fn put_u(cp: u32, rng: &mut Rng, out: &mut String) {
    out.push_str("\\u");
    for sh in [12u32, 8, 4, 0] {
        let d = (cp >> sh) & 0xf;
        let c = std::char::from_digit(d, 16).unwrap();
        out.push(if rng.bool() { c.to_ascii_uppercase() } else { c });
    }
}

fn put_str(s: &str, rng: &mut Rng, esc: u8, out: &mut String) {
    out.push('"');
    for c in s.chars() {
        let cp = c as u32;
        let must = c == '"' || c == '\\' || cp < 0x20;
        let want_u = match esc {
            0 => false,
            1 => rng.chance(1, 5),
            _ => rng.chance(9, 10),
        };
        if must {
            let short = match c {
                '"' => Some("\\\""),
                '\\' => Some("\\\\"),
                '\u{8}' => Some("\\b"),
                '\u{c}' => Some("\\f"),
                '\n' => Some("\\n"),
                '\r' => Some("\\r"),
                '\t' => Some("\\t"),
                _ => None,
            };
            match short {
                Some(x) if !want_u => out.push_str(x),
                _ => put_u(cp, rng, out),
            }
        } else if want_u {
            if cp > 0xffff {
                let v = cp - 0x10000;
                put_u(0xd800 + (v >> 10), rng, out);
                put_u(0xdc00 + (v & 0x3ff), rng, out);
            } else {
                put_u(cp, rng, out);
            }
        } else if c == '/' && esc > 0 && rng.chance(1, 3) {
            out.push_str("\\/");
        } else {
            out.push(c);
        }
    }
    out.push('"');
}

fn ser(j: &J, rng: &mut Rng, st: &Style, out: &mut String) {
    match j {
        J::Null => out.push_str("null"),
        J::Bool(b) => out.push_str(if *b { "true" } else { "false" }),
        J::U(u) => out.push_str(&u.to_string()),
        J::I(i) => out.push_str(&i.to_string()),
        J::Raw(s) => out.push_str(s),
        J::Str(s) => put_str(s, rng, st.esc, out),
        J::Arr(v) => {
            out.push('[');
            put_ws(rng, st, out);
            for (i, e) in v.iter().enumerate() {
                if i > 0 {
                    out.push(',');
                    put_ws(rng, st, out);
                }
                ser(e, rng, st, out);
                put_ws(rng, st, out);
            }
            out.push(']');
        }
        J::Obj(m) => {
            let mut order: Vec<usize> = (0..m.len()).collect();
            if st.shuffle {
                rng.shuffle(&mut order);
            }
            out.push('{');
            put_ws(rng, st, out);
            for (n, i) in order.iter().enumerate() {
                if n > 0 {
                    out.push(',');
                    put_ws(rng, st, out);
                }
                let (k, v) = &m[*i];
                put_str(k, rng, if st.esc_keys { st.esc } else { 0 }, out);
                put_ws(rng, st, out);
                out.push(':');
                put_ws(rng, st, out);
                ser(v, rng, st, out);
                put_ws(rng, st, out);
            }
            out.push('}');
        }
    }
}

fn serialize(j: &J, rng: &mut Rng, st: &Style) -> String {
    let mut out = String::new();
    if st.lead_ws {
        for _ in 0..1 + rng.below(3) {
            out.push(*rng.pick(&[' ', '\t', '\n', '\r']));
        }
    }
    ser(j, rng, st, &mut out);
    if st.trail_ws {
        for _ in 0..1 + rng.below(3) {
            out.push(*rng.pick(&[' ', '\t', '\n', '\r']));
        }
    }
    out
}

/// Expected extension value as a serde_json::Value (only a container for comparison).
fn to_value(j: &J) -> Value {
    match j {
        J::Null => Value::Null,
        J::Bool(b) => Value::Bool(*b),
        J::U(u) => Value::Number((*u).into()),
        J::I(i) => Value::Number((*i).into()),
        J::Raw(s) => Value::String(format!("<raw {}>", s)),
        J::Str(s) => Value::String(s.clone()),
        J::Arr(v) => Value::Array(v.iter().map(to_value).collect()),
        J::Obj(m) => {
            let mut o = Map::new();
            for (k, v) in m {
                o.insert(k.clone(), to_value(v));
            }
            Value::Object(o)
        }
    }
}

fn j_kind(j: &J) -> &'static str {
    match j {
        J::Null => "null",
        J::Bool(_) => "bool",
        J::U(_) => "uint",
        J::I(_) => "negint",
        J::Raw(_) => "raw",
        J::Str(_) => "string",
        J::Arr(_) => "array",
        J::Obj(_) => "object",
    }
}

// ---------------------------------------------------------------------------------------------
// Expected field tree

#[derive(Clone, Debug)]
struct ExpResponse {
    protocol: String,
    server: Option<String>,
    daystart: Option<ExpDayStart>,
    apps: Vec<ExpApp>,
}
#[derive(Clone, Debug)]
struct ExpDayStart {
    elapsed_days: Option<u32>,
    elapsed_seconds: Option<u32>,
}
#[derive(Clone, Debug)]
struct ExpApp {
    appid: String,
    status: String,
    /// cohort, cohorthint, cohortname
    cohort: [Option<String>; 3],
    ping: Option<String>,
    uc: Option<ExpUc>,
    events: Option<Vec<String>>,
    ext: Vec<(String, J)>,
}
#[derive(Clone, Debug)]
struct ExpUc {
    status: String,
    info: Option<String>,
    urls: Option<Vec<String>>,
    manifest: Option<ExpManifest>,
    ext: Vec<(String, J)>,
}
#[derive(Clone, Debug)]
struct ExpManifest {
    version: String,
    actions: Vec<ExpAction>,
    packages: Vec<ExpPackage>,
}
#[derive(Clone, Debug)]
struct ExpAction {
    event: Option<String>,
    run: Option<String>,
    ext: Vec<(String, J)>,
}
#[derive(Clone, Debug)]
struct ExpPackage {
    name: String,
    required: bool,
    size: Option<u64>,
    hash: Option<String>,
    hash_sha256: Option<String>,
    fp: String,
    ext: Vec<(String, J)>,
}

#[derive(Debug, PartialEq)]
enum ES {
    Ok,
    Restricted,
    NoUpdate,
    Error(String),
}

/// The status mapping of the statement: exact, case-sensitive.
fn exp_status(s: &str) -> ES {
    if s == "ok" {
        ES::Ok
    } else if s == "restricted" {
        ES::Restricted
    } else if s == "noupdate" {
        ES::NoUpdate
    } else {
        ES::Error(s.to_string())
    }
}
fn es_debug(e: &ES) -> String {
    match e {
        ES::Ok => "Ok".into(),
        ES::Restricted => "Restricted".into(),
        ES::NoUpdate => "NoUpdate".into(),
        ES::Error(s) => format!("Error({:?})", s),
    }
}
fn status_class(s: &str) -> &'static str {
    let l = s.to_lowercase();
    if s == "ok" {
        "ok"
    } else if s == "restricted" {
        "restricted"
    } else if s == "noupdate" {
        "noupdate"
    } else if s.is_empty() {
        "empty"
    } else if l.trim() == "ok" || l.trim() == "restricted" || l.trim() == "noupdate" {
        "near-variant"
    } else if s.starts_with("error") {
        "error-prefixed"
    } else {
        "other"
    }
}
fn status_matches(text: &str, got: &OmahaStatus) -> bool {
    match (exp_status(text), got) {
        (ES::Ok, OmahaStatus::Ok) => true,
        (ES::Restricted, OmahaStatus::Restricted) => true,
        (ES::NoUpdate, OmahaStatus::NoUpdate) => true,
        (ES::Error(a), OmahaStatus::Error(b)) => a == *b,
        _ => false,
    }
}

fn size_class(s: Option<u64>) -> &'static str {
    match s {
        None => "absent",
        Some(0) => "0",
        Some(v) if v < u32::MAX as u64 => "<u32max",
        Some(v) if v == u32::MAX as u64 => "u32max",
        Some(v) if v == 1 << 32 => "2^32",
        Some(v) if v <= 1 << 53 => ">u32",
        Some(v) if v == (1 << 53) + 1 => "2^53+1",
        Some(v) if v < 1 << 63 => ">2^53",
        Some(v) if v == 1 << 63 => "2^63",
        Some(u64::MAX) => "u64max",
        Some(_) => ">2^63",
    }
}

const SIZE_VALUES: &[u64] = &[
    0,
    1,
    424242,
    (1 << 31) - 1,
    1 << 31,
    u32::MAX as u64 - 1,
    u32::MAX as u64,
    1 << 32,
    (1 << 32) + 1,
    (1 << 53) - 1,
    1 << 53,
    (1 << 53) + 1,
    (1 << 63) - 1,
    1 << 63,
    (1 << 63) + 1,
    u64::MAX - 1,
    u64::MAX,
];

const STATUS_POOL: &[&str] = &[
    "ok",
    "restricted",
    "noupdate",
    "error-unknownApplication",
    "error-invalidAppId",
    "error-hash",
    "error-osnotsupported",
    "error-hwnotsupported",
    "error-internal",
    "error-version",
    "",
    "OK",
    "Ok",
    "oK",
    "NoUpdate",
    "NOUPDATE",
    "Restricted",
    " ok",
    "ok ",
    "ok\n",
    "no-update",
    "no_update",
    "noupdate2",
    "Error",
    "error",
    "Error(\"x\")",
    "okay",
    "o",
    "\u{0}ok",
    "ок",
];

const APP_KNOWN: &[&str] = &["appid", "status", "cohort", "cohorthint", "cohortname", "ping", "updatecheck", "event"];
const UC_KNOWN: &[&str] = &["status", "info", "urls", "manifest"];
const ACTION_KNOWN: &[&str] = &["event", "run"];
const PKG_KNOWN: &[&str] = &["name", "required", "size", "hash", "hash_sha256", "fp"];

const EXT_KEYS: &[&str] = &[
    "_urgent_update",
    "realm_id",
    "tttoken",
    "cohort",
    "cohorthint",
    "status",
    "name",
    "x",
    "",
    "Status",
    "APPID",
    "appId",
    "elapsed_days",
    "extra_attributes",
    "id",
    "fingerprint",
    "update_check",
    "events",
    "protocol_version",
    "__other",
    "data",
    "arguments",
    "successsaction",
    "hash_sha-256",
    "size ",
    "fp\u{0}",
    "ключ",
    "🔑",
];

// ---------------------------------------------------------------------------------------------
// Generators

const ASCII: &[u8] = b"abcdefghijklmnopqrstuvwxyzABCDEFGHIJKLMNOPQRSTUVWXYZ0123456789-_.:{} =+&%#@!?,;'()[]<>|~^`$*";
const SPECIAL: &[char] = &[
    '"', '\\', '/', '\u{0}', '\u{1}', '\u{8}', '\u{c}', '\n', '\r', '\t', '\u{1f}', '\u{7f}', '\u{80}', '\u{a0}',
];
const BMP: &[char] = &[
    'é', 'ß', 'Ω', 'ж', '中', '\u{fffd}', '\u{ffff}', '\u{d7ff}', '\u{e000}', '\u{feff}', '\u{2028}', '\u{2029}',
    '\u{7ff}', '\u{800}',
];
const ASTRAL: &[char] = &['😀', '\u{10000}', '\u{10ffff}', '𝄞', '\u{1f511}', '\u{e0001}'];

fn gen_chars(rng: &mut Rng, n: usize, mix: u8) -> String {
    let mut s = String::new();
    for _ in 0..n {
        let k = match mix {
            0 => 0,
            1 => *rng.pick(&[0u8, 1]),
            2 => *rng.pick(&[0u8, 2]),
            3 => *rng.pick(&[0u8, 3]),
            _ => rng.below(4) as u8,
        };
        s.push(match k {
            0 => *rng.pick(ASCII) as char,
            1 => *rng.pick(SPECIAL),
            2 => *rng.pick(BMP),
            _ => *rng.pick(ASTRAL),
        });
    }
    s
}

/// Long strings whose multi-byte characters straddle the usual cut-off lengths (2^k, 1000, 1024, ...).
fn gen_long_boundary_string(rng: &mut Rng) -> String {
    let edge = *rng.pick(&[16usize, 32, 64, 100, 128, 255, 256, 512, 1000, 1024, 1024, 2048]);
    let lead = edge - 1 - rng.usize(4).min(edge - 1);
    let mut s: String = std::iter::repeat(*rng.pick(ASCII) as char).take(lead).collect();
    let wide = if rng.bool() { *rng.pick(BMP) } else { *rng.pick(ASTRAL) };
    for _ in 0..2 + rng.usize(4) {
        s.push(wide);
    }
    let tail = rng.usize(20);
    s.push_str(&gen_chars(rng, tail, 0));
    s
}

fn gen_string(rng: &mut Rng) -> String {
    if rng.chance(1, 80) {
        return gen_long_boundary_string(rng);
    }
    match rng.below(12) {
        0 => String::new(),
        1..=4 => {
            let n = 1 + rng.usize(12);
            gen_chars(rng, n, 0)
        }
        5 => {
            let n = 1 + rng.usize(8);
            gen_chars(rng, n, 1)
        }
        6 => {
            let n = 1 + rng.usize(8);
            gen_chars(rng, n, 2)
        }
        7 => {
            let n = 1 + rng.usize(6);
            gen_chars(rng, n, 3)
        }
        8 => {
            let n = 1 + rng.usize(40);
            gen_chars(rng, n, 4)
        }
        9 => {
            let n = 100 + rng.usize(200);
            gen_chars(rng, n, 0)
        }
        _ => {
            let n = 1 + rng.usize(5);
            gen_chars(rng, n, 0)
        }
    }
}

fn gen_status(rng: &mut Rng) -> String {
    match rng.below(10) {
        0..=2 => "ok".into(),
        3 => "noupdate".into(),
        4 => "restricted".into(),
        5..=7 => (*rng.pick(STATUS_POOL)).to_string(),
        8 => format!("error-{}", gen_chars(rng, 6, 0)),
        _ => gen_string(rng),
    }
}

fn gen_opt_string(rng: &mut Rng) -> Option<String> {
    match rng.below(6) {
        0..=2 => None,
        3 => Some(String::new()),
        _ => Some(gen_string(rng)),
    }
}

fn gen_ext_value(rng: &mut Rng, depth: u32) -> J {
    let top = if depth >= 3 { 6 } else { 8 };
    match rng.below(top) {
        0 => J::Null,
        1 => J::Bool(rng.bool()),
        2 => J::U(if rng.bool() { *rng.pick(SIZE_VALUES) } else { rng.below(1000) }),
        3 => J::I(*rng.pick(&[-1i64, -2, -424242, i32::MIN as i64, -(1 << 53) - 1, i64::MIN + 1, i64::MIN])),
        4 | 5 => J::Str(gen_string(rng)),
        6 => {
            let n = rng.usize(4);
            J::Arr((0..n).map(|_| gen_ext_value(rng, depth + 1)).collect())
        }
        _ => {
            let n = rng.usize(4);
            let mut m: Vec<(String, J)> = vec![];
            for _ in 0..n {
                let k = if rng.bool() { (*rng.pick(EXT_KEYS)).to_string() } else { gen_string(rng) };
                if m.iter().any(|(x, _)| *x == k) {
                    continue;
                }
                let v = gen_ext_value(rng, depth + 1);
                m.push((k, v));
            }
            J::Obj(m)
        }
    }
}

fn gen_exts(rng: &mut Rng, known: &[&str]) -> Vec<(String, J)> {
    let n = match rng.below(8) {
        0..=3 => 0,
        4 | 5 => 1,
        6 => 2,
        _ => 3,
    };
    let mut m: Vec<(String, J)> = vec![];
    for _ in 0..n {
        let k = if rng.chance(2, 3) { (*rng.pick(EXT_KEYS)).to_string() } else { gen_string(rng) };
        if known.contains(&k.as_str()) || m.iter().any(|(x, _)| *x == k) {
            continue;
        }
        let v = match rng.below(4) {
            0 if k == "_urgent_update" => J::Bool(true),
            _ => gen_ext_value(rng, 0),
        };
        m.push((k, v));
    }
    m
}

fn gen_u32(rng: &mut Rng) -> Option<u32> {
    match rng.below(8) {
        0 | 1 => None,
        2 => Some(0),
        3 => Some(u32::MAX),
        4 => Some(i32::MAX as u32),
        5 => Some(1 << 31),
        _ => Some(rng.below(90_000) as u32),
    }
}

fn gen_size(rng: &mut Rng) -> Option<u64> {
    match rng.below(10) {
        0 | 1 => None,
        2..=5 => Some(*rng.pick(SIZE_VALUES)),
        6 => Some(rng.next_u64()),
        7 => Some((1u64 << 32) + rng.below(1 << 40)),
        _ => Some(rng.below(100_000_000)),
    }
}

fn gen_package(rng: &mut Rng) -> ExpPackage {
    ExpPackage {
        name: match rng.below(4) {
            0 => "package.far".into(),
            1 => format!("pkg{}", rng.below(10)),
            2 => String::new(),
            _ => gen_string(rng),
        },
        required: rng.bool(),
        size: gen_size(rng),
        hash: gen_opt_string(rng),
        hash_sha256: gen_opt_string(rng),
        fp: if rng.bool() { format!("1.{}", rng.below(1000)) } else { gen_string(rng) },
        ext: gen_exts(rng, PKG_KNOWN),
    }
}

fn gen_uc(rng: &mut Rng) -> ExpUc {
    let urls = match rng.below(4) {
        0 => None,
        _ => {
            let n = rng.usize(3);
            Some(
                (0..n)
                    .map(|_| match rng.below(4) {
                        0 => "http://url/base/".to_string(),
                        1 => format!("fuchsia-pkg://host{}/", rng.below(10)),
                        2 => String::new(),
                        _ => gen_string(rng),
                    })
                    .collect(),
            )
        }
    };
    let manifest = match rng.below(3) {
        0 => None,
        _ => {
            let na = rng.usize(3);
            let np = rng.usize(4);
            Some(ExpManifest {
                version: if rng.bool() { "1.2.3.4".into() } else { gen_string(rng) },
                actions: (0..na)
                    .map(|_| ExpAction {
                        event: match rng.below(4) {
                            0 => None,
                            1 => Some("install".into()),
                            2 => Some("postinstall".into()),
                            _ => Some(gen_string(rng)),
                        },
                        run: gen_opt_string(rng),
                        ext: gen_exts(rng, ACTION_KNOWN),
                    })
                    .collect(),
                packages: (0..np).map(|_| gen_package(rng)).collect(),
            })
        }
    };
    ExpUc { status: gen_status(rng), info: gen_opt_string(rng), urls, manifest, ext: gen_exts(rng, UC_KNOWN) }
}

fn gen_app(rng: &mut Rng) -> ExpApp {
    let mut cohort: [Option<String>; 3] = [None, None, None];
    for c in cohort.iter_mut() {
        *c = match rng.below(6) {
            0..=2 => None,
            3 => Some(String::new()),
            4 => Some((*rng.pick(&["1:1:", "stable-channel", "beta", " ", "null"])).to_string()),
            _ => Some(gen_string(rng)),
        };
    }
    ExpApp {
        appid: match rng.below(4) {
            0 => "{00000000-0000-0000-0000-000000000001}".into(),
            1 => String::new(),
            _ => gen_string(rng),
        },
        status: gen_status(rng),
        cohort,
        ping: if rng.bool() { None } else { Some(if rng.chance(2, 3) { "ok".into() } else { gen_status(rng) }) },
        uc: if rng.chance(1, 4) { None } else { Some(gen_uc(rng)) },
        events: if rng.bool() {
            None
        } else {
            let n = rng.usize(3);
            Some((0..n).map(|_| if rng.chance(2, 3) { "ok".into() } else { gen_status(rng) }).collect())
        },
        ext: gen_exts(rng, APP_KNOWN),
    }
}

fn minimal_response() -> ExpResponse {
    ExpResponse {
        protocol: "3.0".into(),
        server: None,
        daystart: None,
        apps: vec![ExpApp {
            appid: "app1".into(),
            status: "ok".into(),
            cohort: [None, None, None],
            ping: None,
            uc: Some(ExpUc { status: "noupdate".into(), info: None, urls: None, manifest: None, ext: vec![] }),
            events: None,
            ext: vec![],
        }],
    }
}

fn is_minimal(e: &ExpResponse) -> bool {
    e.protocol == "3.0"
        && e.server.is_none()
        && e.daystart.is_none()
        && e.apps.len() == 1
        && e.apps[0].status == "ok"
        && e.apps[0].cohort.iter().all(|c| c.is_none())
        && e.apps[0].ping.is_none()
        && e.apps[0].events.is_none()
        && e.apps[0].ext.is_empty()
        && matches!(&e.apps[0].uc, Some(u) if u.status == "noupdate" && u.info.is_none() && u.urls.is_none() && u.manifest.is_none() && u.ext.is_empty())
}

fn gen_response(rng: &mut Rng) -> ExpResponse {
    if rng.chance(1, 50) {
        return minimal_response();
    }
    let napps = *rng.pick(&[0usize, 1, 1, 1, 1, 1, 2, 2, 2, 3, 3]);
    ExpResponse {
        protocol: match rng.below(6) {
            0..=2 => "3.0".into(),
            3 => "3".into(),
            4 => String::new(),
            _ => gen_string(rng),
        },
        server: match rng.below(4) {
            0 => None,
            1 => Some("prod".into()),
            2 => Some(String::new()),
            _ => Some(gen_string(rng)),
        },
        daystart: if rng.chance(1, 3) {
            None
        } else {
            Some(ExpDayStart { elapsed_days: gen_u32(rng), elapsed_seconds: gen_u32(rng) })
        },
        apps: (0..napps).map(|_| gen_app(rng)).collect(),
    }
}

// ---------------------------------------------------------------------------------------------
// Expected tree -> document tree, with the list of field sites (for deletions / type swaps)

#[derive(Clone, Copy, Debug, PartialEq)]
enum K {
    Str,
    Bool,
    U64,
    U32,
    /// object whose positional form has the listed members
    Obj(&'static [&'static str]),
    /// object with extension members
    ObjExt,
    Arr,
}

#[derive(Clone, Copy, Debug, PartialEq)]
enum P {
    K(&'static str),
    I(usize),
}

#[derive(Clone, Debug)]
struct Site {
    path: Vec<P>,
    name: &'static str,
    /// required member of its object (deletion must be rejected)
    required: bool,
    /// array element (cannot be "deleted" meaningfully; null is a wrong type)
    elem: bool,
    kind: K,
}

struct B {
    sites: Vec<Site>,
    path: Vec<P>,
}

impl B {
    fn member(&mut self, obj: &mut Vec<(String, J)>, key: &'static str, name: &'static str, required: bool, kind: K, v: J) {
        let mut path = self.path.clone();
        path.push(P::K(key));
        self.sites.push(Site { path, name, required, elem: false, kind });
        obj.push((key.to_string(), v));
    }
    fn opt_str(&mut self, obj: &mut Vec<(String, J)>, key: &'static str, name: &'static str, v: &Option<String>) {
        if let Some(s) = v {
            self.member(obj, key, name, false, K::Str, J::Str(s.clone()));
        }
    }
    fn elem(&mut self, i: usize, name: &'static str, kind: K) {
        let mut path = self.path.clone();
        path.push(P::I(i));
        self.sites.push(Site { path, name, required: false, elem: true, kind });
    }
}

const F_DOC: &[&str] = &["response"];
const F_RESPONSE: &[&str] = &["protocol", "server", "daystart", "app"];
const F_DAYSTART: &[&str] = &["elapsed_days", "elapsed_seconds"];
const F_STATUS: &[&str] = &["status"];
const F_URLS: &[&str] = &["url"];
const F_URL: &[&str] = &["codebase"];
const F_MANIFEST: &[&str] = &["version", "actions", "packages"];
const F_ACTIONS: &[&str] = &["action"];
const F_PACKAGES: &[&str] = &["package"];

fn exts(obj: &mut Vec<(String, J)>, ext: &[(String, J)]) {
    for (k, v) in ext {
        obj.push((k.clone(), v.clone()));
    }
}

fn build_package(b: &mut B, p: &ExpPackage) -> J {
    let mut o = vec![];
    b.member(&mut o, "name", "package.name", true, K::Str, J::Str(p.name.clone()));
    b.member(&mut o, "required", "package.required", true, K::Bool, J::Bool(p.required));
    if let Some(s) = p.size {
        b.member(&mut o, "size", "package.size", false, K::U64, J::U(s));
    }
    b.opt_str(&mut o, "hash", "package.hash", &p.hash);
    b.opt_str(&mut o, "hash_sha256", "package.hash_sha256", &p.hash_sha256);
    b.member(&mut o, "fp", "package.fp", true, K::Str, J::Str(p.fp.clone()));
    exts(&mut o, &p.ext);
    J::Obj(o)
}

fn build_manifest(b: &mut B, m: &ExpManifest) -> J {
    let mut o = vec![];
    b.member(&mut o, "version", "manifest.version", true, K::Str, J::Str(m.version.clone()));
    // actions
    b.path.push(P::K("actions"));
    b.path.push(P::K("action"));
    let mut arr = vec![];
    for (i, a) in m.actions.iter().enumerate() {
        b.elem(i, "action[]", K::ObjExt);
        b.path.push(P::I(i));
        let mut ao = vec![];
        b.opt_str(&mut ao, "event", "action.event", &a.event);
        b.opt_str(&mut ao, "run", "action.run", &a.run);
        exts(&mut ao, &a.ext);
        b.path.pop();
        arr.push(J::Obj(ao));
    }
    b.path.pop();
    let mut actions = vec![];
    b.member(&mut actions, "action", "actions.action", true, K::Arr, J::Arr(arr));
    b.path.pop();
    b.member(&mut o, "actions", "manifest.actions", true, K::Obj(F_ACTIONS), J::Obj(actions));
    // packages
    b.path.push(P::K("packages"));
    b.path.push(P::K("package"));
    let mut arr = vec![];
    for (i, p) in m.packages.iter().enumerate() {
        b.elem(i, "package[]", K::ObjExt);
        b.path.push(P::I(i));
        arr.push(build_package(b, p));
        b.path.pop();
    }
    b.path.pop();
    let mut packages = vec![];
    b.member(&mut packages, "package", "packages.package", true, K::Arr, J::Arr(arr));
    b.path.pop();
    b.member(&mut o, "packages", "manifest.packages", true, K::Obj(F_PACKAGES), J::Obj(packages));
    J::Obj(o)
}

fn build_uc(b: &mut B, u: &ExpUc) -> J {
    let mut o = vec![];
    b.member(&mut o, "status", "updatecheck.status", true, K::Str, J::Str(u.status.clone()));
    b.opt_str(&mut o, "info", "updatecheck.info", &u.info);
    if let Some(urls) = &u.urls {
        b.path.push(P::K("urls"));
        b.path.push(P::K("url"));
        let mut arr = vec![];
        for (i, c) in urls.iter().enumerate() {
            b.elem(i, "url[]", K::Obj(F_URL));
            b.path.push(P::I(i));
            let mut uo = vec![];
            b.member(&mut uo, "codebase", "url.codebase", true, K::Str, J::Str(c.clone()));
            b.path.pop();
            arr.push(J::Obj(uo));
        }
        b.path.pop();
        let mut uo = vec![];
        b.member(&mut uo, "url", "urls.url", true, K::Arr, J::Arr(arr));
        b.path.pop();
        b.member(&mut o, "urls", "updatecheck.urls", false, K::Obj(F_URLS), J::Obj(uo));
    }
    if let Some(m) = &u.manifest {
        b.path.push(P::K("manifest"));
        let mj = build_manifest(b, m);
        b.path.pop();
        b.member(&mut o, "manifest", "updatecheck.manifest", false, K::Obj(F_MANIFEST), mj);
    }
    exts(&mut o, &u.ext);
    J::Obj(o)
}

fn build_app(b: &mut B, a: &ExpApp) -> J {
    let mut o = vec![];
    b.member(&mut o, "appid", "app.appid", true, K::Str, J::Str(a.appid.clone()));
    b.member(&mut o, "status", "app.status", true, K::Str, J::Str(a.status.clone()));
    b.opt_str(&mut o, "cohort", "app.cohort", &a.cohort[0]);
    b.opt_str(&mut o, "cohorthint", "app.cohorthint", &a.cohort[1]);
    b.opt_str(&mut o, "cohortname", "app.cohortname", &a.cohort[2]);
    if let Some(p) = &a.ping {
        b.path.push(P::K("ping"));
        let mut po = vec![];
        b.member(&mut po, "status", "ping.status", true, K::Str, J::Str(p.clone()));
        b.path.pop();
        b.member(&mut o, "ping", "app.ping", false, K::Obj(F_STATUS), J::Obj(po));
    }
    if let Some(u) = &a.uc {
        b.path.push(P::K("updatecheck"));
        let uj = build_uc(b, u);
        b.path.pop();
        b.member(&mut o, "updatecheck", "app.updatecheck", false, K::ObjExt, uj);
    }
    if let Some(ev) = &a.events {
        b.path.push(P::K("event"));
        let mut arr = vec![];
        for (i, s) in ev.iter().enumerate() {
            b.elem(i, "event[]", K::Obj(F_STATUS));
            b.path.push(P::I(i));
            let mut eo = vec![];
            b.member(&mut eo, "status", "event.status", true, K::Str, J::Str(s.clone()));
            b.path.pop();
            arr.push(J::Obj(eo));
        }
        b.path.pop();
        b.member(&mut o, "event", "app.event", false, K::Arr, J::Arr(arr));
    }
    exts(&mut o, &a.ext);
    J::Obj(o)
}

fn build(e: &ExpResponse) -> (J, Vec<Site>) {
    let mut b = B { sites: vec![], path: vec![] };
    b.sites.push(Site { path: vec![], name: "document", required: false, elem: true, kind: K::Obj(F_DOC) });
    b.path.push(P::K("response"));
    let mut o = vec![];
    b.member(&mut o, "protocol", "response.protocol", true, K::Str, J::Str(e.protocol.clone()));
    b.opt_str(&mut o, "server", "response.server", &e.server);
    if let Some(d) = &e.daystart {
        b.path.push(P::K("daystart"));
        let mut dobj = vec![];
        if let Some(v) = d.elapsed_days {
            b.member(&mut dobj, "elapsed_days", "daystart.elapsed_days", false, K::U32, J::U(v as u64));
        }
        if let Some(v) = d.elapsed_seconds {
            b.member(&mut dobj, "elapsed_seconds", "daystart.elapsed_seconds", false, K::U32, J::U(v as u64));
        }
        b.path.pop();
        b.member(&mut o, "daystart", "response.daystart", false, K::Obj(F_DAYSTART), J::Obj(dobj));
    }
    b.path.push(P::K("app"));
    let mut arr = vec![];
    for (i, a) in e.apps.iter().enumerate() {
        b.elem(i, "app[]", K::ObjExt);
        b.path.push(P::I(i));
        arr.push(build_app(&mut b, a));
        b.path.pop();
    }
    b.path.pop();
    b.member(&mut o, "app", "response.app", true, K::Arr, J::Arr(arr));
    b.path.pop();
    let mut top = vec![];
    b.member(&mut top, "response", "response", true, K::Obj(F_RESPONSE), J::Obj(o));
    (J::Obj(top), b.sites)
}

/// Add unknown members (any JSON kind) to the objects that are NOT extension points — the document itself,
/// response, daystart, ping, event[], urls, url[], manifest, actions, packages — each with chance 1/3.
/// `ctx` names the kind of object `j` is; recursion follows the protocol's own member names only.
fn add_ignored(j: &mut J, rng: &mut Rng, ctx: &'static str) {
    const UNKNOWN_KEYS: [&str; 6] = ["_x", "zz_future", "X-Debug", "_server_tz", "id", "elapsed"];
    match j {
        J::Arr(v) => {
            for x in v.iter_mut() {
                add_ignored(x, rng, ctx);
            }
        }
        J::Obj(m) => {
            let child = |k: &str| -> Option<&'static str> {
                match (ctx, k) {
                    ("doc", "response") => Some("response"),
                    ("response", "daystart") => Some("daystart"),
                    ("response", "app") => Some("app"),
                    ("app", "ping") => Some("ping"),
                    ("app", "event") => Some("event"),
                    ("app", "updatecheck") => Some("uc"),
                    ("uc", "urls") => Some("urls"),
                    ("urls", "url") => Some("urlitem"),
                    ("uc", "manifest") => Some("manifest"),
                    ("manifest", "actions") => Some("actions"),
                    ("manifest", "packages") => Some("packages"),
                    _ => None,
                }
            };
            for (k, v) in m.iter_mut() {
                if let Some(c) = child(k) {
                    add_ignored(v, rng, c);
                }
            }
            let extension_point = matches!(ctx, "app" | "uc");
            if !extension_point && rng.chance(1, 3) {
                let key = *rng.pick(&UNKNOWN_KEYS);
                if !m.iter().any(|(k, _)| k == key) {
                    let v = gen_ext_value(rng, 0);
                    let at = rng.usize(m.len() + 1);
                    m.insert(at, (key.to_string(), v));
                }
            }
        }
        _ => {}
    }
}

fn at<'a>(j: &'a mut J, path: &[P]) -> Option<&'a mut J> {
    let mut cur = j;
    for p in path {
        cur = match (cur, p) {
            (J::Obj(m), P::K(k)) => &mut m.iter_mut().find(|(x, _)| x == k)?.1,
            (J::Arr(v), P::I(i)) => v.get_mut(*i)?,
            _ => return None,
        };
    }
    Some(cur)
}

fn delete_at(j: &mut J, path: &[P]) -> bool {
    let (last, parent) = match path.split_last() {
        Some(x) => x,
        None => return false,
    };
    match (at(j, parent), last) {
        (Some(J::Obj(m)), P::K(k)) => {
            let n = m.len();
            m.retain(|(x, _)| x != k);
            m.len() + 1 == n
        }
        _ => false,
    }
}

fn replace_at(j: &mut J, path: &[P], v: J) -> bool {
    match at(j, path) {
        Some(slot) => {
            *slot = v;
            true
        }
        None => false,
    }
}

/// Wrongly typed replacement values for a field of kind `k`.  `null_dc`: the field is optional,
/// so `null` is a don't-care and is not produced.
fn wrong_values(k: K, null_dc: bool) -> Vec<(&'static str, J)> {
    let s = |x: &str| J::Str(x.to_string());
    let raw = |x: &str| J::Raw(x.to_string());
    let mut v: Vec<(&'static str, J)> = match k {
        K::Str => vec![
            ("number", J::U(7)),
            ("bool", J::Bool(true)),
            ("object", J::Obj(vec![])),
            ("array", J::Arr(vec![])),
            ("array-of-string", J::Arr(vec![s("ok")])),
            ("number-0", J::U(0)),
            // the shapes an enum-like value takes in serde's tagged representations
            ("object-ok-null", J::Obj(vec![("ok".to_string(), J::Null)])),
            ("object-noupdate-null", J::Obj(vec![("noupdate".to_string(), J::Null)])),
            ("object-error-string", J::Obj(vec![("error".to_string(), s("x"))])),
            ("object-value", J::Obj(vec![("value".to_string(), s("ok"))])),
        ],
        K::Bool => vec![
            ("string", s("true")),
            ("number-1", J::U(1)),
            ("number-0", J::U(0)),
            ("object", J::Obj(vec![])),
            ("array", J::Arr(vec![])),
        ],
        K::U64 => vec![
            ("string", s("5")),
            ("negative", J::I(-1)),
            ("fraction", raw("1.5")),
            ("overflow", raw("18446744073709551616")),
            ("bool", J::Bool(true)),
            ("object", J::Obj(vec![])),
            ("array", J::Arr(vec![])),
        ],
        K::U32 => vec![
            ("overflow", J::U(4294967296)),
            ("overflow-u64max", J::U(u64::MAX)),
            ("negative", J::I(-1)),
            ("string", s("1")),
            ("fraction", raw("1.5")),
            ("bool", J::Bool(false)),
            ("object", J::Obj(vec![])),
            ("array", J::Arr(vec![])),
        ],
        K::Obj(_) | K::ObjExt => vec![
            ("string", s("x")),
            ("number", J::U(5)),
            ("bool", J::Bool(true)),
            ("array", J::Arr(vec![])),
        ],
        K::Arr => vec![
            ("string", s("x")),
            ("number", J::U(5)),
            ("bool", J::Bool(false)),
            ("object", J::Obj(vec![])),
        ],
    };
    if !null_dc {
        v.push(("null", J::Null));
    }
    v
}

/// The object at a site written as the array of its member values (absent optional -> null).
fn positional(obj: &J, fields: &[&str]) -> Option<J> {
    match obj {
        J::Obj(m) => Some(J::Arr(
            fields
                .iter()
                .map(|f| m.iter().find(|(k, _)| k == f).map(|(_, v)| v.clone()).unwrap_or(J::Null))
                .collect(),
        )),
        _ => None,
    }
}

// ---------------------------------------------------------------------------------------------
// Field-by-field comparison

struct Finding {
    rule: &'static str,
    disc: String,
    detail: String,
}

fn fnd(f: &mut Vec<Finding>, rule: &'static str, disc: String, detail: String) {
    f.push(Finding { rule, disc, detail });
}

fn cmp_str(f: &mut Vec<Finding>, field: &str, exp: &str, got: &str) {
    if exp != got {
        fnd(f, R_FAITH, field.to_string(), format!("{}: document says {:?}, parsed {:?}", field, exp, got));
    }
}
fn cmp_opt<T: PartialEq + std::fmt::Debug>(f: &mut Vec<Finding>, rule: &'static str, field: &str, exp: &Option<T>, got: &Option<T>) {
    if exp != got {
        let how = match (exp, got) {
            (None, Some(_)) => "absent->present",
            (Some(_), None) => "present->absent",
            _ => "changed",
        };
        fnd(f, rule, format!("{} {}", field, how), format!("{}: document says {:?}, parsed {:?}", field, exp, got));
    }
}
fn cmp_status(r: &mut Report, f: &mut Vec<Finding>, site: &str, text: &str, got: &OmahaStatus) {
    r.hit(R_STATUS);
    if !status_matches(text, got) {
        fnd(
            f,
            R_STATUS,
            format!("{} {}", site, status_class(text)),
            format!("{}: document says {:?}, expected {}, parsed {:?}", site, text, es_debug(&exp_status(text)), got),
        );
    }
}
fn cmp_ext(r: &mut Report, f: &mut Vec<Finding>, place: &str, known: &[&str], exp: &[(String, J)], got: &Map<String, Value>) {
    if !exp.is_empty() {
        r.hit(R_EXT);
    }
    for (k, v) in exp {
        let want = to_value(v);
        match got.get(k) {
            Some(g) if *g == want => {}
            Some(g) => fnd(
                f,
                R_EXT,
                format!("{} {} changed", place, j_kind(v)),
                format!("{} extension {:?}: document says {}, parsed {}", place, k, want, g),
            ),
            None => fnd(
                f,
                R_EXT,
                format!("{} {} missing", place, j_kind(v)),
                format!("{} extension {:?} = {} not in extra_attributes {:?}", place, k, want, got.keys().collect::<Vec<_>>()),
            ),
        }
    }
    // members that the document does not contain at all must not be invented
    // (known members echoed there are a don't-care)
    for k in got.keys() {
        if !known.contains(&k.as_str()) && !exp.iter().any(|(x, _)| x == k) {
            r.hit(R_EXT);
            fnd(f, R_EXT, format!("{} invented", place), format!("{} extra_attributes has {:?} which the document lacks", place, k));
        }
    }
}

fn compare(r: &mut Report, exp: &ExpResponse, got: &Response) -> Vec<Finding> {
    let mut fv = vec![];
    let f = &mut fv;
    r.hit(R_FAITH);
    cmp_str(f, "response.protocol", &exp.protocol, &got.protocol_version);
    cmp_opt(f, R_FAITH, "response.server", &exp.server, &got.server);
    match (&exp.daystart, &got.daystart) {
        (None, None) => {}
        (Some(e), Some(g)) => {
            cmp_opt(f, R_FAITH, "daystart.elapsed_days", &e.elapsed_days.map(|v| v as u64), &g.elapsed_days.map(|v| v as u64));
            cmp_opt(f, R_FAITH, "daystart.elapsed_seconds", &e.elapsed_seconds.map(|v| v as u64), &g.elapsed_seconds.map(|v| v as u64));
        }
        (e, g) => fnd(f, R_FAITH, "response.daystart presence".into(), format!("daystart: document {:?}, parsed {:?}", e, g)),
    }
    if exp.apps.len() != got.apps.len() {
        fnd(f, R_FAITH, "response.app count".into(), format!("document has {} apps, parsed {}", exp.apps.len(), got.apps.len()));
        return fv;
    }
    for (i, (ea, ga)) in exp.apps.iter().zip(got.apps.iter()).enumerate() {
        if ea.appid != ga.id {
            let elsewhere = got.apps.iter().any(|x| x.id == ea.appid);
            fnd(
                f,
                R_FAITH,
                if elsewhere { "app.appid order".into() } else { "app.appid".into() },
                format!("app[{}].appid: document says {:?}, parsed {:?}", i, ea.appid, ga.id),
            );
        }
        cmp_status(r, f, "app.status", &ea.status, &ga.status);
        r.hit(R_COHORT);
        let gc = [&ga.cohort.id, &ga.cohort.hint, &ga.cohort.name];
        for (n, name) in ["app.cohort", "app.cohorthint", "app.cohortname"].iter().enumerate() {
            cmp_opt(f, R_COHORT, name, &ea.cohort[n], gc[n]);
        }
        // Ping.status is private: compare through Debug
        match (&ea.ping, &ga.ping) {
            (None, None) => {}
            (Some(t), Some(g)) => {
                r.hit(R_STATUS);
                let want = format!("Ping {{ status: {} }}", es_debug(&exp_status(t)));
                let have = format!("{:?}", g);
                if want != have {
                    fnd(f, R_STATUS, format!("ping.status {}", status_class(t)), format!("ping: document says {:?}, expected {}, parsed {}", t, want, have));
                }
            }
            (e, g) => fnd(f, R_FAITH, "app.ping presence".into(), format!("ping: document {:?}, parsed {:?}", e, g)),
        }
        match (&ea.events, &ga.events) {
            (None, None) => {}
            (Some(e), Some(g)) => {
                if e.len() != g.len() {
                    fnd(f, R_FAITH, "app.event count".into(), format!("events: document {:?}, parsed {:?}", e, g));
                } else {
                    for (t, ev) in e.iter().zip(g.iter()) {
                        cmp_status(r, f, "event.status", t, &ev.status);
                    }
                }
            }
            (e, g) => fnd(f, R_FAITH, "app.event presence".into(), format!("events: document {:?}, parsed {:?}", e, g)),
        }
        cmp_ext(r, f, "app", APP_KNOWN, &ea.ext, &ga.extra_attributes);
        // manifest version accessor
        r.hit(R_URLS);
        let want_mv = ea.uc.as_ref().and_then(|u| u.manifest.as_ref()).map(|m| m.version.clone());
        let have_mv = ga.get_manifest_version();
        if want_mv != have_mv {
            fnd(f, R_URLS, "get_manifest_version".into(), format!("get_manifest_version: expected {:?}, got {:?}", want_mv, have_mv));
        }
        match (&ea.uc, &ga.update_check) {
            (None, None) => {}
            (Some(eu), Some(gu)) => {
                cmp_status(r, f, "updatecheck.status", &eu.status, &gu.status);
                cmp_opt(f, R_FAITH, "updatecheck.info", &eu.info, &gu.info);
                cmp_ext(r, f, "updatecheck", UC_KNOWN, &eu.ext, &gu.extra_attributes);
                match (&eu.urls, &gu.urls) {
                    (None, None) => {}
                    (Some(e), Some(g)) => {
                        let have: Vec<&str> = g.url.iter().map(|u| u.codebase.as_str()).collect();
                        if e.iter().map(|s| s.as_str()).collect::<Vec<_>>() != have {
                            fnd(f, R_FAITH, "url.codebase".into(), format!("codebases: document {:?}, parsed {:?}", e, have));
                        }
                    }
                    (e, g) => fnd(f, R_FAITH, "updatecheck.urls presence".into(), format!("urls: document {:?}, parsed {:?}", e, g)),
                }
                match (&eu.manifest, &gu.manifest) {
                    (None, None) => {}
                    (Some(em), Some(gm)) => {
                        cmp_str(f, "manifest.version", &em.version, &gm.version);
                        if em.actions.len() != gm.actions.action.len() {
                            fnd(f, R_FAITH, "actions.action count".into(), format!("actions: document {}, parsed {}", em.actions.len(), gm.actions.action.len()));
                        } else {
                            for (e, g) in em.actions.iter().zip(gm.actions.action.iter()) {
                                cmp_opt(f, R_FAITH, "action.event", &e.event, &g.event);
                                cmp_opt(f, R_FAITH, "action.run", &e.run, &g.run);
                                cmp_ext(r, f, "action", ACTION_KNOWN, &e.ext, &g.extra_attributes);
                            }
                        }
                        if em.packages.len() != gm.packages.package.len() {
                            fnd(f, R_FAITH, "packages.package count".into(), format!("packages: document {}, parsed {}", em.packages.len(), gm.packages.package.len()));
                        } else {
                            for (e, g) in em.packages.iter().zip(gm.packages.package.iter()) {
                                cmp_str(f, "package.name", &e.name, &g.name);
                                cmp_str(f, "package.fp", &e.fp, &g.fingerprint);
                                if e.required != g.required {
                                    fnd(f, R_FAITH, "package.required".into(), format!("required: document {}, parsed {}", e.required, g.required));
                                }
                                cmp_opt(f, R_FAITH, "package.hash", &e.hash, &g.hash);
                                cmp_opt(f, R_FAITH, "package.hash_sha256", &e.hash_sha256, &g.hash_sha256);
                                r.hit(R_SIZE);
                                // `as u64`: keeps the harness compiling if the field type is narrowed
                                let gs: Option<u64> = g.size.map(|v| v as u64);
                                if e.size != gs {
                                    fnd(f, R_SIZE, size_class(e.size).to_string(), format!("size: document {:?}, parsed {:?}", e.size, gs));
                                }
                                cmp_ext(r, f, "package", PKG_KNOWN, &e.ext, &g.extra_attributes);
                            }
                        }
                    }
                    (e, g) => fnd(f, R_FAITH, "updatecheck.manifest presence".into(), format!("manifest: document {:?}, parsed {:?}", e.is_some(), g.is_some())),
                }
                // accessors: codebases, packages, full urls (codebase-major, plain concatenation)
                let cbs: Vec<String> = eu.urls.clone().unwrap_or_default();
                let names: Vec<String> = eu.manifest.as_ref().map(|m| m.packages.iter().map(|p| p.name.clone()).collect()).unwrap_or_default();
                let have_cbs: Vec<String> = gu.get_all_url_codebases().map(|s| s.to_string()).collect();
                if cbs != have_cbs {
                    fnd(f, R_URLS, "get_all_url_codebases".into(), format!("expected {:?}, got {:?}", cbs, have_cbs));
                }
                let have_names: Vec<String> = gu.get_all_packages().map(|p| p.name.clone()).collect();
                if names != have_names {
                    fnd(f, R_URLS, "get_all_packages".into(), format!("expected {:?}, got {:?}", names, have_names));
                }
                let mut full = vec![];
                for c in &cbs {
                    for n in &names {
                        let mut s = c.clone();
                        s.push_str(n);
                        full.push(s);
                    }
                }
                let have_full: Vec<String> = gu.get_all_full_urls().collect();
                if full != have_full {
                    let mut a = full.clone();
                    let mut b = have_full.clone();
                    a.sort();
                    b.sort();
                    let disc = if a == b { "get_all_full_urls order" } else { "get_all_full_urls" };
                    fnd(f, R_URLS, disc.into(), format!("expected {:?}, got {:?}", full, have_full));
                }
            }
            (e, g) => fnd(f, R_FAITH, "app.updatecheck presence".into(), format!("updatecheck: document {:?}, parsed {:?}", e.is_some(), g.is_some())),
        }
    }
    fv
}

// ---------------------------------------------------------------------------------------------
// Summaries: expected tree as JSON (samples / replays), shape key

fn ext_json(ext: &[(String, J)]) -> Value {
    Value::Array(ext.iter().map(|(k, v)| json!([k, to_value(v)])).collect())
}

fn exp_json(e: &ExpResponse) -> Value {
    json!({
        "protocol": e.protocol, "server": e.server,
        "daystart": e.daystart.as_ref().map(|d| json!({"elapsed_days": d.elapsed_days, "elapsed_seconds": d.elapsed_seconds})),
        "apps": e.apps.iter().map(|a| json!({
            "appid": a.appid, "status": es_debug(&exp_status(&a.status)),
            "cohort": a.cohort[0], "cohorthint": a.cohort[1], "cohortname": a.cohort[2],
            "ping": a.ping.as_ref().map(|p| es_debug(&exp_status(p))),
            "events": a.events.as_ref().map(|v| v.iter().map(|s| es_debug(&exp_status(s))).collect::<Vec<_>>()),
            "extensions": ext_json(&a.ext),
            "updatecheck": a.uc.as_ref().map(|u| json!({
                "status": es_debug(&exp_status(&u.status)), "info": u.info, "urls": u.urls,
                "extensions": ext_json(&u.ext),
                "manifest": u.manifest.as_ref().map(|m| json!({
                    "version": m.version,
                    "actions": m.actions.iter().map(|x| json!({"event": x.event, "run": x.run, "extensions": ext_json(&x.ext)})).collect::<Vec<_>>(),
                    "packages": m.packages.iter().map(|p| json!({"name": p.name, "required": p.required, "size": p.size,
                        "hash": p.hash, "hash_sha256": p.hash_sha256, "fp": p.fp, "extensions": ext_json(&p.ext)})).collect::<Vec<_>>(),
                })),
            })),
        })).collect::<Vec<_>>(),
    })
}

fn content_flags(j: &J, fl: &mut [bool; 3]) {
    let mut scan = |s: &str| {
        for c in s.chars() {
            let cp = c as u32;
            if c == '"' || c == '\\' || cp < 0x20 {
                fl[0] = true;
            } else if cp > 0xffff {
                fl[2] = true;
            } else if cp > 0x7f {
                fl[1] = true;
            }
        }
    };
    match j {
        J::Str(s) => scan(s),
        J::Arr(v) => v.iter().for_each(|x| content_flags(x, fl)),
        J::Obj(m) => {
            for (k, v) in m {
                let mut g = [false; 3];
                content_flags(&J::Str(k.clone()), &mut g);
                for i in 0..3 {
                    fl[i] |= g[i];
                }
                content_flags(v, fl);
            }
        }
        _ => {}
    }
}

fn doc_shape(e: &ExpResponse, j: &J, st: &Style) -> u64 {
    let mut h = Fnv::new();
    h.str("doc").u64(e.apps.len() as u64).str(&st.tag());
    h.u64(e.server.is_some() as u64);
    h.u64(match &e.daystart {
        None => 0,
        Some(d) => 1 + d.elapsed_days.is_some() as u64 + 2 * d.elapsed_seconds.is_some() as u64,
    });
    for a in &e.apps {
        h.str(status_class(&a.status));
        for c in &a.cohort {
            h.str(match c {
                None => "a",
                Some(s) if s.is_empty() => "e",
                _ => "n",
            });
        }
        h.u64(a.ping.is_some() as u64).u64(a.events.as_ref().map(|v| 1 + v.len()).unwrap_or(0) as u64);
        h.u64(!a.ext.is_empty() as u64);
        match &a.uc {
            None => {
                h.str("-");
            }
            Some(u) => {
                h.str(status_class(&u.status)).u64(u.info.is_some() as u64).u64(!u.ext.is_empty() as u64);
                h.u64(u.urls.as_ref().map(|v| 1 + v.len()).unwrap_or(0) as u64);
                match &u.manifest {
                    None => {
                        h.str("-");
                    }
                    Some(m) => {
                        h.u64(m.actions.len() as u64).u64(m.actions.iter().any(|x| !x.ext.is_empty()) as u64);
                        h.u64(m.packages.len() as u64).u64(m.packages.iter().any(|x| !x.ext.is_empty()) as u64);
                        for p in &m.packages {
                            h.str(size_class(p.size));
                        }
                    }
                }
            }
        }
    }
    let mut fl = [false; 3];
    content_flags(j, &mut fl);
    h.u64(fl[0] as u64 + 2 * fl[1] as u64 + 4 * fl[2] as u64);
    h.finish()
}

// ---------------------------------------------------------------------------------------------
// Running the library and judging

type Parsed = Result<Result<Response, String>, PanicInfo>;

fn parse(b: &[u8]) -> Parsed {
    guard(|| parse_json_response(b).map_err(|e| e.to_string()))
}

/// One violation per signature and shard (the runner merges equal signatures anyway).
fn viol(r: &mut Report, rule: &str, sig: &str, detail: String, replay: Value) {
    if r.violations.iter().any(|v| v.signature == sig) {
        r.count("violations_same_signature", 1);
        return;
    }
    r.violation(rule, sig, detail, replay);
}

fn report_panic(r: &mut Report, rule: &str, info: &PanicInfo, replay: Value) {
    viol(r, rule, &format!("panic@{}", info.site()), format!("panic: {} at {}", info.msg, info.loc), replay);
}

/// serde_json error text without the data-dependent parts (back-quoted values, positions).
fn sanitize(msg: &str) -> String {
    let mut out = String::new();
    // serde quotes values as `..` or ".."; a string value may itself contain quotes, so everything
    // between the first and the last quote character is dropped
    let is_q = |c: char| c == '`' || c == '"';
    match (msg.find(is_q), msg.rfind(is_q)) {
        (Some(a), Some(b)) if b > a => {
            out.push_str(&msg[..a]);
            out.push('_');
            out.push_str(&msg[b + 1..]);
        }
        _ => out.push_str(msg),
    }
    let out = match out.find(" at line ") {
        Some(i) => out[..i].to_string(),
        None => out,
    };
    out.chars().take(80).collect()
}

struct DocCase {
    exp: ExpResponse,
    j: J,
    sites: Vec<Site>,
    style: Style,
    text: String,
    /// (rule, discriminator) a rejection of this probe document is attributed to
    probe: Option<(&'static str, String)>,
    /// deep-nesting don't-care: Err is acceptable
    err_ok: bool,
    coords: (u64, u64, u64, u64),
}

fn full_response(size: Option<u64>) -> ExpResponse {
    let mut e = minimal_response();
    e.server = Some("prod".into());
    e.daystart = Some(ExpDayStart { elapsed_days: Some(5000), elapsed_seconds: Some(86399) });
    let a = &mut e.apps[0];
    a.ping = Some("ok".into());
    a.events = Some(vec!["ok".into()]);
    a.cohort = [Some("1:1:".into()), None, Some("stable".into())];
    a.uc = Some(ExpUc {
        status: "ok".into(),
        info: None,
        urls: Some(vec!["http://url/base/".into()]),
        manifest: Some(ExpManifest {
            version: "1.2.3.4".into(),
            actions: vec![ExpAction { event: Some("install".into()), run: Some("package.far".into()), ext: vec![] }],
            packages: vec![ExpPackage {
                name: "package.far".into(),
                required: true,
                size,
                hash: None,
                hash_sha256: Some("abcdef".into()),
                fp: "1.fp".into(),
                ext: vec![],
            }],
        }),
        ext: vec![],
    });
    e
}

const N_PROBES: u64 = (SIZE_VALUES.len() + STATUS_POOL.len() + 27) as u64;

fn probe_response(idx: u64) -> (ExpResponse, (&'static str, String)) {
    let ns = SIZE_VALUES.len() as u64;
    let nt = STATUS_POOL.len() as u64;
    if idx < ns {
        let v = SIZE_VALUES[idx as usize];
        (full_response(Some(v)), (R_SIZE, size_class(Some(v)).to_string()))
    } else if idx < ns + nt {
        let t = STATUS_POOL[(idx - ns) as usize];
        let mut e = full_response(Some(1));
        let a = &mut e.apps[0];
        a.status = t.into();
        a.ping = Some(t.into());
        a.events = Some(vec![t.into(), "ok".into()]);
        a.uc.as_mut().unwrap().status = t.into();
        (e, (R_STATUS, format!("probe {}", status_class(t))))
    } else {
        let mut n = idx - ns - nt;
        let mut e = full_response(None);
        let mut pat = String::new();
        for c in e.apps[0].cohort.iter_mut() {
            *c = match n % 3 {
                0 => None,
                1 => Some(String::new()),
                _ => Some("c:1".into()),
            };
            pat.push(['a', 'e', 'n'][(n % 3) as usize]);
            n /= 3;
        }
        (e, (R_COHORT, format!("probe {}", pat)))
    }
}

const DEEP_J_DEPTHS: &[usize] = &[1, 100, 118, 119, 120, 121, 122, 123, 124, 125, 126, 127, 128, 129, 200];
const PLACES: &[&str] = &["app", "updatecheck", "action", "package"];

fn nested(kind: u64, depth: usize) -> J {
    let mut v = if kind == 1 { J::Obj(vec![]) } else { J::Arr(vec![]) };
    for d in 1..depth {
        let obj = match kind {
            0 => false,
            1 => true,
            _ => d % 2 == 1,
        };
        v = if obj { J::Obj(vec![("a".into(), v)]) } else { J::Arr(vec![v]) };
    }
    v
}

fn deep_idx(kind: u64, place: u64, di: u64) -> u64 {
    (di * 4 + place) * 3 + kind
}

fn make_doc(seed: u64, shard: u64, stream: u64, idx: u64) -> DocCase {
    let mut rng = Rng::derive(seed, shard, stream, idx);
    let mut probe = None;
    let mut err_ok = false;
    let exp = if stream == S_PROBE {
        let (e, p) = probe_response(idx % N_PROBES);
        probe = Some(p);
        e
    } else if stream == S_DEEP {
        let kind = idx % 3;
        let place = (idx / 3) % 4;
        let depth = DEEP_J_DEPTHS[((idx / 12) as usize) % DEEP_J_DEPTHS.len()];
        let mut e = full_response(Some(7));
        let v = ("deep".to_string(), nested(kind, depth));
        let a = &mut e.apps[0];
        match place {
            0 => a.ext.push(v),
            1 => a.uc.as_mut().unwrap().ext.push(v),
            2 => a.uc.as_mut().unwrap().manifest.as_mut().unwrap().actions[0].ext.push(v),
            _ => a.uc.as_mut().unwrap().manifest.as_mut().unwrap().packages[0].ext.push(v),
        }
        err_ok = true;
        e
    } else {
        gen_response(&mut rng)
    };
    let style = if stream == S_DEEP && rng.bool() { Style::compact() } else { Style::gen(&mut rng) };
    let (mut j, sites) = build(&exp);
    if stream == S_DOC && rng.chance(1, 3) {
        // members the protocol does not define, in the objects that do not keep extensions: a client ignores them
        add_ignored(&mut j, &mut rng, "doc");
    }
    let text = serialize(&j, &mut rng, &style);
    DocCase { exp, j, sites, style, text, probe, err_ok, coords: (seed, shard, stream, idx) }
}

fn doc_replay(c: &DocCase) -> Value {
    json!({"kind": "doc", "seed": c.coords.0, "shard": c.coords.1, "stream": c.coords.2, "idx": c.coords.3,
           "text": c.text, "text_hex": hex(c.text.as_bytes()), "expect": exp_json(&c.exp)})
}

fn emit(r: &mut Report, findings: Vec<Finding>, replay: &Value) {
    let mut seen: Vec<String> = vec![];
    for f in findings {
        let sig = format!("{} {}", f.rule, f.disc);
        if seen.contains(&sig) {
            continue;
        }
        viol(r, f.rule, &sig, f.detail, replay.clone());
        seen.push(sig);
    }
}

fn check_reject(r: &mut Report, rule: &'static str, disc: &str, napps: usize, text: &str, xssi_too: bool) {
    r.hit(rule);
    r.eval(shape_of(&[rule, disc, &napps.to_string()]), true);
    let replay = || json!({"kind": "reject", "rule": rule, "disc": disc, "text": text, "text_hex": hex(text.as_bytes())});
    match parse(text.as_bytes()) {
        Err(p) => report_panic(r, rule, &p, replay()),
        Ok(Ok(resp)) => {
            let d: String = format!("{:?}", resp).chars().take(400).collect();
            viol(r, rule, &format!("{} {}", rule, disc), format!("document with [{}] was accepted: {}", disc, d), replay());
        }
        Ok(Err(_)) => {}
    }
    if xssi_too {
        r.hit(R_XSSI);
        let mut b = XSSI.to_vec();
        b.extend_from_slice(text.as_bytes());
        match parse(&b) {
            Err(p) => report_panic(r, R_XSSI, &p, json!({"kind": "bytes", "hex": hex(&b)})),
            Ok(Ok(_)) if rule != R_XSSI => {
                // only a finding of its own if the unprefixed text was rejected; otherwise merged above
                if matches!(parse(text.as_bytes()), Ok(Err(_))) {
                    viol(r, R_XSSI, "xssi-prefix err->ok", format!("prefixed invalid document [{}] accepted", disc), json!({"kind": "xssi", "text": text, "text_hex": hex(text.as_bytes())}));
                }
            }
            _ => {}
        }
    }
}

fn check_xssi(r: &mut Report, text: &str, plain: &Parsed, tag: &str, napps: usize) {
    r.hit(R_XSSI);
    r.eval(shape_of(&["xssi", tag, &napps.to_string()]), true);
    let mut b = XSSI.to_vec();
    b.extend_from_slice(text.as_bytes());
    let replay = || json!({"kind": "xssi", "text": text, "text_hex": hex(text.as_bytes())});
    match (plain, parse(&b)) {
        (_, Err(p)) => report_panic(r, R_XSSI, &p, replay()),
        (Ok(Ok(a)), Ok(Ok(b2))) => {
            if *a != b2 {
                viol(r, R_XSSI, "xssi-prefix changed", "prefixed document parses to a different Response".into(), replay());
            }
        }
        (Ok(Ok(_)), Ok(Err(e))) => viol(r, R_XSSI, "xssi-prefix ok->err", format!("prefixed document rejected: {}", e), replay()),
        (Ok(Err(_)), Ok(Ok(_))) => viol(r, R_XSSI, "xssi-prefix err->ok", "prefixed document accepted, plain one rejected".into(), replay()),
        _ => {}
    }
}

fn judge_doc(r: &mut Report, c: &DocCase, max_variants: usize, positional_on: bool) {
    let napps = c.exp.apps.len();
    let replay = doc_replay(c);
    let parsed = parse(c.text.as_bytes());
    r.eval(doc_shape(&c.exp, &c.j, &c.style), !is_minimal(&c.exp));
    match &parsed {
        Err(p) => report_panic(r, R_FAITH, p, replay.clone()),
        Ok(Err(msg)) => {
            if c.err_ok {
                r.count("deep_embedded_rejected", 1);
            } else {
                let (rule, disc) = match &c.probe {
                    Some((ru, d)) => (*ru, format!("{} rejected", d)),
                    None => (R_FAITH, format!("valid-document-rejected: {}", sanitize(msg))),
                };
                r.hit(rule);
                emit(r, vec![Finding { rule, disc, detail: format!("well-formed document rejected: {}", msg) }], &replay);
            }
        }
        Ok(Ok(resp)) => {
            if c.err_ok {
                r.count("deep_embedded_accepted", 1);
            }
            let f = compare(r, &c.exp, resp);
            let ok = f.is_empty();
            emit(r, f, &replay);
            if ok && r.want_sample() && c.coords.2 == S_DOC && !is_minimal(&c.exp) && c.text.len() < 1500 && napps > 0 {
                r.sample(json!({"document": c.text, "expected_tree": exp_json(&c.exp), "observed": "Ok(Response) equal to the expected tree in every field; prefixed twin equal"}));
            }
        }
    }
    check_xssi(r, &c.text, &parsed, &c.style.tag(), napps);
    if max_variants == 0 || c.err_ok {
        return;
    }
    let mut rng = Rng::derive(c.coords.0 ^ 0x5eed, c.coords.1, c.coords.2, c.coords.3);
    let mut by_name: BTreeMap<&'static str, Vec<usize>> = BTreeMap::new();
    for (i, s) in c.sites.iter().enumerate() {
        by_name.entry(s.name).or_default().push(i);
    }
    // reduced layers (Miri): a random subset of the field names
    let mut chosen: Vec<&'static str> = by_name.keys().copied().collect();
    if chosen.len() > max_variants {
        rng.shuffle(&mut chosen);
        chosen.truncate(max_variants);
    }
    let mut pos_budget = max_variants;
    for (name, idxs) in &by_name {
        if !chosen.contains(name) {
            continue;
        }
        let s = &c.sites[*rng.pick(idxs)];
        if s.required && !s.elem {
            let mut j2 = c.j.clone();
            if delete_at(&mut j2, &s.path) {
                let t = serialize(&j2, &mut rng, &c.style);
                let x = rng.chance(1, 8);
                check_reject(r, R_MISSING, name, napps, &t, x);
            }
        }
        let wv = wrong_values(s.kind, !s.required && !s.elem);
        let (how, v) = rng.pick(&wv).clone();
        let mut j2 = c.j.clone();
        if replace_at(&mut j2, &s.path, v) {
            let t = serialize(&j2, &mut rng, &c.style);
            let x = rng.chance(1, 8);
            check_reject(r, R_TYPE, &format!("{}:{}", name, how), napps, &t, x);
        }
    }
    if CHECK_POSITIONAL_ARRAY && positional_on {
        for (name, idxs) in &by_name {
            let s = &c.sites[*rng.pick(idxs)];
            if let K::Obj(fields) = s.kind {
                if max_variants != usize::MAX {
                    // reduced layers: one positional variant per document
                    if pos_budget == 0 || !rng.chance(1, 3) {
                        continue;
                    }
                    pos_budget = 0;
                }
                let mut j2 = c.j.clone();
                let pv = at(&mut j2, &s.path).and_then(|o| positional(o, fields));
                if let Some(pv) = pv {
                    replace_at(&mut j2, &s.path, pv);
                    // plain style so that the reported input is readable
                    let st = Style { ws: c.style.ws.min(1), esc: 0, esc_keys: false, ..c.style };
                    let t = serialize(&j2, &mut rng, &st);
                    check_reject(r, R_TYPE, &format!("{}:positional-array", name), napps, &t, false);
                }
            }
        }
    }
}

// ---------------------------------------------------------------------------------------------
// Byte-level totality

fn len_bucket(n: usize) -> &'static str {
    match n {
        0 => "0",
        1 => "1",
        2..=8 => "2-8",
        9..=64 => "9-64",
        65..=512 => "65-512",
        513..=4096 => "513-4096",
        _ => ">4096",
    }
}

fn check_total(r: &mut Report, rule: &'static str, kind: &str, bytes: &[u8]) {
    r.hit(rule);
    r.eval(shape_of(&[rule, kind, len_bucket(bytes.len())]), true);
    match parse(bytes) {
        Err(p) => report_panic(r, rule, &p, json!({"kind": "bytes", "mutation": kind, "hex": hex(bytes), "show": show_bytes(bytes)})),
        Ok(Ok(_)) => r.count("bytes_parsed_ok", 1),
        Ok(Err(_)) => r.count("bytes_parsed_err", 1),
    }
}

const TOKENS: &[&str] = &[
    "{", "}", "[", "]", ":", ",", "\"", "{", "}", ":", ",", "\"response\"", "\"protocol\"", "\"app\"", "\"appid\"",
    "\"status\"", "\"ok\"", "\"noupdate\"", "\"updatecheck\"", "\"manifest\"", "\"packages\"", "\"package\"", "\"size\"",
    "\"fp\"", "\"required\"", "true", "false", "null", "0", "-1", "1.5", "1e999", "-0", "18446744073709551616", "\\u",
    "\\ud800", "\"\\ud83d\\ude00\"", "\"\\ud800\"", " ", "\n", ")]}'\n", "\"cohort\"", "\"urls\"", "\"url\"",
    "\"codebase\"", "\"name\"", "\"actions\"", "\"action\"", "\"version\"", "\"daystart\"", "\"elapsed_days\"",
    "\"ping\"", "\"event\"", "\"3.0\"", "\"x\"", "\u{feff}", "\0", "\"\\", "tru", "nul", "1e", "-", "0x1",
];

const RANDOM_KINDS: &[&str] = &["uniform", "json-alphabet", "token-soup", "prefix+uniform", "prefix+token-soup", "ascii", "head+token-soup"];

fn random_case(rng: &mut Rng, kind: usize) -> Vec<u8> {
    let len = if rng.bool() {
        *rng.pick(&[0usize, 1, 2, 3, 5, 8, 16, 33, 64, 100, 256, 512, 1000, 2048, 4095, 4096])
    } else {
        rng.usize(4097)
    };
    let soup = |rng: &mut Rng, len: usize| {
        let mut v: Vec<u8> = vec![];
        while v.len() < len {
            v.extend_from_slice(rng.pick(TOKENS).as_bytes());
        }
        v.truncate(len);
        v
    };
    match kind {
        0 => rng.bytes(len),
        1 => (0..len).map(|_| *rng.pick(b"{}[]\":,0123456789aeflnrstu\\ \n-+.E")).collect(),
        2 => soup(rng, len),
        3 => {
            let mut v = XSSI.to_vec();
            v.extend(rng.bytes(len));
            v
        }
        4 => {
            let mut v = XSSI.to_vec();
            v.extend(soup(rng, len));
            v
        }
        5 => (0..len).map(|_| 0x20 + rng.below(0x5f) as u8).collect(),
        _ => {
            let mut v = b"{\"response\":{\"protocol\":\"3.0\",\"app\":[{\"appid\":\"a\",\"status\":\"ok\",".to_vec();
            v.extend(soup(rng, len));
            v
        }
    }
}

const FLIP_KINDS: &[&str] = &["flip1", "flipN", "byte-set", "delete-range", "insert-random", "dup-slice", "swap-halves"];

fn mutate(rng: &mut Rng, kind: usize, src: &[u8]) -> Vec<u8> {
    let mut v = src.to_vec();
    if v.is_empty() {
        return v;
    }
    let n = v.len();
    match kind {
        0 => {
            let i = rng.usize(n);
            v[i] ^= 1 << rng.below(8);
        }
        1 => {
            for _ in 0..2 + rng.below(7) {
                let i = rng.usize(n);
                v[i] ^= 1 << rng.below(8);
            }
        }
        2 => {
            let i = rng.usize(n);
            v[i] = *rng.pick(&[0u8, b'"', b'\\', b'{', b'}', b'[', b']', b',', b':', 0xff, 0x80, 0xc0, 0xed, b'-', b'e', b'9']);
        }
        3 => {
            let a = rng.usize(n);
            let b = (a + 1 + rng.usize(16)).min(n);
            v.drain(a..b);
        }
        4 => {
            let a = rng.usize(n + 1);
            let k = 1 + rng.usize(8);
            let ins = rng.bytes(k);
            v.splice(a..a, ins);
        }
        5 => {
            let a = rng.usize(n);
            let b = (a + 1 + rng.usize(40)).min(n);
            let sl = v[a..b].to_vec();
            let at = rng.usize(n + 1);
            v.splice(at..at, sl);
        }
        _ => {
            let a = rng.usize(n);
            v.rotate_left(a);
        }
    }
    v
}

const TEMPLATE: &str = r#"{"response":{"protocol":"3.0","server":"prod","daystart":{"elapsed_days":5000,"elapsed_seconds":100},"app":[{"appid":"@A@","status":"ok","cohort":"1:1:","cohortname":"stable","ping":{"status":"ok"},"updatecheck":{"status":"ok","urls":{"url":[{"codebase":"http://u/"}]},"manifest":{"version":"1.2.3.4","actions":{"action":[{"event":"install","run":"p.far","@K@":true}]},"packages":{"package":[{"name":"p.far","required":true,"size":424242,"fp":"1.fp","hash_sha256":"ab","x_ext":@V@}]}},"_urgent_update":true},"event":[{"status":"ok"}]}]}}"#;

fn replace_bytes(src: &[u8], pat: &[u8], with: &[u8]) -> Vec<u8> {
    let mut out = Vec::with_capacity(src.len() + with.len());
    let mut i = 0;
    while i < src.len() {
        if src[i..].starts_with(pat) {
            out.extend_from_slice(with);
            i += pat.len();
        } else {
            out.push(src[i]);
            i += 1;
        }
    }
    out
}

fn template(a: &[u8], k: &[u8], size: &[u8], v: &[u8]) -> Vec<u8> {
    let t = replace_bytes(TEMPLATE.as_bytes(), b"@A@", a);
    let t = replace_bytes(&t, b"@K@", k);
    let t = replace_bytes(&t, b"424242", size);
    replace_bytes(&t, b"@V@", v)
}

/// A hand-made input, materialized only when it is run (cheap enumeration under Miri).
enum Spec {
    Fixed(Vec<u8>),
    /// TEMPLATE with (appid text, extension key, size token, extension value token)
    Tpl(Vec<u8>, Vec<u8>, Vec<u8>, Vec<u8>),
}
impl Spec {
    fn bytes(&self) -> Vec<u8> {
        match self {
            Spec::Fixed(b) => b.clone(),
            Spec::Tpl(a, k, s, v) => template(a, k, s, v),
        }
    }
}
fn tpl(a: &[u8], k: &[u8], s: &[u8], v: &[u8]) -> Spec {
    Spec::Tpl(a.to_vec(), k.to_vec(), s.to_vec(), v.to_vec())
}

fn special_cases(miri: bool) -> Vec<(String, Spec)> {
    let mut out: Vec<(String, Spec)> = vec![];
    let base = template(b"app1", b"k", b"424242", b"0");
    let cat = |parts: &[&[u8]]| -> Vec<u8> { parts.concat() };
    let bom: &[u8] = b"\xef\xbb\xbf";
    let fixed: Vec<(&str, Vec<u8>)> = vec![
        ("empty", vec![]),
        ("space", b" ".to_vec()),
        ("newline", b"\n".to_vec()),
        ("prefix-only", XSSI.to_vec()),
        ("prefix-partial", b")]}".to_vec()),
        ("prefix-no-newline", cat(&[b")]}'", &base])),
        ("prefix-twice", cat(&[XSSI, XSSI, &base])),
        ("space-prefix", cat(&[b" ", XSSI, &base])),
        ("prefix-crlf", cat(&[b")]}'\r\n", &base])),
        ("prefix-prefix-no-newline", cat(&[XSSI, b")]}'"])),
        ("bom", cat(&[bom, &base])),
        ("bom-prefix", cat(&[bom, XSSI, &base])),
        ("prefix-bom", cat(&[XSSI, bom, &base])),
        ("trailing-nul", cat(&[&base, b"\0"])),
        ("leading-nul", cat(&[b"\0", &base])),
        ("trailing-garbage", cat(&[&base, b"x"])),
        ("trailing-comma", cat(&[&base, b","])),
        ("doc-twice", cat(&[&base, &base])),
        ("top-null", b"null".to_vec()),
        ("top-true", b"true".to_vec()),
        ("top-number", b"0".to_vec()),
        ("top-string", b"\"response\"".to_vec()),
        ("top-array", b"[]".to_vec()),
        ("top-object", b"{}".to_vec()),
        ("dup-response", b"{\"response\":{\"protocol\":\"3.0\",\"app\":[]},\"response\":{\"protocol\":\"3.0\",\"app\":[]}}".to_vec()),
        ("dup-protocol", b"{\"response\":{\"protocol\":\"3.0\",\"protocol\":\"3.0\",\"app\":[]}}".to_vec()),
        ("dup-appid", b"{\"response\":{\"protocol\":\"3.0\",\"app\":[{\"appid\":\"a\",\"appid\":\"b\",\"status\":\"ok\"}]}}".to_vec()),
        ("dup-status", b"{\"response\":{\"protocol\":\"3.0\",\"app\":[{\"appid\":\"a\",\"status\":\"ok\",\"status\":\"ok\"}]}}".to_vec()),
        ("dup-cohort", b"{\"response\":{\"protocol\":\"3.0\",\"app\":[{\"appid\":\"a\",\"status\":\"ok\",\"cohort\":\"a\",\"cohort\":\"b\"}]}}".to_vec()),
        ("dup-ext", b"{\"response\":{\"protocol\":\"3.0\",\"app\":[{\"appid\":\"a\",\"status\":\"ok\",\"x\":1,\"x\":2}]}}".to_vec()),
        ("dup-updatecheck", b"{\"response\":{\"protocol\":\"3.0\",\"app\":[{\"appid\":\"a\",\"status\":\"ok\",\"updatecheck\":{\"status\":\"ok\"},\"updatecheck\":{\"status\":\"ok\"}}]}}".to_vec()),
    ];
    for (n, b) in fixed {
        out.push((n.to_string(), Spec::Fixed(b)));
    }
    // odd string contents (raw bytes) and escapes, as appid value, as extension key, as extension string value
    let strings: Vec<(&str, Vec<u8>)> = vec![
        ("utf8-ff", b"\xff".to_vec()),
        ("utf8-overlong", b"\xc0\x80".to_vec()),
        ("utf8-cesu-surrogate", b"\xed\xa0\x80".to_vec()),
        ("utf8-above-max", b"\xf4\x90\x80\x80".to_vec()),
        ("utf8-truncated", b"a\xe2\x82".to_vec()),
        ("utf8-stray-continuation", b"\x80\xbf".to_vec()),
        ("raw-nul", b"a\0b".to_vec()),
        ("raw-newline", b"a\nb".to_vec()),
        ("raw-tab", b"a\tb".to_vec()),
        ("lone-high", b"\\ud800".to_vec()),
        ("lone-low", b"\\udc00".to_vec()),
        ("high-then-char", b"\\ud800A".to_vec()),
        ("high-then-bmp-escape", b"\\ud800\\u0041".to_vec()),
        ("high-high", b"\\ud800\\ud800".to_vec()),
        ("low-high", b"\\udc00\\ud800".to_vec()),
        ("max-pair", b"\\udbff\\udfff".to_vec()),
        ("high-at-end-of-doc", b"\\ud83d".to_vec()),
        ("bad-escape-x", b"\\x41".to_vec()),
        ("short-u", b"\\u12".to_vec()),
        ("nonhex-u", b"\\uZZZZ".to_vec()),
        ("escaped-nul", b"\\u0000".to_vec()),
        ("backslash-at-end", b"abc\\".to_vec()),
        ("bom-inside", b"\xef\xbb\xbfa".to_vec()),
    ];
    for (n, s) in &strings {
        out.push((format!("appid:{}", n), tpl(s, b"k", b"424242", b"0")));
        out.push((format!("ext-key:{}", n), tpl(b"app1", s, b"424242", b"0")));
        out.push((format!("ext-value:{}", n), tpl(b"app1", b"k", b"424242", &cat(&[b"\"", s, b"\""]))));
    }
    let digits400: Vec<u8> = std::iter::repeat(b"1234567890".iter().copied()).take(40).flatten().collect();
    let numbers: Vec<(&str, Vec<u8>)> = vec![
        ("1e999", b"1e999".to_vec()),
        ("-1e999", b"-1e999".to_vec()),
        ("1E+400", b"1E+400".to_vec()),
        ("1e-999", b"1e-999".to_vec()),
        ("400-digit-int", digits400.clone()),
        ("neg-400-digit-int", cat(&[b"-", &digits400])),
        ("400-digit-fraction", cat(&[b"0.", &digits400])),
        ("400-digit-exponent", cat(&[b"1e", &digits400])),
        ("minus", b"-".to_vec()),
        ("minus-zero", b"-0".to_vec()),
        ("leading-zero", b"01".to_vec()),
        ("dot-end", b"1.".to_vec()),
        ("dot-start", b".5".to_vec()),
        ("plus", b"+1".to_vec()),
        ("hex", b"0x10".to_vec()),
        ("nan", b"NaN".to_vec()),
        ("infinity", b"Infinity".to_vec()),
        ("u64max+1", b"18446744073709551616".to_vec()),
        ("i64min-1", b"-9223372036854775809".to_vec()),
        ("1e19", b"1e19".to_vec()),
        ("1.0", b"1.0".to_vec()),
    ];
    for (n, s) in &numbers {
        out.push((format!("size:{}", n), tpl(b"app1", b"k", s, b"0")));
        out.push((format!("ext-number:{}", n), tpl(b"app1", b"k", b"424242", s)));
    }
    if !miri {
        let long: Vec<u8> = std::iter::repeat(b'a').take(1_000_000).collect();
        out.push(("appid:1MB".into(), tpl(&long, b"k", b"424242", b"0")));
        let esc: Vec<u8> = std::iter::repeat(b"\\u00e9".iter().copied()).take(100_000).flatten().collect();
        out.push(("appid:100k-escapes".into(), tpl(&esc, b"k", b"424242", b"0")));
        let arr: Vec<u8> = cat(&[b"[", &std::iter::repeat(b"0,".iter().copied()).take(200_000).flatten().collect::<Vec<u8>>(), b"0]"]);
        out.push(("ext-value:200k-array".into(), tpl(b"app1", b"k", b"424242", &arr)));
    }
    out
}

fn deep_text(kind: u64, depth: usize, closed: bool) -> String {
    let mut s = String::new();
    let mut closers: Vec<u8> = Vec::new();
    for d in 0..depth {
        let obj = match kind {
            0 => false,
            1 => true,
            _ => d % 2 == 0,
        };
        if obj {
            if d + 1 == depth {
                s.push('{');
            } else {
                s.push_str("{\"a\":");
            }
            closers.push(b'}');
        } else {
            s.push('[');
            closers.push(b']');
        }
    }
    if closed {
        for c in closers.iter().rev() {
            s.push(*c as char);
        }
    }
    s
}

/// place 0..=3: inside an extension attribute at PLACES[place] of a valid document; 4: whole input
fn deep_case(kind: u64, depth: usize, closed: bool, place: u64) -> Vec<u8> {
    let d = deep_text(kind, depth, closed);
    if place == 4 {
        return d.into_bytes();
    }
    let mut e = full_response(Some(7));
    let v = ("deep".to_string(), J::Str("@@DEEP@@".into()));
    let a = &mut e.apps[0];
    match place {
        0 => a.ext.push(v),
        1 => a.uc.as_mut().unwrap().ext.push(v),
        2 => a.uc.as_mut().unwrap().manifest.as_mut().unwrap().actions[0].ext.push(v),
        _ => a.uc.as_mut().unwrap().manifest.as_mut().unwrap().packages[0].ext.push(v),
    }
    let (j, _) = build(&e);
    let mut rng = Rng::new(0);
    let t = serialize(&j, &mut rng, &Style::compact());
    replace_bytes(t.as_bytes(), b"\"@@DEEP@@\"", d.as_bytes())
}

fn check_deep_text(r: &mut Report, kind: u64, depth: usize, closed: bool, place: u64) {
    let bytes = deep_case(kind, depth, closed, place);
    r.hit(R_DEEP);
    let pl = if place == 4 { "whole" } else { PLACES[place as usize] };
    r.eval(shape_of(&[R_DEEP, "text", &kind.to_string(), &depth.to_string(), if closed { "closed" } else { "open" }, pl]), true);
    match parse(&bytes) {
        Err(p) => report_panic(r, R_DEEP, &p, json!({"kind": "deep-text", "shape": kind, "depth": depth, "closed": closed, "place": place})),
        Ok(Ok(_)) => r.count("deep_text_ok", 1),
        Ok(Err(_)) => r.count("deep_text_err", 1),
    }
}

fn deep_section(args: &Args, r: &mut Report) {
    let miri = args.layer == "miri";
    let depths: &[usize] = if miri { &[100, 127, 128, 129, 200] } else { &[100, 127, 128, 129, 1000, 100_000] };
    let mut n = 0u64;
    for &depth in depths {
        for kind in 0..3u64 {
            for closed in [true, false] {
                for place in 0..5u64 {
                    n += 1;
                    if miri && !(args.mine(n) && n % 5 == 0) {
                        continue;
                    }
                    check_deep_text(r, kind, depth, closed, place);
                }
            }
        }
    }
    // depth <= 200: through the full faithful pipeline (Err is a don't-care, Ok must be faithful)
    for di in 0..DEEP_J_DEPTHS.len() as u64 {
        for place in 0..4u64 {
            for kind in 0..3u64 {
                let idx = deep_idx(kind, place, di);
                if miri && !(args.mine(idx) && idx % 6 == 0) {
                    continue;
                }
                let c = make_doc(args.seed, args.shard, S_DEEP, idx);
                r.hit(R_DEEP);
                judge_doc(r, &c, 0, false);
            }
        }
    }
}

fn on_small_stack(args: &Args, r: &mut Report, f: impl FnOnce(&Args, &mut Report) + Send) {
    std::thread::scope(|s| {
        let h = std::thread::Builder::new()
            .stack_size(2 << 20)
            .spawn_scoped(s, || f(args, r))
            .expect("spawn 2 MiB thread");
        if let Err(e) = h.join() {
            std::panic::resume_unwind(e);
        }
    });
}

// ---------------------------------------------------------------------------------------------
// Replay

fn replay_text(rp: &Value) -> Option<Vec<u8>> {
    if let Some(h) = rp.get("text_hex").or_else(|| rp.get("hex")).and_then(|v| v.as_str()) {
        return ::hex::decode(h).ok();
    }
    rp.get("text").and_then(|v| v.as_str()).map(|s| s.as_bytes().to_vec())
}

fn static_rule(s: &str) -> &'static str {
    for r in [R_FAITH, R_STATUS, R_COHORT, R_EXT, R_SIZE, R_URLS, R_XSSI, R_MISSING, R_TYPE, R_RANDOM, R_TRUNC, R_FLIP, R_DEEP] {
        if r == s {
            return r;
        }
    }
    R_RANDOM
}

fn run_replay(path: &str, r: &mut Report) {
    let file: Value = match std::fs::read(path).ok().and_then(|b| serde_json::from_slice(&b).ok()) {
        Some(v) => v,
        None => {
            r.inconclusive.push(format!("replay file {} unreadable", path));
            return;
        }
    };
    let rule = static_rule(file.get("rule").and_then(|v| v.as_str()).unwrap_or(""));
    let rp = file.get("replay").cloned().unwrap_or(Value::Null);
    let u = |k: &str| rp.get(k).and_then(|v| v.as_u64()).unwrap_or(0);
    match rp.get("kind").and_then(|v| v.as_str()).unwrap_or("") {
        "doc" => {
            let c = make_doc(u("seed"), u("shard"), u("stream"), u("idx"));
            if Some(c.text.as_bytes().to_vec()) != replay_text(&rp) {
                r.inconclusive.push("replay: regenerated document differs from the stored text (generator changed)".into());
                return;
            }
            if c.coords.2 == S_DEEP {
                r.hit(R_DEEP);
            }
            on_small_stack(&Args::parse(&[]), r, move |_, r| judge_doc(r, &c, 0, false));
        }
        "reject" => {
            let disc = rp.get("disc").and_then(|v| v.as_str()).unwrap_or("?").to_string();
            match replay_text(&rp).and_then(|b| String::from_utf8(b).ok()) {
                Some(t) => check_reject(r, if rule == R_MISSING { R_MISSING } else { R_TYPE }, &disc, 0, &t, true),
                None => r.inconclusive.push("replay: no text".into()),
            }
        }
        "xssi" => match replay_text(&rp).and_then(|b| String::from_utf8(b).ok()) {
            Some(t) => {
                let p = parse(t.as_bytes());
                check_xssi(r, &t, &p, "replay", 0);
            }
            None => r.inconclusive.push("replay: no text".into()),
        },
        "bytes" => match replay_text(&rp) {
            Some(b) => {
                let kind = rp.get("mutation").and_then(|v| v.as_str()).unwrap_or("replay").to_string();
                check_total(r, rule, &kind, &b);
            }
            None => r.inconclusive.push("replay: no bytes".into()),
        },
        "deep-text" => {
            let (kind, depth, place) = (u("shape"), u("depth") as usize, u("place"));
            let closed = rp.get("closed").and_then(|v| v.as_bool()).unwrap_or(true);
            on_small_stack(&Args::parse(&[]), r, move |_, r| check_deep_text(r, kind, depth, closed, place));
        }
        k => r.inconclusive.push(format!("replay: unknown kind {:?}", k)),
    }
}

// ---------------------------------------------------------------------------------------------

pub fn run(args: &Args, r: &mut Report) {
    r.rule_text = "Faithful set: an own grammar generator draws an expected field tree (0..3 apps; per app status from \
{ok, restricted, noupdate, known error-*, empty, near variants such as \"OK\"/\" ok\", random text}, each cohort field \
absent/empty/non-empty, optional ping / updatecheck / events, 0..2 url codebases, optional manifest with 0..2 actions and \
0..3 packages, size over boundary classes of the whole u64 range, extension attributes of every JSON kind at app / \
updatecheck / action / package) and writes the document with an own serializer (random member order, insignificant \
whitespace, \\uXXXX escapes incl. surrogate pairs vs raw UTF-8, escaped keys).  Each document is parsed and compared field by \
field (plus get_all_url_codebases / get_all_packages / get_all_full_urls / get_manifest_version), parsed again behind the \
)]}'\\n prefix, and re-serialized with one required member deleted (per field name) and one field wrongly typed (per field \
name; optional=null is not produced) which must be rejected.  Fixed probes per shard: every size boundary, every status of \
the pool at all four status sites, all 27 cohort absent/empty/non-empty patterns, extensions at the four extension points.  \
Byte-level set (no panic / no crash only): random bytes of several alphabets and lengths 0..4096, every truncation offset of \
generated documents, bit flips and splices of generated documents, hand-made odd inputs (invalid UTF-8, lone surrogates, huge \
numbers, NUL, BOM, duplicate keys, near-miss prefixes), nesting of arrays/objects at depths 100..100000 as whole input and \
inside an extension attribute, run on a 2 MiB-stack thread.  A case's shape is (rule, #apps, per-app status class, cohort \
pattern, presence of ping/events/updatecheck/manifest, #urls, #actions, #packages, size classes, extension placement, \
serializer style, string-content class); for rejections (field, wrong type, #apps); for byte-level (mutation kind, length \
bucket).  Non-trivial = anything other than the minimal one-app no-update document."
        .into();
    r.require(&[R_FAITH, R_STATUS, R_COHORT, R_EXT, R_SIZE, R_URLS, R_XSSI, R_MISSING, R_TYPE, R_RANDOM, R_TRUNC, R_FLIP, R_DEEP]);
    r.assume("serde_json's tokenizer/deserializer is part of the code under test; the document text and the expected tree come from the harness's own generator and serializer");
    r.assume("serde_json::Value is used by the harness only as a container for expected extension values (built by hand, never parsed)");
    r.assume("Ping.status is private: compared through the derived Debug rendering");
    r.assume("a stack overflow cannot be caught in-process; the runner reports the abnormal exit of the shard");

    if let Some(p) = &args.replay {
        run_replay(p, r);
        return;
    }
    let miri = args.layer == "miri";
    let pos_on = args.extra.get("positional").map(|s| s != "off").unwrap_or(true);
    r.count("positional_array_check", pos_on as u64);

    // template sanity: the hand-written template is a well-formed document
    match parse(&template(b"app1", b"k", b"424242", b"0")) {
        Ok(Ok(_)) => {}
        Ok(Err(e)) => viol(r, R_FAITH, "faithful-fields template-document-rejected", format!("template rejected: {}", e), json!({"kind": "bytes", "hex": hex(&template(b"app1", b"k", b"424242", b"0"))})),
        Err(p) => report_panic(r, R_FAITH, &p, json!({"kind": "bytes", "hex": hex(&template(b"app1", b"k", b"424242", b"0"))})),
    }

    let t0 = std::time::Instant::now();
    let trace = |what: &str| {
        if std::env::var_os("C16_TRACE").is_some() {
            eprintln!("[c16] {:>8.1}s {}", t0.elapsed().as_secs_f64(), what);
        }
    };
    trace("start");
    // fixed probes
    for i in 0..N_PROBES {
        if miri && !args.mine(i) {
            continue;
        }
        let c = make_doc(args.seed, args.shard, S_PROBE, i);
        judge_doc(r, &c, if miri { 0 } else { usize::MAX }, pos_on);
    }
    r.count("probe_documents", N_PROBES);
    trace("probes done");

    // generated documents
    let ndocs = if miri { 6 } else { args.budget(15_000, 500_000) };
    for i in 0..ndocs {
        let c = make_doc(args.seed, args.shard, S_DOC, i);
        judge_doc(r, &c, if miri { 4 } else { usize::MAX }, pos_on);
    }
    r.count("generated_documents", ndocs);
    trace("documents done");

    // byte level
    let nbytes = if miri { 60 } else { args.budget(100_000, 3_000_000) };
    let share = nbytes / 3;
    for k in 0..share {
        let mut rng = Rng::derive(args.seed, args.shard, S_BYTES, k);
        let kind = (k % RANDOM_KINDS.len() as u64) as usize;
        let mut b = random_case(&mut rng, kind);
        if miri {
            b.truncate(300);
        }
        check_total(r, R_RANDOM, RANDOM_KINDS[kind], &b);
    }
    {
        let mut done = 0u64;
        let mut n = 0u64;
        while done < share {
            let c = make_doc(args.seed, args.shard, S_TRUNC, n);
            let prefixed = n % 2 == 1;
            let mut b = if prefixed { XSSI.to_vec() } else { vec![] };
            b.extend_from_slice(c.text.as_bytes());
            let kind = if prefixed { "cut-prefixed" } else { "cut-plain" };
            if miri {
                let mut rng = Rng::derive(args.seed, args.shard, S_TRUNC, 1_000_000 + n);
                for _ in 0..10 {
                    let off = rng.usize(b.len());
                    check_total(r, R_TRUNC, kind, &b[..off]);
                    done += 1;
                }
            } else {
                for off in 0..b.len() {
                    check_total(r, R_TRUNC, kind, &b[..off]);
                    done += 1;
                }
            }
            n += 1;
        }
        r.count("truncated_documents", n);
    }
    trace("random + truncations done");
    let mut flip_doc: Option<(u64, DocCase)> = None;
    for k in 0..share {
        if flip_doc.as_ref().map(|(n, _)| *n) != Some(k / 16) {
            flip_doc = Some((k / 16, make_doc(args.seed, args.shard, S_FLIP, k / 16)));
        }
        let c = &flip_doc.as_ref().unwrap().1;
        let mut rng = Rng::derive(args.seed, args.shard, S_FLIP, 1_000_000_000 + k);
        let kind = (k % FLIP_KINDS.len() as u64) as usize;
        let mut src = if rng.chance(1, 6) { XSSI.to_vec() } else { vec![] };
        src.extend_from_slice(c.text.as_bytes());
        let b = mutate(&mut rng, kind, &src);
        check_total(r, R_FLIP, FLIP_KINDS[kind], &b);
    }
    for (i, (name, spec)) in special_cases(miri).into_iter().enumerate() {
        if miri && !args.mine(i as u64) {
            continue;
        }
        check_total(r, R_RANDOM, &format!("special:{}", name), &spec.bytes());
    }
    let _ = S_SPECIAL;
    trace("flips + specials done");

    // deep nesting, on a 2 MiB stack
    on_small_stack(args, r, deep_section);
    trace("deep nesting done");
}
