//! C10 — Every update outcome is reported to Omaha exactly once.

use crate::common::{Args, Report, Rng};
use crate::props::gen::*;
use crate::props::monitors::*;
use crate::sim::world::*;
use serde_json::json;

const REPORTING: [Path; 5] = [Path::ParseError, Path::PlanError, Path::Deferred, Path::Denied, Path::Install];
const DELIV: [&str; 5] = ["ok", "transport", "status", "status+ra", "forged"];

fn delivery(sym: &str, rng: &mut Rng) -> RespSpec {
    match sym {
        "ok" => RespSpec::ack(),
        "transport" => {
            if rng.bool() {
                RespSpec::Transport
            } else {
                RespSpec::Timeout
            }
        }
        "status" => RespSpec::Reply(ReplySpec { body: if rng.bool() { BodySpec::Ack { daystart: None, cohort: [None, None, None] } } else { BodySpec::Raw(vec![]) }, ..ReplySpec::status(*rng.pick(&[400u16, 404, 500, 503, 302, 304, 307, 102])) }),
        "status+ra" => RespSpec::Reply(ReplySpec::status(*rng.pick(&[429u16, 503])).with_retry_after(b"77")),
        _ => RespSpec::Reply(
            ReplySpec::ok(BodySpec::Ack { daystart: None, cohort: [None, None, None] })
                .with_etag(rng.pick(&[EtagSpec::Absent, EtagSpec::ForeignKey, EtagSpec::FlipSig, EtagSpec::OtherBody]).clone()),
        ),
    }
}

pub fn run(args: &Args, r: &mut Report) {
    r.rule_text = "Fault enumeration: reporting paths {unparseable body, plan error, deferred, denied, install} x 1..3 apps (any subset \
        offered, unknown ids, app-set order vs response order) x per-app installer results x EVERY vector of delivery outcomes \
        {ok, transport, status, status + X-Retry-After, forged (CUP)} over the up-to-3 report positions (125 vectors), one-shot and \
        start() mode; reports are compared against the model (apps as a set, events as a sequence, numeric codes, previous / next \
        version, session id, fresh request ids) and lost-event metrics are bounded by the delivery outcomes.  Shape key = mode, CUP, \
        #apps, path + response letters + result vector + delivery vector.  Non-trivial = at least one report expected."
        .into();
    r.require(&[
        "c10-report-sequence",
        "c10-report-session",
        "c10-report-content",
        "c10-lost-event-accounting",
        "c10-fresh-request-ids",
        "c10-no-empty-report",
        "c04-states-path",
        "c04-result-actions",
    ]);
    r.assume("whether a report whose app list would be empty (only unknown ids offered) is sent is a don't-care");
    r.assume("the download_time_ms attribute of events is not part of the statement and is not compared");
    let n_total = if args.thorough() { 125 * 5 * 3 * 2 * 2 * 20 } else { 125 * 5 * 3 * 2 * 2 * 2 };
    let n_total = (n_total as f64 * args.scale) as u64;
    for gi in 0..n_total {
        if !args.mine(gi) || args.skip(gi) {
            continue;
        }
        let i = gi;
        let mut rng = Rng::derive(args.seed, 10, i, 2);
        let dv = (gi % 125) as usize;
        let path = REPORTING[((gi / 125) % 5) as usize];
        let n_apps = 1 + ((gi / 625) % 3) as usize;
        let cup = (gi / 1875) % 2 == 1;
        let start_mode = (gi / 3750) % 2 == 1;
        let dvec = [DELIV[dv % 5], DELIV[(dv / 5) % 5], DELIV[dv / 25]];
        if !cup && dvec.contains(&"forged") {
            continue;
        }
        let cfg = HistCfg { start_mode, cup, n_apps, paths: vec![path], cohorts: false, deliveries: false, random_params: true, throttles: false };
        let mut case = gen_history(&mut rng, &cfg);
        // products released in lock-step: same installed version, same offered version, same installer result
        // (their per-app events are then equal as values, yet each one is an event of its own)
        if n_apps > 1 && rng.chance(1, 5) {
            let v = case.setup.apps[0].version;
            for a in case.setup.apps.iter_mut() {
                a.version = v;
            }
            for cs in case.script.checks.iter_mut() {
                if let Some(RespSpec::Reply(rep)) = cs.attempts.last_mut() {
                    if let BodySpec::Doc(doc) = &mut rep.body {
                        for a in doc.apps.iter_mut() {
                            if let Some(u) = a.updatecheck.as_mut() {
                                if u.status == "ok" {
                                    *u = UcSpec::ok(Some("9.9.9.0"));
                                }
                            }
                        }
                    }
                }
                let first = cs.results.first().copied();
                if let Some(f) = first {
                    for x in cs.results.iter_mut() {
                        *x = f;
                    }
                }
            }
            case.shape.push("lock-step".into());
        }
        case.script.checks[0].reports = dvec.iter().map(|s| delivery(s, &mut rng)).collect();
        case.shape.push(dvec.join(","));
        case.nontrivial = true;
        let run = run_case(&case, &mut rng);
        r.eval(case.shape_key(), case.nontrivial);
        r.interleavings.insert(run.sig);
        let mut m = Mon::default();
        mon_c10(&run.flow, &mut m);
        // "never changes the check's outcome": the announced states and result are those of the model,
        // which does not look at report delivery at all
        mon_c04(&run.flow, &case.setup, &mut m);
        if let Some(p) = &run.panicked {
            report_panic(r, args, i, p, &run.w, case_desc(&case));
        }
        if r.want_sample() && gi % 211 == 0 {
            if let Some(c) = run.flow.checks.first() {
                r.sample(json!({
                    "case": i, "shape": case.shape,
                    "reports_sent": c.reports.iter().map(|q| json!({"body": q.json, "delivery": q.resp.as_ref().map(|x| x.1.class())})).collect::<Vec<_>>(),
                    "reports_expected": c.exp.reports.iter().map(|x| format!("{:?}", x)).collect::<Vec<_>>(),
                    "lost_metrics": c.metrics.iter().filter(|x| matches!(x.1, MetricSnap::EventLost(_))).count(),
                }));
            }
        }
        absorb(r, args, i, m, &run.w, case_desc(&case));
    }
}
