use crate::common::{Args, Report};
pub fn run(_args: &Args, _r: &mut Report) {}
