//! C19 — "Times survive persistence and compare consistently".
//!
//! Oracle: independent reference arithmetic in i128 nanoseconds relative to the UNIX epoch for wall
//! times and in nanoseconds relative to one fixed base `Instant` for monotonic times.  The library
//! (`omaha_client::time`, `StorageExt::{get_time,set_time}` and the update-check `Context` persist / load over `MemStorage`) is run on boundary
//! biased inputs and every result is compared with that reference.

use crate::common::{guard, Args, Fnv, PanicInfo, Report, Rng};
use futures::executor::block_on;
use omaha_client::storage::{MemStorage, Storage, StorageExt};
use omaha_client::time::system_time_conversion::{
    checked_system_time_to_micros_from_epoch as lib_to_micros,
    micros_from_epoch_to_system_time as lib_from_micros,
};
use omaha_client::time::{ComplexTime, PartialComplexTime};
use serde_json::{json, Value};
use std::collections::BTreeMap;
use std::time::{Duration, Instant, SystemTime};

const NS_PER_S: i128 = 1_000_000_000;
/// 2^63 microseconds, in nanoseconds: the edge of what fits an i64 microsecond count.
const EDGE_NS: i128 = (1i128 << 63) * 1000;
/// +/- 300 000 Julian years in nanoseconds (slightly beyond +/- 2^63 us).
const WALL_LIM_NS: i128 = 300_000 * 31_557_600 * NS_PER_S;
/// Monotonic offsets stay within [base, base + 200 years].
const MONO_MAX_NS: u128 = 200 * 31_557_600 * 1_000_000_000;

const RULES: [&str; 7] = [
    "micros-roundtrip",
    "to-micros-trunc",
    "storage-roundtrip",
    "truncate-agrees",
    "truncate-idempotent",
    "arith-components",
    "after-or-eq-any",
];

// ---------------------------------------------------------------------------------------------
// Reference arithmetic (trusted base: std Duration/SystemTime/Instant checked ops + i128 maths)

/// epoch + n ns, or None when the platform SystemTime cannot represent it.
fn st_from_ns(n: i128) -> Option<SystemTime> {
    let a = n.unsigned_abs();
    let secs = u64::try_from(a / NS_PER_S as u128).ok()?;
    let d = Duration::new(secs, (a % NS_PER_S as u128) as u32);
    if n >= 0 {
        SystemTime::UNIX_EPOCH.checked_add(d)
    } else {
        SystemTime::UNIX_EPOCH.checked_sub(d)
    }
}
/// Signed nanoseconds of `t` relative to the epoch.
fn ns_of_st(t: SystemTime) -> i128 {
    match t.duration_since(SystemTime::UNIX_EPOCH) {
        Ok(d) => d.as_nanos() as i128,
        Err(e) => -(e.duration().as_nanos() as i128),
    }
}
/// Reference microsecond count: truncation toward the epoch, None when it does not fit i64.
fn ref_micros(n: i128) -> Option<i64> {
    i64::try_from(n / 1000).ok() // i128 `/` truncates toward zero
}
fn dur_from_ns(ns: u128) -> Duration {
    Duration::new((ns / NS_PER_S as u128) as u64, (ns % NS_PER_S as u128) as u32)
}
fn mono_at(base: Instant, off: u64) -> Instant {
    base + Duration::from_nanos(off)
}
/// Signed nanoseconds of `i` relative to `base`.
fn off_of(base: Instant, i: Instant) -> i128 {
    match i.checked_duration_since(base) {
        Some(d) => d.as_nanos() as i128,
        None => -(base.duration_since(i).as_nanos() as i128),
    }
}

/// Normal form of a (partial) complex time in reference units: (variant tag, wall ns, mono ns).
/// tag 0 = ComplexTime struct, 1 = Wall, 2 = Monotonic, 3 = PartialComplexTime::Complex.
type Norm = (u8, Option<i128>, Option<i128>);
fn norm_c(base: Instant, c: ComplexTime) -> Norm {
    (0, Some(ns_of_st(c.wall)), Some(off_of(base, c.mono)))
}
fn norm_p(base: Instant, p: PartialComplexTime) -> Norm {
    match p {
        PartialComplexTime::Wall(w) => (1, Some(ns_of_st(w)), None),
        PartialComplexTime::Monotonic(m) => (2, None, Some(off_of(base, m))),
        PartialComplexTime::Complex(c) => (3, Some(ns_of_st(c.wall)), Some(off_of(base, c.mono))),
    }
}
const VAR_NAMES: [&str; 4] = ["ComplexTime", "Wall", "Monotonic", "Complex"];

// ---------------------------------------------------------------------------------------------
// Classification for shape keys

fn bits(x: u128) -> u64 {
    (128 - x.leading_zeros()) as u64
}
fn rem_class(n: i128) -> u64 {
    match n.unsigned_abs() % 1000 {
        0 => 0,
        1 => 1,
        999 => 2,
        _ => 3,
    }
}
fn boundary_micros() -> Vec<i64> {
    let mut v = vec![
        i64::MIN,
        i64::MIN + 1,
        i64::MIN + 999,
        -1_000_001,
        -1_000_000,
        -999_999,
        -1000,
        -999,
        -1,
        0,
        1,
        999,
        1000,
        999_999,
        1_000_000,
        1_000_001,
        i64::MAX - 999,
        i64::MAX - 1,
        i64::MAX,
    ];
    for k in 1..63 {
        let p = 1i64 << k;
        v.extend_from_slice(&[p - 1, p, p + 1, -(p - 1), -p, -(p + 1)]);
    }
    v.sort_unstable();
    v.dedup();
    v
}
/// Is this microsecond count one of the named boundary values (or within 1 of a power of two)?
fn micros_is_boundary(m: i64) -> bool {
    let a = m.unsigned_abs();
    let near_pow2 = |x: u64| x.is_power_of_two() || (x + 1).is_power_of_two() || (x > 1 && (x - 1).is_power_of_two());
    a <= 1000 || (999_999..=1_000_001).contains(&a) || a >= (1u64 << 63) - 1000 || near_pow2(a)
}
fn wall_is_boundary(n: i128) -> bool {
    let a = n.abs();
    a <= 2000 || (a - EDGE_NS).abs() <= 2000 || ref_micros(n).map_or(true, micros_is_boundary)
}
fn wall_shape(f: &mut Fnv, n: i128) {
    f.u64((n < 0) as u64).u64(bits(n.unsigned_abs())).u64(rem_class(n));
    f.u64(match ref_micros(n) {
        None => 2,
        Some(m) => micros_is_boundary(m) as u64,
    });
}
fn dur_class(d: Duration) -> u64 {
    let ns = d.as_nanos();
    let kind = if ns == 0 {
        0
    } else if ns < 1000 {
        1
    } else if ns % 1000 == 0 {
        2
    } else {
        3
    };
    kind * 32 + bits(ns) / 4
}

// ---------------------------------------------------------------------------------------------
// Cases

#[derive(Clone, Debug)]
enum Case {
    Micros(i64),
    Wall(i128),
    /// var 0..=3 (see `Norm`), wall ns, mono offset ns, duration.
    Arith { var: u8, n: i128, mo: u64, d: Duration },
    /// var 1..=3 built from (n, mo) and completed with (cn, cmo); `alt` selects the From route.
    Build { var: u8, n: i128, mo: u64, cn: i128, cmo: u64, alt: bool },
    /// self = (n, mo); other has variant `var` (0 = ComplexTime passed directly) over (pn, pmo).
    After { var: u8, n: i128, mo: u64, pn: i128, pmo: u64, alt: bool },
}

impl Case {
    fn to_json(&self) -> Value {
        match self {
            Case::Micros(m) => json!({"kind": "micros", "m": m.to_string()}),
            Case::Wall(n) => json!({"kind": "wall", "n_ns": n.to_string()}),
            Case::Arith { var, n, mo, d } => json!({"kind": "arith", "var": var, "n_ns": n.to_string(),
                "mono_ns": mo.to_string(), "d_ns": d.as_nanos().to_string()}),
            Case::Build { var, n, mo, cn, cmo, alt } => json!({"kind": "build", "var": var,
                "n_ns": n.to_string(), "mono_ns": mo.to_string(), "c_n_ns": cn.to_string(),
                "c_mono_ns": cmo.to_string(), "alt": alt}),
            Case::After { var, n, mo, pn, pmo, alt } => json!({"kind": "after", "var": var,
                "n_ns": n.to_string(), "mono_ns": mo.to_string(), "p_n_ns": pn.to_string(),
                "p_mono_ns": pmo.to_string(), "alt": alt}),
        }
    }
    fn from_json(v: &Value) -> Option<Case> {
        let s = |k: &str| v.get(k).and_then(|x| x.as_str());
        let i = |k: &str| s(k).and_then(|x| x.parse::<i128>().ok());
        let u = |k: &str| s(k).and_then(|x| x.parse::<u64>().ok());
        let var = v.get("var").and_then(|x| x.as_u64()).unwrap_or(0) as u8;
        let alt = v.get("alt").and_then(|x| x.as_bool()).unwrap_or(false);
        Some(match v.get("kind")?.as_str()? {
            "micros" => Case::Micros(s("m")?.parse().ok()?),
            "wall" => Case::Wall(i("n_ns")?),
            "arith" => Case::Arith {
                var: var.min(3),
                n: i("n_ns")?,
                mo: u("mono_ns")?,
                d: dur_from_ns(s("d_ns")?.parse::<u128>().ok()?),
            },
            "build" => Case::Build {
                var: var.clamp(1, 3),
                n: i("n_ns")?,
                mo: u("mono_ns")?,
                cn: i("c_n_ns")?,
                cmo: u("c_mono_ns")?,
                alt,
            },
            "after" => Case::After {
                var: var.min(3),
                n: i("n_ns")?,
                mo: u("mono_ns")?,
                pn: i("p_n_ns")?,
                pmo: u("p_mono_ns")?,
                alt,
            },
            _ => return None,
        })
    }
}

struct Ctx<'a> {
    r: &'a mut Report,
    base: Instant,
    sampled: u32,
    seen: BTreeMap<String, u32>,
}

impl Ctx<'_> {
    /// Report a violation; at most 2 per signature and shard so that a systematic defect cannot
    /// crowd other signatures out of the bounded report.
    fn viol(&mut self, rule: &str, sig: String, detail: String, case: &Case) {
        let k = self.seen.entry(sig.clone()).or_insert(0);
        *k += 1;
        if *k <= 2 {
            self.r.violation(rule, &sig, detail, case.to_json());
        } else {
            self.r.count(&format!("more_violations[{sig}]"), 1);
        }
    }
    fn panicked(&mut self, rule: &str, p: PanicInfo, case: &Case) {
        let sig = format!("panic@{}", p.site());
        self.viol(rule, sig, format!("panic `{}` at {} while judging {}", p.msg, p.loc, rule), case);
    }
    fn sample(&mut self, kind: u32, v: impl FnOnce() -> Value) {
        if self.sampled & (1 << kind) == 0 && self.r.want_sample() {
            self.sampled |= 1 << kind;
            self.r.sample(v());
        }
    }
    fn skip(&mut self) {
        self.r.count("skipped_unrepresentable", 1);
    }

    fn run(&mut self, case: &Case) {
        match *case {
            Case::Micros(m) => self.check_micros(m, case),
            Case::Wall(n) => self.check_wall(n, case),
            Case::Arith { var, n, mo, d } => self.check_arith(var, n, mo, d, case),
            Case::Build { var, n, mo, cn, cmo, alt } => self.check_build(var, n, mo, cn, cmo, alt, case),
            Case::After { var, n, mo, pn, pmo, alt } => self.check_after(var, n, mo, pn, pmo, alt, case),
        }
    }

    /// micros-roundtrip (+ the PartialComplexTime micros helpers and storage on the exact instant).
    fn check_micros(&mut self, m: i64, case: &Case) {
        let n = m as i128 * 1000;
        let Some(expect_t) = st_from_ns(n) else { return self.skip() };
        let mut f = Fnv::new();
        f.str("micros-roundtrip");
        wall_shape(&mut f, n);
        self.r.eval(f.finish(), m < 0 || micros_is_boundary(m));
        self.r.hit("micros-roundtrip");
        let which = if m == i64::MIN { "m=i64::MIN" } else { "other" };
        match guard(|| {
            let t = lib_from_micros(m);
            (t, lib_to_micros(t))
        }) {
            Err(p) => self.panicked("micros-roundtrip", p, case),
            Ok((t, back)) => {
                if t != expect_t {
                    self.viol("micros-roundtrip", format!("micros-roundtrip {which}"),
                        format!("micros_from_epoch_to_system_time({m}) = epoch{:+} ns, expected epoch{:+} ns", ns_of_st(t), n), case);
                }
                if back != Some(m) {
                    self.viol("micros-roundtrip", format!("micros-roundtrip {which}"),
                        format!("to_micros(from_micros({m})) = {back:?}, expected Some({m})"), case);
                }
                self.sample(0, || json!({"rule": "micros-roundtrip", "m": m, "system_time_ns": ns_of_st(t).to_string(),
                    "back": back, "expected_back": m}));
            }
        }
        // PartialComplexTime::from_micros_since_epoch must be the Wall variant at the same instant.
        self.r.hit("storage-roundtrip");
        match guard(|| PartialComplexTime::from_micros_since_epoch(m)) {
            Err(p) => self.panicked("storage-roundtrip", p, case),
            Ok(p) => {
                if norm_p(self.base, p) != (1, Some(n), None) {
                    let which = if m == i64::MIN { "t=i64::MIN-micros" } else { "other" };
                    self.viol("storage-roundtrip", format!("storage-roundtrip {which}"),
                        format!("PartialComplexTime::from_micros_since_epoch({m}) = {:?}, expected Wall(epoch{:+} ns)", norm_p(self.base, p), n), case);
                }
            }
        }
        self.check_storage(expect_t, n, case);
    }

    /// storage-roundtrip: set_time / get_time through MemStorage, and PartialComplexTime micros.
    fn check_storage(&mut self, t: SystemTime, n: i128, case: &Case) {
        let em = ref_micros(n);
        let expect = em.and_then(|m| st_from_ns(m as i128 * 1000));
        let mut f = Fnv::new();
        f.str("storage-roundtrip");
        wall_shape(&mut f, n);
        self.r.eval(f.finish(), n < 0 || rem_class(n) != 0 || wall_is_boundary(n));
        self.r.hit("storage-roundtrip");
        let via_complex = n & 2 != 0; // set_time takes `impl Into<SystemTime>`
        let mono = self.base;
        let which = if em == Some(i64::MIN) { "t=i64::MIN-micros" } else { "other" };
        match guard(|| {
            let mut s = MemStorage::new();
            let _ = block_on(s.set_int("t", 42)); // an older value: not fitting must act as remove
            let set_ok = if via_complex {
                block_on(s.set_time("t", ComplexTime { wall: t, mono })).is_ok()
            } else {
                block_on(s.set_time("t", t)).is_ok()
            };
            let before_commit = block_on(s.get_time("t"));
            let commit_ok = block_on(s.commit()).is_ok();
            let got = block_on(s.get_time("t"));
            let pm = PartialComplexTime::Wall(t).checked_to_micros_since_epoch();
            let none_m = PartialComplexTime::Monotonic(mono).checked_to_micros_since_epoch();
            // the same instant stored and reloaded the way the state machine stores its own times: as the
            // last-update time of the update-check context
            let ctx = omaha_client::state_machine::update_check::Context {
                schedule: omaha_client::common::UpdateCheckSchedule::builder().last_update_time(PartialComplexTime::Wall(t)).build(),
                state: omaha_client::common::ProtocolState::default(),
            };
            let mut s2 = MemStorage::new();
            block_on(ctx.persist(&mut s2));
            let _ = block_on(s2.commit());
            let back = block_on(omaha_client::state_machine::update_check::Context::load(&s2));
            let ctx_got = back.schedule.last_update_time.and_then(|p| p.checked_to_system_time());
            // history on the same store: a context without a wall-clock time replaces the stored instant by nothing
            let ctx2 = omaha_client::state_machine::update_check::Context {
                schedule: if n & 1 == 0 {
                    omaha_client::common::UpdateCheckSchedule::builder().build()
                } else {
                    omaha_client::common::UpdateCheckSchedule::builder().last_update_time(PartialComplexTime::Monotonic(mono)).build()
                },
                state: omaha_client::common::ProtocolState::default(),
            };
            block_on(ctx2.persist(&mut s2));
            let _ = block_on(s2.commit());
            let back2 = block_on(omaha_client::state_machine::update_check::Context::load(&s2));
            let ctx_after_clear = back2.schedule.last_update_time;
            (set_ok, commit_ok, before_commit, got, pm, none_m, ctx_got, ctx_after_clear)
        }) {
            Err(p) => self.panicked("storage-roundtrip", p, case),
            Ok((set_ok, commit_ok, before_commit, got, pm, none_m, ctx_got, ctx_after_clear)) => {
                if ctx_after_clear.is_some() {
                    self.viol("storage-roundtrip", "storage-roundtrip context stale-after-clear".into(),
                        format!("a Context without a wall-clock last_update_time was persisted over epoch{:+} ns, yet a reload yields {:?}", n, ctx_after_clear), case);
                }
                if ctx_got != expect {
                    let show = |x: Option<SystemTime>| x.map(|t| format!("epoch{:+} ns", ns_of_st(t)));
                    self.viol("storage-roundtrip", format!("storage-roundtrip context {}", if n < 0 { "pre-epoch" } else { "post-epoch" }),
                        format!("update-check Context persisted with last_update_time epoch{:+} ns reloads as {:?}, expected {:?}", n, show(ctx_got), show(expect)), case);
                }
                let show = |x: Option<SystemTime>| x.map(|t| format!("epoch{:+} ns", ns_of_st(t)));
                if !set_ok || !commit_ok || got != expect || before_commit != expect {
                    self.viol("storage-roundtrip", format!("storage-roundtrip {which}"),
                        format!("set_time(epoch{:+} ns) ok={set_ok} commit ok={commit_ok}; get_time = {:?} (before commit {:?}), expected {:?}",
                            n, show(got), show(before_commit), show(expect)), case);
                }
                if pm != em || none_m.is_some() {
                    self.viol("storage-roundtrip", format!("storage-roundtrip {which}"),
                        format!("PartialComplexTime::Wall(epoch{:+} ns).checked_to_micros_since_epoch() = {pm:?}, expected {em:?}; Monotonic gave {none_m:?}, expected None", n), case);
                }
                if n < 0 && rem_class(n) != 0 {
                    self.sample(1, || json!({"rule": "storage-roundtrip", "stored_ns": n.to_string(),
                        "reloaded": show(got), "expected": show(expect)}));
                }
            }
        }
    }

    /// to-micros-trunc, storage-roundtrip, truncate-agrees, truncate-idempotent on epoch + n ns.
    fn check_wall(&mut self, n: i128, case: &Case) {
        let Some(t) = st_from_ns(n) else { return self.skip() };
        if ns_of_st(t) != n {
            self.r.inconclusive.push(format!("reference self-check failed for n={n}"));
            return;
        }
        let em = ref_micros(n);
        let nontrivial = n < 0 || rem_class(n) != 0 || wall_is_boundary(n);
        let era = if n < 0 { "pre-epoch" } else { "post-epoch" };
        let shape = |rule: &str| {
            let mut f = Fnv::new();
            f.str(rule);
            wall_shape(&mut f, n);
            f.finish()
        };

        self.r.eval(shape("to-micros-trunc"), nontrivial);
        self.r.hit("to-micros-trunc");
        match guard(|| lib_to_micros(t)) {
            Err(p) => self.panicked("to-micros-trunc", p, case),
            Ok(got) => {
                if got != em {
                    let which = if em == Some(i64::MIN) { "t=i64::MIN-micros" } else { "other" };
                    self.viol("to-micros-trunc", format!("to-micros-trunc {which}"),
                        format!("checked_system_time_to_micros_from_epoch(epoch{:+} ns) = {got:?}, expected {em:?}", n), case);
                }
            }
        }

        self.check_storage(t, n, case);

        let mo = (n.unsigned_abs() % 1_000_000_007) as u64;
        let c = ComplexTime { wall: t, mono: mono_at(self.base, mo) };
        self.r.eval(shape("truncate-agrees"), nontrivial);
        self.r.eval(shape("truncate-idempotent"), nontrivial);
        match guard(|| {
            let once = c.truncate_submicrosecond_walltime();
            (once, once.truncate_submicrosecond_walltime())
        }) {
            Err(p) => {
                self.r.hit("truncate-agrees");
                self.panicked("truncate-agrees", p, case)
            }
            Ok((once, twice)) => {
                self.r.hit("truncate-agrees");
                let want = (n / 1000) * 1000;
                let (_, w1, m1) = norm_c(self.base, once);
                // The statement ties the helper to the storage round trip; where that round trip
                // is undefined (does not fit i64 us) only the monotonic part is judged.
                let wall_bad = em.is_some() && w1 != Some(want);
                if em.is_none() {
                    self.r.count("truncate_wall_dont_care_out_of_i64_range", 1);
                }
                if wall_bad || m1 != Some(mo as i128) {
                    self.viol("truncate-agrees", format!("truncate-agrees {era}"),
                        format!("truncate_submicrosecond_walltime(wall epoch{:+} ns, mono base+{mo}) = (wall epoch{:+} ns, mono base{:+}); expected wall epoch{:+} ns, mono unchanged",
                            n, w1.unwrap_or(0), m1.unwrap_or(0), want), case);
                }
                self.r.hit("truncate-idempotent");
                // the same helper on the library's settable clock: every handle of the clock (clones taken
                // before the call included) reads the truncated time, and truncating again changes nothing
                if em.is_some() {
                    use omaha_client::time::{MockTimeSource, TimeSource};
                    let r2 = guard(|| {
                        let mut src = MockTimeSource::new(c);
                        let other = src.clone();
                        src.truncate_submicrosecond_walltime();
                        let (x, y) = (src.now(), other.now());
                        src.truncate_submicrosecond_walltime();
                        (x, y, src.now())
                    });
                    match r2 {
                        Err(p) => self.panicked("truncate-idempotent", p, case),
                        Ok((x, y, z)) => {
                            if x != once || y != once || z != once {
                                self.viol("truncate-idempotent", format!("truncate-idempotent clock-handles {era}"),
                                    format!("settable clock at wall epoch{:+} ns: after truncate the truncating handle reads {:?}, a clone taken before reads {:?}, after a second truncate {:?}; expected {:?} everywhere", n, x, y, z, once), case);
                            }
                        }
                    }
                }
                if twice != once {
                    let (_, w2, m2) = norm_c(self.base, twice);
                    self.viol("truncate-idempotent", format!("truncate-idempotent {era}"),
                        format!("truncating wall epoch{:+} ns once gives epoch{:+} ns, twice gives epoch{:+} ns (mono {:?} vs {:?})",
                            n, w1.unwrap_or(0), w2.unwrap_or(0), m1, m2), case);
                }
                if n > 0 && rem_class(n) == 3 {
                    self.sample(2, || json!({"rule": "truncate-agrees", "wall_ns": n.to_string(),
                        "truncated_ns": w1.map(|x| x.to_string()), "expected_ns": want.to_string(), "to_micros": em}));
                }
            }
        }
    }

    /// arith-components: + d, - d, += d, -= d on ComplexTime and the three partial variants.
    fn check_arith(&mut self, var: u8, n: i128, mo: u64, d: Duration, case: &Case) {
        let (has_w, has_m) = (var != 2, var != 1);
        let Some(w) = st_from_ns(n) else { return self.skip() };
        let m = mono_at(self.base, mo);
        let dn = d.as_nanos() as i128;
        let add_ok = (!has_w || st_from_ns(n + dn).is_some()) && (!has_m || mo as u128 + dn as u128 <= MONO_MAX_NS);
        let sub_ok = (!has_w || st_from_ns(n - dn).is_some()) && (!has_m || dn <= mo as i128);
        let c = ComplexTime { wall: w, mono: m };
        let p = match var {
            1 => PartialComplexTime::Wall(w),
            2 => PartialComplexTime::Monotonic(m),
            _ => PartialComplexTime::Complex(c),
        };
        let base = self.base;
        for (op, name, ok, sign) in [(0u8, "add", add_ok, 1i128), (1, "sub", sub_ok, -1), (2, "add-assign", add_ok, 1), (3, "sub-assign", sub_ok, -1)] {
            if !ok {
                self.r.count("arith_skipped_out_of_clock_range", 1);
                continue;
            }
            let want: Norm = (var, has_w.then(|| n + sign * dn), has_m.then(|| mo as i128 + sign * dn));
            let crosses = has_w && (n < 0) != (n + sign * dn < 0);
            let mut f = Fnv::new();
            f.str("arith-components").u64(op as u64).u64(var as u64).u64(dur_class(d)).u64(crosses as u64);
            f.u64((n < 0) as u64).u64(bits(n.unsigned_abs()) / 8).u64(rem_class(n));
            self.r.eval(f.finish(), (var != 3 && var != 0) || n < 0 || rem_class(n) != 0 || crosses || dn == 0 || wall_is_boundary(n));
            self.r.hit("arith-components");
            let got = guard(|| match (var, op) {
                (0, 0) => norm_c(base, c + d),
                (0, 1) => norm_c(base, c - d),
                (0, 2) => {
                    let mut x = c;
                    x += d;
                    norm_c(base, x)
                }
                (0, _) => {
                    let mut x = c;
                    x -= d;
                    norm_c(base, x)
                }
                (_, 0) => norm_p(base, p + d),
                (_, 1) => norm_p(base, p - d),
                (_, 2) => {
                    let mut x = p;
                    x += d;
                    norm_p(base, x)
                }
                (_, _) => {
                    let mut x = p;
                    x -= d;
                    norm_p(base, x)
                }
            });
            match got {
                Err(pi) => self.panicked("arith-components", pi, case),
                Ok(got) => {
                    if got != want {
                        self.viol("arith-components", format!("arith-components {name} {}", VAR_NAMES[var as usize]),
                            format!("{}(wall {:?} ns, mono {:?} ns) {name} {dn} ns = {:?}, expected {:?} (tag, wall ns, mono ns)",
                                VAR_NAMES[var as usize], has_w.then_some(n), has_m.then_some(mo), got, want), case);
                    }
                    if var == 1 && n < 0 {
                        self.sample(3, || json!({"rule": "arith-components", "op": name, "variant": "Wall", "wall_ns": n.to_string(),
                            "d_ns": dn.to_string(), "got": format!("{got:?}"), "expected": format!("{want:?}")}));
                    }
                }
            }
        }
    }

    /// arith-components: From conversions, destructure / checked_to_*, complete_with.
    #[allow(clippy::too_many_arguments)]
    fn check_build(&mut self, var: u8, n: i128, mo: u64, cn: i128, cmo: u64, alt: bool, case: &Case) {
        let (has_w, has_m) = (var != 2, var != 1);
        let (Some(w), Some(cw)) = (st_from_ns(n), st_from_ns(cn)) else { return self.skip() };
        let (m, cm) = (mono_at(self.base, mo), mono_at(self.base, cmo));
        let base = self.base;
        let vname = VAR_NAMES[var as usize];
        let shape = |op: &str| {
            let mut f = Fnv::new();
            f.str("arith-components").str(op).u64(var as u64).u64(alt as u64);
            f.u64((n < 0) as u64).u64(rem_class(n)).u64((cn < n) as u64 * 2 + (cmo < mo) as u64).u64(bits(n.unsigned_abs()) / 8);
            f.finish()
        };
        let nontrivial = var != 3 || n < 0 || rem_class(n) != 0;

        // From conversions
        self.r.eval(shape("from"), nontrivial);
        self.r.hit("arith-components");
        let built = guard(|| {
            let p = match (var, alt) {
                (1, _) => PartialComplexTime::from(w),
                (2, _) => PartialComplexTime::from(m),
                (_, false) => PartialComplexTime::from((w, m)),
                (_, true) => PartialComplexTime::from(ComplexTime { wall: w, mono: m }),
            };
            let c = ComplexTime::from((w, m));
            let opt: Option<PartialComplexTime> = c.into();
            (p, c, SystemTime::from(c), Instant::from(c), opt)
        });
        let p = match built {
            Err(pi) => return self.panicked("arith-components", pi, case),
            Ok((p, c, sw, im, opt)) => {
                let want: Norm = (var, has_w.then_some(n), has_m.then_some(mo as i128));
                let c_ok = c.wall == w && c.mono == m && sw == w && im == m && opt.map(|x| norm_p(base, x)) == Some((3, Some(n), Some(mo as i128)));
                if norm_p(base, p) != want || !c_ok {
                    self.viol("arith-components", format!("arith-components from {vname}"),
                        format!("From conversion gave {:?}, expected {:?}; ComplexTime::from((w,m)) and back ok={c_ok}", norm_p(base, p), want), case);
                }
                p
            }
        };

        // destructure / checked_to_system_time / checked_to_instant
        self.r.eval(shape("destructure"), nontrivial);
        self.r.hit("arith-components");
        match guard(|| (p.destructure(), p.checked_to_system_time(), p.checked_to_instant())) {
            Err(pi) => self.panicked("arith-components", pi, case),
            Ok((des, sw, im)) => {
                let want = (has_w.then_some(w), has_m.then_some(m));
                if des != want || sw != want.0 || im != want.1 {
                    self.viol("arith-components", format!("arith-components destructure {vname}"),
                        format!("{vname}: destructure = {des:?}, checked_to_system_time = {sw:?}, checked_to_instant = {im:?}, expected {want:?}"), case);
                }
            }
        }

        // complete_with
        self.r.eval(shape("complete-with"), nontrivial);
        self.r.hit("arith-components");
        match guard(|| p.complete_with(ComplexTime { wall: cw, mono: cm })) {
            Err(pi) => self.panicked("arith-components", pi, case),
            Ok(c) => {
                let want: Norm = (0, Some(if has_w { n } else { cn }), Some(if has_m { mo } else { cmo } as i128));
                if norm_c(base, c) != want {
                    self.viol("arith-components", format!("arith-components complete-with {vname}"),
                        format!("{vname}(wall {n}, mono {mo}).complete_with(wall {cn}, mono {cmo}) = {:?}, expected {:?}", norm_c(base, c), want), case);
                }
            }
        }
    }

    /// after-or-eq-any
    #[allow(clippy::too_many_arguments)]
    fn check_after(&mut self, var: u8, n: i128, mo: u64, pn: i128, pmo: u64, alt: bool, case: &Case) {
        let (has_w, has_m) = (var != 2, var != 1);
        let (Some(w), Some(pw)) = (st_from_ns(n), st_from_ns(pn)) else { return self.skip() };
        let (m, pm) = (mono_at(self.base, mo), mono_at(self.base, pmo));
        let want = (has_w && n >= pn) || (has_m && mo >= pmo);
        let me = ComplexTime { wall: w, mono: m };
        let rel = |a: i128, b: i128| match a - b {
            x if x < -1 => 0u64,
            -1 => 1,
            0 => 2,
            1 => 3,
            _ => 4,
        };
        let mut f = Fnv::new();
        f.str("after-or-eq-any").u64(var as u64).u64(alt as u64).u64(rel(n, pn)).u64(rel(mo as i128, pmo as i128));
        f.u64((n < 0) as u64).u64((pn < 0) as u64).u64(rem_class(n)).u64(bits(n.unsigned_abs()) / 8);
        let close = (n - pn).abs() <= 1 || (mo as i128 - pmo as i128).abs() <= 1;
        self.r.eval(f.finish(), var == 1 || var == 2 || close || n < 0 || (n >= pn) != (mo >= pmo));
        self.r.hit("after-or-eq-any");
        let pc = ComplexTime { wall: pw, mono: pm };
        match guard(|| match (var, alt) {
            (0, _) => me.is_after_or_eq_any(pc),
            (1, false) => me.is_after_or_eq_any(PartialComplexTime::Wall(pw)),
            (1, true) => me.is_after_or_eq_any(pw),
            (2, false) => me.is_after_or_eq_any(PartialComplexTime::Monotonic(pm)),
            (2, true) => me.is_after_or_eq_any(pm),
            (_, false) => me.is_after_or_eq_any(PartialComplexTime::Complex(pc)),
            (_, true) => me.is_after_or_eq_any((pw, pm)),
        }) {
            Err(pi) => self.panicked("after-or-eq-any", pi, case),
            Ok(got) => {
                if got != want {
                    self.viol("after-or-eq-any", format!("after-or-eq-any {}", VAR_NAMES[var as usize]),
                        format!("(wall {n}, mono {mo}).is_after_or_eq_any({}(wall {:?}, mono {:?})) = {got}, expected {want}",
                            VAR_NAMES[var as usize], has_w.then_some(pn), has_m.then_some(pmo)), case);
                }
                self.sample(4, || json!({"rule": "after-or-eq-any", "self": {"wall_ns": n.to_string(), "mono_ns": mo},
                    "other": {"variant": VAR_NAMES[var as usize], "wall_ns": pn.to_string(), "mono_ns": pmo}, "got": got, "expected": want}));
            }
        }
    }
}

// ---------------------------------------------------------------------------------------------
// Generators

fn rand_u128(g: &mut Rng) -> u128 {
    ((g.next_u64() as u128) << 64) | g.next_u64() as u128
}
/// Random value with a uniformly chosen bit length in 1..=max_bits.
fn log_uniform(g: &mut Rng, max_bits: u64) -> u128 {
    let b = 1 + g.below(max_bits);
    let top = 1u128 << (b - 1);
    top | (rand_u128(g) & (top - 1))
}
fn gen_micros(g: &mut Rng, boundary: &[i64]) -> i64 {
    match g.below(6) {
        0 => g.next_u64() as i64,
        1 => g.range(-10_000_000, 10_000_000),
        2 => g.range(-2000, 2000),
        3 => {
            let v = log_uniform(g, 63) as i64;
            if g.bool() { v } else { -v }
        }
        4 => *g.pick(boundary),
        _ => g.range(1_500_000_000_000_000, 2_000_000_000_000_000), // 2017..2033
    }
}
fn gen_wall(g: &mut Rng, boundary: &[i64]) -> i128 {
    let n: i128 = match g.below(9) {
        8 => {
            // around k * 2^64 microseconds from the epoch (about 584 542 years): a narrowing cast to
            // 64 bits wraps exactly here
            let k = 1 + g.below(3) as i128;
            let v = k * (1i128 << 64) * 1000 + g.range(-3_000_000, 3_000_000) as i128;
            if g.bool() { v } else { -v }
        }
        0 => (rand_u128(g) % (2 * WALL_LIM_NS as u128 + 1)) as i128 - WALL_LIM_NS,
        1 | 2 => {
            let v = (log_uniform(g, 93) as i128).min(WALL_LIM_NS);
            if g.bool() { v } else { -v }
        }
        3 => g.range(-5_000_000, 5_000_000) as i128,
        4 => (if g.bool() { EDGE_NS } else { -EDGE_NS }) + g.range(-3_000_000, 3_000_000) as i128,
        5 => g.range(1_500_000_000_000_000_000, 2_000_000_000_000_000_000) as i128,
        6 => *g.pick(boundary) as i128 * 1000,
        _ => g.next_u64() as i64 as i128 * 1000,
    };
    // bias the sub-microsecond remainder towards its classes {0, 1, 999, other}
    let r = match g.below(6) {
        0 => 0,
        1 => 1,
        2 => 999,
        3 => g.range(2, 998) as i128,
        _ => return n,
    };
    let q = (n / 1000) * 1000;
    if n < 0 || (n == 0 && g.bool()) { q - r } else { q + r }
}
fn gen_dur(g: &mut Rng, max_ns: u128) -> Duration {
    let ns = match g.below(8) {
        0 => 0,
        1 => 1,
        2 => g.below(1000) as u128,
        3 => g.below(1_000_000) as u128 * 1000,
        4 => g.below(86_400_000_000_000) as u128,
        5 => log_uniform(g, bits(max_ns)),
        6 => rand_u128(g) % (max_ns + 1),
        _ => max_ns,
    };
    dur_from_ns(ns.min(max_ns))
}
const YEAR_NS: u128 = 31_557_600 * 1_000_000_000;
fn gen_mono(g: &mut Rng) -> u64 {
    (match g.below(4) {
        0 => g.below(2000) as u128,
        1 => log_uniform(g, 62),
        _ => rand_u128(g) % (100 * YEAR_NS),
    })
    .min(100 * YEAR_NS) as u64
}
fn gen_arith(g: &mut Rng, boundary: &[i64]) -> Case {
    let var = g.below(4) as u8;
    let n = gen_wall(g, boundary);
    if var == 1 {
        // wall only: the duration may be anything the SystemTime range can take
        let max = if g.chance(1, 8) { (1u128 << 62) * 1_000_000_000 } else { 2 * WALL_LIM_NS as u128 };
        let d = if g.chance(1, 4) { dur_from_ns(n.unsigned_abs()) } else { gen_dur(g, max) };
        return Case::Arith { var, n, mo: 0, d };
    }
    let d = gen_dur(g, 90 * YEAR_NS);
    let dn = d.as_nanos();
    // keep the Instant at or above the base when subtracting: mostly mo >= d
    let mo = match g.below(4) {
        0 => gen_mono(g),
        1 => dn.min(100 * YEAR_NS) as u64,
        _ => (dn + gen_mono(g) as u128).min(100 * YEAR_NS) as u64,
    };
    Case::Arith { var, n, mo, d }
}
fn near(g: &mut Rng, x: i128) -> i128 {
    match g.below(6) {
        0 => x - 1,
        1 => x,
        2 => x + 1,
        3 => x - 1 - g.below(1_000_000_000_000) as i128,
        4 => x + 1 + g.below(1_000_000_000_000) as i128,
        _ => -x,
    }
}
fn gen_after(g: &mut Rng, boundary: &[i64]) -> Case {
    let n = gen_wall(g, boundary);
    let mo = gen_mono(g).max(1);
    let pn = if g.chance(1, 6) { gen_wall(g, boundary) } else { near(g, n) };
    let pmo = if g.chance(1, 6) { gen_mono(g) } else { near(g, mo as i128).clamp(0, 100 * YEAR_NS as i128) as u64 };
    Case::After { var: g.below(4) as u8, n, mo, pn, pmo, alt: g.bool() }
}

/// Deterministic boundary cases, in priority order (global index decides the owning shard).
fn boundary_cases(boundary: &[i64], miri: bool) -> Vec<Case> {
    let mut v: Vec<Case> = vec![];
    let lead = [i64::MIN, i64::MIN + 1, i64::MAX, -1, 0, 1, -1000, -999, 999, 1000];
    v.extend(lead.iter().map(|&m| Case::Micros(m)));
    for m in lead {
        for r in [0i128, -1, 1, -999, 999] {
            v.push(Case::Wall(m as i128 * 1000 + r));
        }
    }
    let ks: Vec<i128> = if miri {
        vec![2, 3, 500, 998, 1001, 1002, 1999, 2000]
    } else {
        (0..=2000).collect()
    };
    for &k in &ks {
        v.push(Case::Wall(k));
        v.push(Case::Wall(-k));
    }
    for &k in &ks {
        for e in [EDGE_NS, -EDGE_NS] {
            v.push(Case::Wall(e + k));
            v.push(Case::Wall(e - k));
        }
    }
    let step = if miri { 16 } else { 1 };
    for &m in boundary.iter().step_by(step) {
        v.push(Case::Micros(m));
        for r in [0i128, -1, 1, -999, 999, -500, 500] {
            v.push(Case::Wall(m as i128 * 1000 + r));
        }
    }
    // every variant x interesting relation for the structural rules
    for var in 0..4u8 {
        for (n, d) in [(-1500i128, 700u64), (1500, 700), (-1, 2), (0, 0), (1_600_000_000_000_000_123, 1_000_000_000)] {
            v.push(Case::Arith { var, n, mo: 5_000_000_000, d: Duration::from_nanos(d) });
            if var > 0 {
                v.push(Case::Build { var, n, mo: 77, cn: -n + 5, cmo: 99, alt: d % 2 == 0 });
            }
            for (dw, dm) in [(-1i128, -1i64), (-1, 0), (-1, 1), (0, -1), (0, 0), (0, 1), (1, -1), (1, 0), (1, 1)] {
                v.push(Case::After { var, n, mo: 1000, pn: n + dw, pmo: (1000 + dm) as u64, alt: dw + dm as i128 > 0 });
            }
        }
    }
    v
}

pub fn run(args: &Args, r: &mut Report) {
    r.rule_text = "Cases: (a) i64 microsecond counts m (named boundaries i64::MIN..MAX, +/-10^6+/-1, +/-1000, powers of two +/-1 \
        of both signs, uniform-bit, log-uniform and small-range random); (b) wall times epoch+n ns (exhaustive n in -2000..=2000, \
        exhaustive +/-2^63 us +/-2000 ns, every boundary m x sub-us offsets, random up to +/-300000 years with the sub-us remainder \
        biased to {0,1,999,other}); (c) ComplexTime / PartialComplexTime {Wall,Monotonic,Complex} with add/sub/+=/-= of durations \
        (0, 1 ns, sub-us, whole us, up to 2^62 s for wall-only) kept inside the clock ranges, From conversions, destructure, \
        complete_with; (d) is_after_or_eq_any over component relations {<<,-1,=,+1,>>}^2 and all variants. Expected values come from \
        i128-nanosecond reference arithmetic. A case is distinct by (rule, operation, variant, sign, log2 magnitude bucket, sub-us \
        remainder class {0,1,999,other}, boundary flag, duration class, component relation); it is non-trivial when it involves a \
        boundary value, a pre-epoch time, a non-zero sub-us remainder, an epoch crossing, a near-equal comparison or a non-Complex variant."
        .into();
    r.require(&RULES);
    r.assume("std::time SystemTime/Instant/Duration checked_add/checked_sub/duration_since arithmetic is correct (used to build inputs and read results back)");
    r.assume("the harness's i128-nanosecond reference arithmetic (truncating division, comparisons) is correct");
    r.assume("Instants are only observed relative to one base Instant taken at start; verdicts do not depend on its value");
    r.assume("futures::executor::block_on drives MemStorage's ready futures faithfully");

    let mut cx = Ctx { r, base: Instant::now(), sampled: 0, seen: BTreeMap::new() };

    if let Some(path) = &args.replay {
        let v: Value = std::fs::read_to_string(path).ok().and_then(|s| serde_json::from_str(&s).ok()).unwrap_or(Value::Null);
        match Case::from_json(v.get("replay").unwrap_or(&v)) {
            Some(c) => cx.run(&c),
            None => cx.r.inconclusive.push(format!("cannot parse replay file {path}")),
        }
        return;
    }

    let miri = args.layer == "miri";
    let budget = if miri { args.budget(32_000, 32_000).min(2_000) } else { args.budget(2_000_000, 200_000_000) };
    let boundary = boundary_micros();

    // 1. deterministic boundary cases, split across shards
    for (i, c) in boundary_cases(&boundary, miri).iter().enumerate() {
        if args.mine(i as u64) && (!miri || cx.r.evaluations < budget * 3 / 4) {
            cx.run(c);
        }
    }
    cx.r.count("boundary_phase_evaluations", cx.r.evaluations);

    // 2. random cases up to the budget (at least a quarter of it)
    let target = cx.r.evaluations.max(budget * 3 / 4) + budget / 4;
    let mut g = args.rng(19);
    let mut i = 0u64;
    while cx.r.evaluations < target {
        let c = match i % 10 {
            0 | 1 => Case::Micros(gen_micros(&mut g, &boundary)),
            2 | 3 | 4 => Case::Wall(gen_wall(&mut g, &boundary)),
            5 | 6 => gen_arith(&mut g, &boundary),
            7 => Case::Build {
                var: 1 + g.below(3) as u8,
                n: gen_wall(&mut g, &boundary),
                mo: gen_mono(&mut g),
                cn: gen_wall(&mut g, &boundary),
                cmo: gen_mono(&mut g),
                alt: g.bool(),
            },
            _ => gen_after(&mut g, &boundary),
        };
        cx.run(&c);
        i += 1;
    }
    cx.r.count("random_cases", i);
}
