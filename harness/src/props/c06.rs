//! C06 — Retries are bounded, only for transient failures, and backed off.

use crate::common::{Args, Report, Rng};
use crate::props::gen::*;
use crate::props::monitors::*;
use crate::sim::driver::*;
use crate::sim::world::*;
use serde_json::json;

pub const ALPHABET: [&str; 10] = ["transport", "timeout", "user", "s4xx", "s5xx", "s3xx", "s+ra", "forged", "garbage", "success"];

pub fn outcome_of(sym: &str, rng: &mut Rng, apps: &[AppSpec]) -> RespSpec {
    match sym {
        "transport" => RespSpec::Transport,
        "timeout" => RespSpec::Timeout,
        "user" => RespSpec::User,
        "s4xx" => RespSpec::Reply(ReplySpec::status(*rng.pick(&[400u16, 403, 404, 429]))),
        "s5xx" => RespSpec::Reply(ReplySpec::status(*rng.pick(&[500u16, 502, 503]))),
        "s3xx" => RespSpec::Reply(ReplySpec::status(*rng.pick(&[301u16, 304]))),
        "s+ra" => RespSpec::Reply(ReplySpec::status(*rng.pick(&[400u16, 503, 429])).with_retry_after(*rng.pick(&[&b"0"[..], b"30", b"86400", b"99999999", b"4294967296", b"18446744073709551615", b"00000000000000000000060"]))),
        "forged" => {
            let (doc, _) = gen_doc(rng, apps, None, true);
            let e = rng.pick(&[EtagSpec::Absent, EtagSpec::FlipSig, EtagSpec::ForeignKey, EtagSpec::OtherBody, EtagSpec::WrongKeyId, EtagSpec::OtherHeldKey]).clone();
            let mut rep = ReplySpec::ok(BodySpec::Doc(doc)).with_etag(e);
            // an unauthenticated error page is an authentication failure like any other: never retried
            if rng.chance(1, 3) {
                rep.status = *rng.pick(&[500u16, 503, 502, 400, 404, 302]);
                if rng.bool() {
                    rep.body = BodySpec::Raw(b"<html>Service Unavailable</html>".to_vec());
                }
            }
            RespSpec::Reply(rep)
        }
        "garbage" => RespSpec::Reply(ReplySpec::ok(BodySpec::Raw(garbage_body(rng)))),
        _ => {
            let (doc, _) = gen_doc(rng, apps, Some(false), false);
            RespSpec::Reply(ReplySpec::ok(BodySpec::Doc(doc)))
        }
    }
}

/// All sequences over ALPHABET of length 1..=3, in a fixed order.
pub fn all_sequences() -> Vec<Vec<&'static str>> {
    let mut out = vec![];
    for a in ALPHABET {
        out.push(vec![a]);
    }
    for a in ALPHABET {
        for b in ALPHABET {
            out.push(vec![a, b]);
        }
    }
    for a in ALPHABET {
        for b in ALPHABET {
            for c in ALPHABET {
                out.push(vec![a, b, c]);
            }
        }
    }
    out
}

pub fn jitter_rule(r: &mut Report, backoffs: &[(usize, u128)]) {
    for k in 0..2usize {
        let v: Vec<u128> = backoffs.iter().filter(|b| b.0 == k).map(|b| b.1 / 1_000_000).collect();
        let centre = (1u128 << k) * 1000;
        if v.len() >= 40 {
            r.hit("c06-jitter-two-sided");
            let lo = v.iter().any(|x| *x < centre);
            let hi = v.iter().any(|x| *x > centre);
            let distinct: std::collections::BTreeSet<_> = v.iter().collect();
            if !(lo && hi && distinct.len() >= 5) {
                r.violation(
                    "c06-jitter-two-sided",
                    &format!("c06-jitter-two-sided k={}", k + 1),
                    format!("{} backoff waits after failure {}: min {:?} max {:?} distinct {} — not randomised around {} ms", v.len(), k + 1, v.iter().min(), v.iter().max(), distinct.len(), centre),
                    json!({"backoffs_ms": v.iter().take(60).collect::<Vec<_>>()}),
                );
            }
        }
        if v.len() >= 120 {
            r.hit("c06-jitter-spread");
            let lo = v.iter().any(|x| *x < centre - 250);
            let hi = v.iter().any(|x| *x > centre + 250);
            if !(lo && hi) {
                r.violation(
                    "c06-jitter-spread",
                    &format!("c06-jitter-spread k={}", k + 1),
                    format!("{} backoff waits after failure {} never leave [{}-250, {}+250] ms", v.len(), k + 1, centre, centre),
                    json!({"backoffs_ms": v.iter().take(60).collect::<Vec<_>>()}),
                );
            }
        }
    }
}

pub fn run(args: &Args, r: &mut Report) {
    r.rule_text = "Fault enumeration: EVERY sequence of length 1..3 (1 110) over the per-attempt outcome alphabet {transport, timeout, \
        caller error, 4xx, 5xx, 3xx, status + X-Retry-After, forged, unparseable 2xx, success} x {no prior poll interval, prior \
        poll interval persisted} x {CUP off, CUP on} as the scripted outcomes of one update check (sequences with 'forged' only \
        with CUP on), each run once per repetition through the real state machine (one-shot); the enumeration is repeated \
        (4x quick, 25x thorough) with different random details (statuses, documents, app sets), followed by start()-mode \
        multi-check histories in which poll intervals set by one check govern the next, and by restart histories (check with \
        X-Retry-After around the 86400 s clamp -> kill -> restart on the surviving store, optionally a store rejecting writes of one \
        unrelated entry -> failing check) in which the stored interval must still suppress retries.  Shape key = \
        outcome sequence + prior-poll + CUP.  Non-trivial = any sequence other than a single 'success'."
        .into();
    r.require(&[
        "c06-max-three-attempts",
        "c06-retry-after-transient",
        "c06-backoff-window",
        "c06-no-retry",
        "c06-attempts-same-session-payload",
        "c06-fresh-request-id",
        "c06-response-time-per-attempt",
        "c06-requests-per-check",
        "c06-jitter-two-sided",
    ]);
    r.assume("a request whose construction fails (service URL rejected by the http crate) is a don't-care for the two metrics");
    let seqs = all_sequences();
    let variants = seqs.len() as u64 * 4;
    let reps: u64 = if args.thorough() { 25 } else { 4 };
    let total = ((variants * reps) as f64 * args.scale.min(1.0).max(0.01)) as u64;
    let mut backoffs = vec![];
    let mut enumerated = 0u64;
    for gi in 0..total {
        if !args.mine(gi) {
            continue;
        }
        let i = gi;
        if args.skip(i) {
            continue;
        }
        let mut rng = Rng::derive(args.seed, 6, i, 1);
        let v = gi % variants;
        let seq = &seqs[(v / 4) as usize];
        let prior = v % 2 == 1;
        let cup = (v / 2) % 2 == 1;
        if !cup && seq.contains(&"forged") {
            continue;
        }
        enumerated += 1;
        let na = 1 + rng.usize(2);
        let apps = gen_apps(&mut rng, na);
        let mut script = Script::default();
        let attempts: Vec<RespSpec> = seq.iter().map(|s| outcome_of(s, &mut rng, &apps)).collect();
        script.checks.push(CheckScript { attempts, ..Default::default() });
        let setup = Setup { apps, cup, start_mode: false, ..Default::default() };
        let mut case = FlowCase::new(setup, script);
        if prior {
            case.preload.insert("server_dictated_poll_interval".into(), Val::I(600_000_000));
        }
        case.shape = vec![seq.join(","), format!("prior={}", prior), format!("cup={}", cup)];
        // a time sync while a request is in flight: the wall clock steps (back or forth), the monotonic clock
        // does not; attempts, back-off and metrics are unaffected
        if rng.chance(1, 4) {
            let idx = rng.usize(3);
            let d = *rng.pick(&[-3_600_000_000_000i128, -5_000_000_000, -1, 1, 7_200_000_000_000]);
            case.script.http_wall_steps.push((idx, d));
            case.shape.push(format!("wallstep{}:{}", idx, if d < 0 { "back" } else { "fwd" }));
            r.count("cases-with-wall-clock-step-during-a-request", 1);
        }
        // a success status other than 200
        if rng.chance(1, 6) {
            if let Some(RespSpec::Reply(rep)) = case.script.checks[0].attempts.last_mut() {
                if rep.status == 200 {
                    rep.status = *rng.pick(&[201u16, 202, 203, 204, 206, 226, 299]);
                    case.shape.push(format!("s{}", rep.status));
                }
            }
        }
        case.nontrivial = !(seq.len() == 1 && seq[0] == "success");
        case.key_seed = rng.next_u64();
        let run = run_case(&case, &mut rng);
        r.eval(case.shape_key(), case.nontrivial);
        r.interleavings.insert(run.sig);
        let mut m = Mon::default();
        mon_c06(&run.flow, &mut m, &mut backoffs);
        if let Some(p) = &run.panicked {
            report_panic(r, args, i, p, &run.w, case_desc(&case));
        }
        if r.want_sample() && seq.len() == 3 && gi % 97 == 0 {
            let c = &run.flow.checks[0];
            r.sample(json!({
                "case": i, "scripted_outcomes": seq, "prior_poll": prior, "cup": cup,
                "observed_attempts": c.uc.iter().map(|a| a.resp.as_ref().map(|x| x.1.class())).collect::<Vec<_>>(),
                "waits_ms": c.waits.iter().map(|w| format!("{:?}", w.2)).collect::<Vec<_>>(),
                "expected_retry_after_attempt": c.exp.retry_after_attempt,
                "outcome": outcome_label(c),
            }));
        }
        absorb(r, args, i, m, &run.w, case_desc(&case));
    }
    // ---- the same monitors inside start()-mode multi-check histories (poll intervals carried from
    // one check to the next, reboot waits with pings, CUP on/off)
    let nh = args.budget(3_000, 60_000);
    for j in 0..nh {
        let i = 50_000_000 + j;
        if args.skip(i) {
            continue;
        }
        let mut rng = Rng::derive(args.seed, args.shard, 66, j);
        let len = 1 + rng.usize(5);
        let cfg = HistCfg {
            start_mode: true,
            cup: rng.bool(),
            n_apps: 1 + rng.usize(2),
            paths: (0..len).map(|_| *rng.pick(&ALL_PATHS)).collect(),
            cohorts: false,
            deliveries: rng.bool(),
            random_params: false,
            throttles: rng.bool(),
        };
        let mut case = gen_history(&mut rng, &cfg);
        let apps = case.setup.apps.clone();
        let l = add_reboot_waits(&mut case.script, &mut rng, false, &apps);
        case.shape.push(l);
        // definite X-Retry-After values on some replies: the interval set by one check governs the next
        for c in case.script.checks.iter_mut() {
            for a in c.attempts.iter_mut().chain(c.reports.iter_mut()) {
                if let RespSpec::Reply(rep) = a {
                    if rng.chance(1, 4) {
                        rep.headers.push(("X-Retry-After".into(), rng.pick(&[&b"0"[..], b"60", b"86400", b"100000", b"4294967296", b"18446744073709551615"]).to_vec()));
                    }
                }
            }
        }
        case.sched = crate::sim::driver::Sched::Random;
        case.shape.insert(0, "history".into());
        let run = run_case(&case, &mut rng);
        r.eval(case.shape_key(), true);
        r.interleavings.insert(run.sig);
        let mut m = Mon::default();
        mon_c06(&run.flow, &mut m, &mut backoffs);
        // "event reports are sent exactly once": the sequence of reports is the model's, also while a
        // server-dictated poll interval is in force
        mon_c10(&run.flow, &mut m);
        if let Some(p) = &run.panicked {
            report_panic(r, args, i, p, &run.w, case_desc(&case));
        }
        absorb(r, args, i, m, &run.w, case_desc(&case));
    }
    // ---- restart histories: an interval dictated before a restart is still in force after it (a failed
    // request of the next incarnation's first check is not retried), including the clamp boundary and a
    // store that rejects writes of one unrelated entry
    let nr = args.budget(2_400, 48_000);
    let mut restart_judged = 0u64;
    for j in 0..nr {
        let i = 60_000_000 + j;
        if args.skip(i) {
            continue;
        }
        let mut rng = Rng::derive(args.seed, args.shard, 67, j);
        let first = *rng.pick(&[Path::NoUpdate, Path::NoUpdate, Path::Install, Path::ParseError, Path::Deferred, Path::FailStatus]);
        let second = *rng.pick(&[Path::FailTransport, Path::FailTransport, Path::FailStatus, Path::NoUpdate]);
        let cfg = HistCfg {
            start_mode: true,
            cup: rng.bool(),
            n_apps: 1 + rng.usize(2),
            paths: vec![first, second],
            cohorts: false,
            deliveries: false,
            random_params: false,
            throttles: false,
        };
        let mut case = gen_history(&mut rng, &cfg);
        let val: &[u8] = *rng.pick(&[&b"60"[..], b"3600", b"86399", b"86400", b"86401", b"99999999", b""]);
        if let Some(RespSpec::Reply(rep)) = case.script.checks[0].attempts.last_mut() {
            if !val.is_empty() && !rep.headers.iter().any(|h| h.0.eq_ignore_ascii_case("x-retry-after")) {
                rep.headers.push(("X-Retry-After".into(), val.to_vec()));
            }
        }
        // the second check's replies dictate nothing themselves
        for a in case.script.checks[1].attempts.iter_mut() {
            if let RespSpec::Reply(rep) = a {
                rep.headers.retain(|h| !h.0.eq_ignore_ascii_case("x-retry-after"));
            }
        }
        if rng.chance(1, 4) {
            let k = *rng.pick(&["last_update_time", "consecutive_failed_update_checks"]);
            case.fault.fail_keys.push(k.to_string());
            case.shape.push(format!("failkey:{}", k));
        }
        case.stop_idle = 1;
        case.shape.insert(0, format!("restart ra={}", String::from_utf8_lossy(val)));
        case.sched = crate::sim::driver::Sched::Random;
        let run = run_case_restart(&case, &[case.setup.clone()], &mut rng, 1);
        r.eval(case.shape_key(), true);
        r.interleavings.insert(run.sig);
        let mut m = Mon::default();
        mon_c06(&run.flow, &mut m, &mut backoffs);
        // "in force" after a restart = what was stored: the interval the model holds must be the committed one
        mon_state(&run.flow, &case.setup, Proj::Poll, &mut m);
        if run.flow.restarts.len() == 1 && run.flow.checks.len() >= 2 {
            restart_judged += 1;
        }
        if let Some(p) = &run.panicked {
            report_panic(r, args, i, p, &run.w, case_desc(&case));
        }
        absorb(r, args, i, m, &run.w, case_desc(&case));
    }
    r.count("restart-histories-with-second-check", restart_judged);
    r.count("sequences-enumerated", enumerated);
    r.count("backoff-waits-observed", backoffs.len() as u64);
    if args.only_case.is_none() {
        jitter_rule(r, &backoffs);
        r.exhaustive = Some(args.scale >= 1.0);
    }
}
