//! C08 — Protocol bookkeeping is exact, durable and crash-consistent.

use crate::common::{Args, Report, Rng};
use crate::props::gen::*;
use crate::props::monitors::*;
use crate::sim::driver::Sched;
use crate::sim::world::*;
use serde_json::json;

pub fn run(args: &Args, r: &mut Report) {
    r.rule_text = "Fault enumeration: histories of 1..5 checks (all ten check paths; reboot waits with failing / succeeding pings; CUP on/off; \
        start() and one-shot mode).  For each history one clean run counts N boundary interactions (every storage operation, HTTP \
        exchange, timer wait, policy / installer call, event delivery); then ONE RUN PER k in 0..N kills the process exactly at \
        interaction k (all futures dropped, storage overlay discarded), rebuilds the machine on the surviving storage and runs it to \
        its first policy question.  Oracle: model of counter / last-contact rules; harness-side decoding of raw storage; every \
        committed (counter, last contact) pair must be one the model held together.  Shape key = history shape + crash point class \
        (kind of the interaction that was cut).  Non-trivial = a crash run, or a history with a failure or a ping."
        .into();
    r.require(&[
        "c08-counter-policy-next",
        "c08-last-contact-policy-next",
        "c08-committed-at-quiescence",
        "c08-no-mixture",
        "c08-crash-restart-judged",
    ]);
    let n_hist = args.budget(480, 5_000);
    let mut crash_runs = 0u64;
    let mut crash_points_total = 0u64;
    for i in 0..n_hist {
        if args.skip(i) {
            continue;
        }
        let mut rng = Rng::derive(args.seed, args.shard, 8, i);
        let start_mode = !rng.chance(1, 5);
        let len = if start_mode { 1 + rng.usize(5) } else { 1 };
        let cfg = HistCfg {
            start_mode,
            cup: rng.chance(1, 3),
            n_apps: 1 + rng.usize(2),
            paths: (0..len).map(|_| *rng.pick(&ALL_PATHS)).collect(),
            cohorts: rng.bool(),
            deliveries: rng.chance(1, 3),
            random_params: false,
            throttles: rng.chance(1, 4),
        };
        let mut case = gen_history(&mut rng, &cfg);
        let apps = case.setup.apps.clone();
        let l1 = add_reboot_waits(&mut case.script, &mut rng, true, &apps);
        if rng.chance(1, 3) {
            let _ = decorate_retry_after_opt(&mut case.script, &mut rng, 1, 4, false);
        }
        if rng.chance(1, 3) {
            case.preload.insert("consecutive_failed_update_checks".into(), Val::I(rng.range(0, 5)));
            case.preload.insert("last_update_time".into(), Val::I(1_600_000_000_000_000 + rng.range(0, 1_000_000)));
        }
        // a backend that cannot write an unrelated entry must not keep the counter / last contact from being stored
        if rng.chance(1, 6) {
            let k = case.setup.apps[rng.usize(case.setup.apps.len())].id.clone();
            case.shape.push(format!("failkey:{}", if k.starts_with('{') { "app" } else { &k }));
            case.fault.fail_keys.push(k);
        }
        // ... nor must a backend that refuses the last-contact entry keep the counter and the poll interval from
        // being stored (only those are judged then)
        else if rng.chance(1, 10) {
            case.fault.fail_keys.push("last_update_time".into());
            case.shape.push("failkey:last-contact".into());
        }
        // the device may stay down for a while before it is restarted
        if rng.chance(1, 3) {
            case.restart_gap_ns = *rng.pick(&[60i128, 3_600, 7_200, 86_400, 200_000, -3_600, -100_000]) * 1_000_000_000;
            case.shape.push("downtime".into());
        }
        // an embedder task that takes the shared locks now and then (the machine has to wait, never to skip)
        if rng.chance(1, 6) {
            case.embedder_rate = 4;
            case.shape.push("embedder".into());
        }
        // a metrics sink that refuses every report (the reporter's contract allows an error)
        if rng.chance(1, 8) {
            case.script.metrics_fail = true;
            case.shape.push("metrics-fail".into());
        }
        // a device whose clock is (still) before 1970, possibly crossing the epoch during the history
        if rng.chance(1, 8) {
            let t = -(rng.range(1, 20_000) as i128) * 1_000_000_000 - rng.range(0, 999_999_999) as i128;
            case.start_wall_ns = Some(t);
            case.shape.push("pre-epoch".into());
        }
        case.sched = Sched::Fifo;
        case.shape.push(l1);
        case.nontrivial = true;
        // clean run (with a restart at the end)
        let sched_seed = rng.next_u64();
        let lc_faulty = case.fault.fail_keys.iter().any(|k| k == "last_update_time");
        let mut run0 = {
            let mut srng = Rng::new(sched_seed);
            run_case_restart(&case, &[case.setup.clone()], &mut srng, 0)
        };
        run0.flow.last_contact_store_faulty = lc_faulty;
        judge(r, args, i, &case, &run0, false);
        let n_int = run0.interactions_first;
        crash_points_total += n_int;
        for k in 0..n_int {
            let mut c2 = case.clone();
            c2.crash_at = Some(k);
            let mut srng = Rng::new(sched_seed);
            let mut run = run_case_restart(&c2, &[case.setup.clone()], &mut srng, 0);
            run.flow.last_contact_store_faulty = lc_faulty;
            let cut = crash_kind(&run.w);
            c2.shape.push(format!("crash@{}", cut));
            r.eval(c2.shape_key(), true);
            judge(r, args, i, &c2, &run, true);
            crash_runs += 1;
            if r.want_sample() && k == n_int / 2 {
                r.sample(json!({
                    "history": case.shape, "crash_at_interaction": k, "of": n_int, "interaction_cut": cut,
                    "committed_at_crash": run.flow.restarts.first().map(|x| format!("{:?}", x.1)),
                    "first_policy_call_after_restart": run.flow.nexts.iter().find(|n| run.flow.restarts.first().map(|x| n.seq > x.0).unwrap_or(false)).map(|n| format!("failed={} last_update_time={:?} poll={:?}", n.proto.failed, n.sched.last_update_time, n.proto.poll_ns)),
                }));
            }
        }
    }
    r.count("crash-runs", crash_runs);
    r.count("crash-points-enumerated", crash_points_total);
    r.exhaustive = None;
}

fn crash_kind(w: &W) -> String {
    let g = lock(w);
    // the entry logged just before the crash tells what was going on; the cut interaction itself left no entry
    let pos = g.log.iter().position(|r| matches!(r.ev, Ev::Crash { .. }));
    match pos {
        Some(p) => {
            let prev = g.log[..p].iter().rev().find(|r| !matches!(r.ev, Ev::PollStart | Ev::PollEnd)).map(|r| format!("{:?}", r.ev));
            prev.map(|s| s.split(|c: char| !c.is_alphanumeric()).next().unwrap_or("").to_string()).unwrap_or_else(|| "start".into())
        }
        None => "none".into(),
    }
}

fn judge(r: &mut Report, args: &Args, i: u64, case: &FlowCase, run: &CaseRun, crash: bool) {
    if !crash {
        r.eval(case.shape_key(), case.nontrivial);
    }
    let mut m = Mon::default();
    let lc_faulty = run.flow.last_contact_store_faulty;
    let flow = &run.flow;
    mon_state(flow, &case.setup, Proj::Book, &mut m);
    // "these values and the poll interval": the interval shown to the policy (also by a rebuilt machine, also
    // after a long downtime) is the model's / the committed one
    mon_state(flow, &case.setup, Proj::Poll, &mut m);
    if !lc_faulty {
        mon_c08_mixture(&run.flow, &mut m);
    }
    // the restarted machine must have asked its policy (otherwise nothing was judged after the crash)
    if case.setup.start_mode {
        let after = run.flow.restarts.first().map(|x| x.0);
        let asked = after.map(|s| run.flow.nexts.iter().any(|n| n.seq > s)).unwrap_or(false);
        m.judge("c08-crash-restart-judged", asked, "", || "restarted machine never asked the policy for the next update time".into());
    }
    if let Some(p) = &run.panicked {
        report_panic(r, args, i, p, &run.w, case_desc(case));
    }
    absorb(r, args, i, m, &run.w, case_desc(case));
}
