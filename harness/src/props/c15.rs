//! C15 — "Requests have exactly the Omaha v3 wire shape".
//!
//! Runs the real `RequestBuilder` on generated configurations / parameters / add_* call sequences
//! and judges every built `http::Request` with an independent reference encoder: the expected
//! method, URI, header set and JSON body are computed by hand from the harness' own description of
//! the case (never through the library's serde derives).  The body is parsed with a small
//! duplicate-key-detecting recursive-descent JSON parser written here.

use crate::common::{guard, show_bytes, Args, Fnv, Report, Rng};
use omaha_client::{
    common::{App, UserCounting},
    configuration::{Config, Updater},
    cup_ecdsa::StandardCupv2Handler,
    protocol::{
        request::{Event, EventErrorCode, EventResult, EventType, InstallSource, GUID, OS},
        Cohort,
    },
    request_builder::{RequestBuilder, RequestParams},
    version::Version,
};
use serde_json::{json, Map, Value};
use std::collections::{BTreeSet, HashMap};

const RULES: [&str; 13] = [
    "method-uri",
    "headers",
    "body-shape",
    "app-order-first-insertion",
    "cohort-first-insertion",
    "updatecheck-flags",
    "ping-dates",
    "events-order-codes",
    "extras-verbatim",
    "ids",
    "build-twice",
    "bad-url-no-panic",
    "no-duplicate-keys",
];

/// Protocol attribute names of the app object; extra-field keys must not collide with them.
const APP_PROTO_KEYS: [&str; 9] = [
    "appid",
    "version",
    "fp",
    "cohort",
    "cohorthint",
    "cohortname",
    "updatecheck",
    "event",
    "ping",
];

// ---------------------------------------------------------------------------------------------
// A strict RFC 8259 parser that rejects duplicate object keys.

#[derive(Clone, Debug, PartialEq)]
enum J {
    Null,
    Bool(bool),
    /// Raw number text as it appeared on the wire.
    Num(String),
    Str(String),
    Arr(Vec<J>),
    Obj(Vec<(String, J)>),
}

#[derive(Debug)]
enum JErr {
    Syntax(&'static str, usize),
    Dup(String),
}

struct JP<'a> {
    b: &'a [u8],
    i: usize,
}

impl<'a> JP<'a> {
    fn ws(&mut self) {
        while self.i < self.b.len() && matches!(self.b[self.i], b' ' | b'\t' | b'\n' | b'\r') {
            self.i += 1;
        }
    }
    fn peek(&self) -> Option<u8> {
        self.b.get(self.i).copied()
    }
    fn lit(&mut self, s: &[u8], v: J) -> Result<J, JErr> {
        if self.b[self.i..].starts_with(s) {
            self.i += s.len();
            Ok(v)
        } else {
            Err(JErr::Syntax("literal", self.i))
        }
    }
    fn value(&mut self, depth: usize) -> Result<J, JErr> {
        if depth > 64 {
            return Err(JErr::Syntax("depth", self.i));
        }
        self.ws();
        match self.peek() {
            None => Err(JErr::Syntax("eof", self.i)),
            Some(b'n') => self.lit(b"null", J::Null),
            Some(b't') => self.lit(b"true", J::Bool(true)),
            Some(b'f') => self.lit(b"false", J::Bool(false)),
            Some(b'"') => Ok(J::Str(self.string()?)),
            Some(b'[') => {
                self.i += 1;
                let mut v = vec![];
                self.ws();
                if self.peek() == Some(b']') {
                    self.i += 1;
                    return Ok(J::Arr(v));
                }
                loop {
                    v.push(self.value(depth + 1)?);
                    self.ws();
                    match self.peek() {
                        Some(b',') => self.i += 1,
                        Some(b']') => {
                            self.i += 1;
                            return Ok(J::Arr(v));
                        }
                        _ => return Err(JErr::Syntax("array", self.i)),
                    }
                }
            }
            Some(b'{') => {
                self.i += 1;
                let mut v: Vec<(String, J)> = vec![];
                self.ws();
                if self.peek() == Some(b'}') {
                    self.i += 1;
                    return Ok(J::Obj(v));
                }
                loop {
                    self.ws();
                    if self.peek() != Some(b'"') {
                        return Err(JErr::Syntax("object-key", self.i));
                    }
                    let k = self.string()?;
                    self.ws();
                    if self.peek() != Some(b':') {
                        return Err(JErr::Syntax("colon", self.i));
                    }
                    self.i += 1;
                    let val = self.value(depth + 1)?;
                    if v.iter().any(|(k2, _)| *k2 == k) {
                        return Err(JErr::Dup(k));
                    }
                    v.push((k, val));
                    self.ws();
                    match self.peek() {
                        Some(b',') => self.i += 1,
                        Some(b'}') => {
                            self.i += 1;
                            return Ok(J::Obj(v));
                        }
                        _ => return Err(JErr::Syntax("object", self.i)),
                    }
                }
            }
            Some(c) if c == b'-' || c.is_ascii_digit() => self.number(),
            Some(_) => Err(JErr::Syntax("value", self.i)),
        }
    }
    fn number(&mut self) -> Result<J, JErr> {
        let st = self.i;
        if self.peek() == Some(b'-') {
            self.i += 1;
        }
        match self.peek() {
            Some(b'0') => self.i += 1,
            Some(c) if c.is_ascii_digit() => {
                while matches!(self.peek(), Some(c) if c.is_ascii_digit()) {
                    self.i += 1;
                }
            }
            _ => return Err(JErr::Syntax("number", self.i)),
        }
        if self.peek() == Some(b'.') {
            self.i += 1;
            if !matches!(self.peek(), Some(c) if c.is_ascii_digit()) {
                return Err(JErr::Syntax("fraction", self.i));
            }
            while matches!(self.peek(), Some(c) if c.is_ascii_digit()) {
                self.i += 1;
            }
        }
        if matches!(self.peek(), Some(b'e') | Some(b'E')) {
            self.i += 1;
            if matches!(self.peek(), Some(b'+') | Some(b'-')) {
                self.i += 1;
            }
            if !matches!(self.peek(), Some(c) if c.is_ascii_digit()) {
                return Err(JErr::Syntax("exponent", self.i));
            }
            while matches!(self.peek(), Some(c) if c.is_ascii_digit()) {
                self.i += 1;
            }
        }
        Ok(J::Num(
            String::from_utf8_lossy(&self.b[st..self.i]).into_owned(),
        ))
    }
    fn hex4(&mut self) -> Result<u32, JErr> {
        if self.i + 4 > self.b.len() {
            return Err(JErr::Syntax("hex4", self.i));
        }
        let mut v = 0u32;
        for k in 0..4 {
            let c = self.b[self.i + k];
            let d = match c {
                b'0'..=b'9' => c - b'0',
                b'a'..=b'f' => c - b'a' + 10,
                b'A'..=b'F' => c - b'A' + 10,
                _ => return Err(JErr::Syntax("hex4", self.i)),
            };
            v = v * 16 + d as u32;
        }
        self.i += 4;
        Ok(v)
    }
    fn string(&mut self) -> Result<String, JErr> {
        // at opening quote
        self.i += 1;
        let mut out: Vec<u8> = vec![];
        loop {
            let c = match self.peek() {
                None => return Err(JErr::Syntax("unterminated-string", self.i)),
                Some(c) => c,
            };
            self.i += 1;
            match c {
                b'"' => break,
                b'\\' => {
                    let e = match self.peek() {
                        None => return Err(JErr::Syntax("escape", self.i)),
                        Some(e) => e,
                    };
                    self.i += 1;
                    match e {
                        b'"' => out.push(b'"'),
                        b'\\' => out.push(b'\\'),
                        b'/' => out.push(b'/'),
                        b'b' => out.push(8),
                        b'f' => out.push(12),
                        b'n' => out.push(b'\n'),
                        b'r' => out.push(b'\r'),
                        b't' => out.push(b'\t'),
                        b'u' => {
                            let mut cp = self.hex4()?;
                            if (0xD800..0xDC00).contains(&cp) {
                                if self.b[self.i..].starts_with(b"\\u") {
                                    self.i += 2;
                                    let lo = self.hex4()?;
                                    if !(0xDC00..0xE000).contains(&lo) {
                                        return Err(JErr::Syntax("surrogate", self.i));
                                    }
                                    cp = 0x10000 + ((cp - 0xD800) << 10) + (lo - 0xDC00);
                                } else {
                                    return Err(JErr::Syntax("surrogate", self.i));
                                }
                            } else if (0xDC00..0xE000).contains(&cp) {
                                return Err(JErr::Syntax("surrogate", self.i));
                            }
                            let ch = char::from_u32(cp).ok_or(JErr::Syntax("codepoint", self.i))?;
                            let mut buf = [0u8; 4];
                            out.extend_from_slice(ch.encode_utf8(&mut buf).as_bytes());
                        }
                        _ => return Err(JErr::Syntax("escape", self.i)),
                    }
                }
                c if c < 0x20 => return Err(JErr::Syntax("raw-control-in-string", self.i)),
                c => out.push(c),
            }
        }
        String::from_utf8(out).map_err(|_| JErr::Syntax("utf8", self.i))
    }
}

fn parse_json(b: &[u8]) -> Result<J, JErr> {
    if std::str::from_utf8(b).is_err() {
        return Err(JErr::Syntax("utf8", 0));
    }
    let mut p = JP { b, i: 0 };
    let v = p.value(0)?;
    p.ws();
    if p.i != b.len() {
        return Err(JErr::Syntax("trailing", p.i));
    }
    Ok(v)
}

fn j_to_value(j: &J) -> Value {
    match j {
        J::Null => Value::Null,
        J::Bool(b) => Value::Bool(*b),
        J::Num(s) => {
            if let Ok(u) = s.parse::<u64>() {
                Value::from(u)
            } else if let Ok(i) = s.parse::<i64>() {
                Value::from(i)
            } else {
                // not an integer on the wire: keep the text so it can never equal an expected integer
                Value::String(format!("<non-integer number {}>", s))
            }
        }
        J::Str(s) => Value::String(s.clone()),
        J::Arr(a) => Value::Array(a.iter().map(j_to_value).collect()),
        J::Obj(o) => {
            let mut m = Map::new();
            for (k, v) in o {
                m.insert(k.clone(), j_to_value(v));
            }
            Value::Object(m)
        }
    }
}

fn jget<'a>(o: &'a [(String, J)], k: &str) -> Option<&'a J> {
    o.iter().find(|(k2, _)| k2 == k).map(|(_, v)| v)
}

fn jkind(j: &J) -> &'static str {
    match j {
        J::Null => "null",
        J::Bool(_) => "bool",
        J::Num(_) => "number",
        J::Str(_) => "string",
        J::Arr(_) => "array",
        J::Obj(_) => "object",
    }
}

// ---------------------------------------------------------------------------------------------
// Case description (the harness' own model of what it asked the library to do)

#[derive(Clone, Debug, PartialEq)]
struct AppDesc {
    id: String,
    /// 1..=4 leading parts given to `Version::from([..; n])`; the rest are zero.
    ver: Vec<u32>,
    fp: Option<String>,
    /// cohort, cohorthint, cohortname
    cohort: [Option<String>; 3],
    day: Option<u32>,
    extras: Vec<(String, String)>,
}

impl AppDesc {
    fn version4(&self) -> String {
        let mut p = [0u32; 4];
        for (i, v) in self.ver.iter().enumerate() {
            p[i] = *v;
        }
        format!("{}.{}.{}.{}", p[0], p[1], p[2], p[3])
    }
    fn to_lib(&self) -> App {
        let version = match self.ver.len() {
            1 => Version::from([self.ver[0]]),
            2 => Version::from([self.ver[0], self.ver[1]]),
            3 => Version::from([self.ver[0], self.ver[1], self.ver[2]]),
            _ => Version::from([self.ver[0], self.ver[1], self.ver[2], self.ver[3]]),
        };
        let mut extra_fields = HashMap::new();
        for (k, v) in &self.extras {
            extra_fields.insert(k.clone(), v.clone());
        }
        App {
            id: self.id.clone(),
            version,
            fingerprint: self.fp.clone(),
            cohort: Cohort {
                id: self.cohort[0].clone(),
                hint: self.cohort[1].clone(),
                name: self.cohort[2].clone(),
            },
            user_counting: UserCounting::ClientRegulatedByDate(self.day),
            extra_fields,
        }
    }
    fn to_json(&self) -> Value {
        json!({
            "id": self.id, "version_parts": self.ver, "fp": self.fp,
            "cohort": self.cohort[0], "cohorthint": self.cohort[1], "cohortname": self.cohort[2],
            "day": self.day,
            "extras": self.extras.iter().map(|(k, v)| json!([k, v])).collect::<Vec<_>>(),
        })
    }
}

const EV_TYPES: [(u64, &str); 7] = [
    (0, "Unknown"),
    (1, "DownloadComplete"),
    (2, "InstallComplete"),
    (3, "UpdateComplete"),
    (13, "UpdateDownloadStarted"),
    (14, "UpdateDownloadFinished"),
    (54, "RebootedAfterUpdate"),
];
const EV_RESULTS: [(u64, &str); 7] = [
    (0, "Error"),
    (1, "Success"),
    (2, "SuccessAndRestartRequired"),
    (3, "SuccessAndAppRestartRequired"),
    (4, "Cancelled"),
    (8, "ErrorInSystemInstaller"),
    (9, "UpdateDeferred"),
];
const EV_ERRS: [(u64, &str); 4] = [
    (0, "ParseResponse"),
    (1, "ConstructInstallPlan"),
    (2, "Installation"),
    (3, "DeniedByPolicy"),
];

#[derive(Clone, Debug, PartialEq)]
struct EvDesc {
    ty: usize,
    res: usize,
    err: Option<usize>,
    prev: Option<String>,
    next: Option<String>,
    dl: Option<u64>,
}

impl EvDesc {
    fn to_lib(&self) -> Event {
        // The harness names the variant; the numeric code expected on the wire comes from the
        // tables above (Omaha protocol), not from the library.
        let event_type = match self.ty {
            0 => EventType::Unknown,
            1 => EventType::DownloadComplete,
            2 => EventType::InstallComplete,
            3 => EventType::UpdateComplete,
            4 => EventType::UpdateDownloadStarted,
            5 => EventType::UpdateDownloadFinished,
            _ => EventType::RebootedAfterUpdate,
        };
        let event_result = match self.res {
            0 => EventResult::Error,
            1 => EventResult::Success,
            2 => EventResult::SuccessAndRestartRequired,
            3 => EventResult::SuccessAndAppRestartRequired,
            4 => EventResult::Cancelled,
            5 => EventResult::ErrorInSystemInstaller,
            _ => EventResult::UpdateDeferred,
        };
        let errorcode = self.err.map(|e| match e {
            0 => EventErrorCode::ParseResponse,
            1 => EventErrorCode::ConstructInstallPlan,
            2 => EventErrorCode::Installation,
            _ => EventErrorCode::DeniedByPolicy,
        });
        Event {
            event_type,
            event_result,
            errorcode,
            previous_version: self.prev.clone(),
            next_version: self.next.clone(),
            download_time_ms: self.dl,
        }
    }
    fn to_json(&self) -> Value {
        json!({
            "type": EV_TYPES[self.ty].1, "result": EV_RESULTS[self.res].1,
            "errorcode": self.err.map(|e| EV_ERRS[e].1),
            "previousversion": self.prev, "nextversion": self.next, "download_time_ms": self.dl,
        })
    }
    fn expected(&self) -> Value {
        let mut m = Map::new();
        m.insert("eventtype".into(), Value::from(EV_TYPES[self.ty].0));
        m.insert("eventresult".into(), Value::from(EV_RESULTS[self.res].0));
        if let Some(e) = self.err {
            m.insert("errorcode".into(), Value::from(EV_ERRS[e].0));
        }
        if let Some(s) = &self.prev {
            m.insert("previousversion".into(), Value::String(s.clone()));
        }
        if let Some(s) = &self.next {
            m.insert("nextversion".into(), Value::String(s.clone()));
        }
        if let Some(d) = self.dl {
            m.insert("download_time_ms".into(), Value::from(d));
        }
        Value::Object(m)
    }
}

#[derive(Clone, Debug)]
enum Op {
    Uc(AppDesc),
    Ping(AppDesc),
    Event(AppDesc, EvDesc),
    ReqId,
    SessId,
    /// Build twice here and judge.
    Build,
}

impl Op {
    fn to_json(&self) -> Value {
        match self {
            Op::Uc(a) => json!({"op": "add_update_check", "app": a.to_json()}),
            Op::Ping(a) => json!({"op": "add_ping", "app": a.to_json()}),
            Op::Event(a, e) => json!({"op": "add_event", "app": a.to_json(), "event": e.to_json()}),
            Op::ReqId => json!({"op": "request_id(GUID::new())"}),
            Op::SessId => json!({"op": "session_id(GUID::new())"}),
            Op::Build => json!({"op": "build x2"}),
        }
    }
}

#[derive(Clone, Copy, Debug, PartialEq)]
enum Kind {
    Main,
    BadUrl,
    HostileHeader,
    CollidingExtras,
}

#[derive(Clone, Debug)]
struct UrlDesc {
    text: String,
    /// What `http::Uri` is expected to render (main workload): identity, except "/" for an empty path.
    expected: String,
    class: u64,
}

#[derive(Clone, Debug)]
struct Case {
    kind: Kind,
    updater_name: String,
    updater_ver: Vec<u32>,
    os: [String; 4],
    url: UrlDesc,
    on_demand: bool,
    proxies: bool,
    disable: bool,
    same_version: bool,
    ops: Vec<Op>,
    /// bit0: some body string needs JSON escapes, bit1: some string is non-ASCII
    esc: u64,
}

impl Case {
    fn to_json(&self) -> Value {
        json!({
            "kind": format!("{:?}", self.kind),
            "updater": {"name": self.updater_name, "version_parts": self.updater_ver},
            "os": {"platform": self.os[0], "version": self.os[1], "sp": self.os[2], "arch": self.os[3]},
            "service_url": self.url.text,
            "params": {"source": if self.on_demand {"OnDemand"} else {"ScheduledTask"},
                "use_configured_proxies": self.proxies, "disable_updates": self.disable,
                "offer_update_if_same_version": self.same_version},
            "ops": self.ops.iter().map(|o| o.to_json()).collect::<Vec<_>>(),
        })
    }
}

// ---------------------------------------------------------------------------------------------
// Model: what the request must contain after a prefix of the call sequence

#[derive(Clone, Debug)]
struct AppState {
    first: AppDesc,
    later: Vec<AppDesc>,
    uc: bool,
    ping: bool,
    events: Vec<EvDesc>,
}

#[derive(Clone, Debug, Default)]
struct Model {
    apps: Vec<AppState>,
    last_id: Option<String>,
    /// hyphenated lower-case uuid text of the ids that were set (from the GUID's Debug rendering)
    reqid: Option<Option<String>>,
    sessid: Option<Option<String>>,
    builds_before: u64,
}

impl Model {
    fn entry(&mut self, a: &AppDesc) -> &mut AppState {
        self.last_id = Some(a.id.clone());
        if let Some(i) = self.apps.iter().position(|s| s.first.id == a.id) {
            if *a != self.apps[i].first {
                self.apps[i].later.push(a.clone());
            }
            return &mut self.apps[i];
        }
        self.apps.push(AppState {
            first: a.clone(),
            later: vec![],
            uc: false,
            ping: false,
            events: vec![],
        });
        self.apps.last_mut().unwrap()
    }
}

// ---------------------------------------------------------------------------------------------
// Generators

const PLAIN: &[u8] = b"abcdefghijklmnopqrstuvwxyz0123456789-_.";
const VISIBLE_EXTRA: &[&str] = &[
    "\"", "\\", "{", "}", ":", ",", "/", "[", "]", "'", "&", "<", ">", "%", "\\u0041", "\\n", " ",
];
const CONTROLS: &[&str] = &["\u{1}", "\n", "\t", "\r", "\u{1f}", "\u{7f}", "\u{8}", "\u{c}", "\0"];
const UNICODE: &[&str] = &[
    "\u{e9}", "\u{df}", "\u{65e5}\u{672c}\u{8a9e}", "\u{2028}", "\u{2029}", "\u{1F600}", "\u{feff}",
    "\u{ffff}", "e\u{301}", "\u{10FFFF}", "\u{80}",
];

fn plain(rng: &mut Rng, lo: usize, hi: usize) -> String {
    let n = lo + rng.usize(hi - lo + 1);
    (0..n).map(|_| *rng.pick(PLAIN) as char).collect()
}

fn insert_at_char(rng: &mut Rng, s: &mut String, piece: &str) {
    let n = s.chars().count();
    let pos = rng.usize(n + 1);
    let bi = s.char_indices().nth(pos).map(|x| x.0).unwrap_or(s.len());
    s.insert_str(bi, piece);
}

/// Arbitrary body string (any Unicode scalar values). Returns the string; `esc` collects bit0
/// (JSON escape needed) / bit1 (non-ASCII).
fn body_str(rng: &mut Rng, esc: &mut u64) -> String {
    let mut s = match rng.below(12) {
        0 => String::new(),
        1 => plain(rng, 80, 200),
        2 => (*rng.pick(&["null", "true", "{\"a\":1}", "[]", "0", "\\u0041", "\"\"", "</script>"]))
            .to_string(),
        _ => plain(rng, 1, 12),
    };
    let mode = rng.below(8);
    if mode == 1 || mode == 4 || mode == 7 {
        for _ in 0..1 + rng.usize(3) {
            let p = *rng.pick(VISIBLE_EXTRA);
            insert_at_char(rng, &mut s, p);
        }
    }
    if mode == 2 || mode == 4 || mode == 7 {
        for _ in 0..1 + rng.usize(2) {
            let p = *rng.pick(CONTROLS);
            insert_at_char(rng, &mut s, p);
        }
    }
    if mode == 3 || mode == 7 {
        for _ in 0..1 + rng.usize(3) {
            let p = *rng.pick(UNICODE);
            insert_at_char(rng, &mut s, p);
        }
    }
    note_esc(&s, esc);
    s
}

fn note_esc(s: &str, esc: &mut u64) {
    if s.chars().any(|c| c == '"' || c == '\\' || (c as u32) < 0x20) {
        *esc |= 1;
    }
    if !s.is_ascii() {
        *esc |= 2;
    }
}

/// A legal HTTP header value made of visible ASCII (spaces only inside).
fn header_str(rng: &mut Rng, esc: &mut u64) -> String {
    let mut s = match rng.below(10) {
        0 => String::new(),
        1 => format!(
            "{{{}-{}-{}-{}-{}}}",
            plain(rng, 8, 8),
            plain(rng, 4, 4),
            plain(rng, 4, 4),
            plain(rng, 4, 4),
            plain(rng, 12, 12)
        )
        .to_uppercase(),
        _ => plain(rng, 1, 14),
    };
    if rng.chance(2, 5) && !s.is_empty() {
        for _ in 0..1 + rng.usize(3) {
            let p = *rng.pick(VISIBLE_EXTRA);
            if p == " " {
                // keep spaces strictly inside
                let n = s.chars().count();
                if n >= 2 {
                    let pos = 1 + rng.usize(n - 1);
                    s.insert(pos, ' ');
                }
            } else {
                insert_at_char(rng, &mut s, p);
            }
        }
    }
    debug_assert!(header_legal(&s));
    note_esc(&s, esc);
    s
}

/// Our own (conservative) notion of a header-safe value: printable ASCII only.
fn header_legal(s: &str) -> bool {
    s.bytes().all(|b| (0x20..=0x7e).contains(&b))
}

fn bu32(rng: &mut Rng) -> u32 {
    match rng.below(9) {
        0 => 0,
        1 => 1,
        2 => u32::MAX,
        3 => i32::MAX as u32,
        4 => 1u32 << 31,
        5 => u32::MAX - 1,
        6 => rng.below(100) as u32,
        _ => rng.next_u32(),
    }
}

fn gen_version(rng: &mut Rng) -> Vec<u32> {
    let n = 1 + rng.usize(4);
    (0..n).map(|_| bu32(rng)).collect()
}

fn gen_day(rng: &mut Rng) -> Option<u32> {
    match rng.below(6) {
        0 | 1 => None,
        2 => Some(0),
        3 => Some(u32::MAX),
        4 => Some(1),
        _ => Some(rng.next_u32()),
    }
}

fn gen_opt_str(rng: &mut Rng, esc: &mut u64, some_num: u64, den: u64) -> Option<String> {
    if rng.chance(some_num, den) {
        Some(body_str(rng, esc))
    } else {
        None
    }
}

fn gen_extras(rng: &mut Rng, esc: &mut u64, collide: bool) -> Vec<(String, String)> {
    let n = match rng.below(6) {
        0 | 1 | 2 => 0,
        3 => 1,
        4 => 2,
        _ => 3 + rng.usize(3),
    };
    let mut out: Vec<(String, String)> = vec![];
    for _ in 0..n {
        let mut k = body_str(rng, esc);
        if rng.chance(1, 4) {
            // near-collisions with protocol names: legal, distinct keys
            k = (*rng.pick(&[
                "Appid", "appid ", "cohort_", "Version", "events", "pings", "updatecheck2", "FP",
                "request", "app", "cohortHint", "ad", "rd", "eventtype",
            ]))
            .to_string();
        }
        if APP_PROTO_KEYS.contains(&k.as_str()) || out.iter().any(|(k2, _)| *k2 == k) {
            continue;
        }
        let v = body_str(rng, esc);
        out.push((k, v));
    }
    if collide {
        let k = (*rng.pick(&APP_PROTO_KEYS)).to_string();
        let v = body_str(rng, esc);
        out.push((k, v));
    }
    out
}

fn gen_app(rng: &mut Rng, esc: &mut u64, id: String) -> AppDesc {
    let cohort_mask = rng.below(8);
    let mut cohort: [Option<String>; 3] = [None, None, None];
    for (i, c) in cohort.iter_mut().enumerate() {
        if cohort_mask >> i & 1 == 1 {
            *c = Some(body_str(rng, esc));
        }
    }
    AppDesc {
        id,
        ver: gen_version(rng),
        fp: gen_opt_str(rng, esc, 1, 2),
        cohort,
        day: gen_day(rng),
        extras: gen_extras(rng, esc, false),
    }
}

/// A different App value carrying the same id (what a later insertion passes).
fn gen_variant(rng: &mut Rng, esc: &mut u64, base: &AppDesc) -> AppDesc {
    for _ in 0..8 {
        let mut v = gen_app(rng, esc, base.id.clone());
        // make sure the cohort really differs from the first insertion in most variants
        if v.cohort == base.cohort {
            let i = rng.usize(3);
            v.cohort[i] = match &base.cohort[i] {
                Some(_) if rng.bool() => None,
                _ => Some(format!("later-{}", plain(rng, 1, 6))),
            };
        }
        if v.day == base.day {
            v.day = match base.day {
                None => Some(1 + rng.below(5000) as u32),
                Some(d) => Some(d.wrapping_add(1)),
            };
        }
        if v != *base {
            return v;
        }
    }
    base.clone()
}

fn gen_event(rng: &mut Rng, esc: &mut u64) -> EvDesc {
    let verstr = |rng: &mut Rng, esc: &mut u64| -> Option<String> {
        match rng.below(5) {
            0 | 1 => None,
            2 | 3 => Some(format!("{}.{}.{}.{}", bu32(rng), bu32(rng), bu32(rng), bu32(rng))),
            _ => Some(body_str(rng, esc)),
        }
    };
    EvDesc {
        ty: rng.usize(7),
        res: rng.usize(7),
        err: if rng.chance(2, 5) { None } else { Some(rng.usize(4)) },
        prev: verstr(rng, esc),
        next: verstr(rng, esc),
        dl: match rng.below(8) {
            0 | 1 | 2 => None,
            3 => Some(0),
            4 => Some(u64::MAX),
            5 => Some((1u64 << 53) + 1),
            6 => Some(i64::MAX as u64 + 1),
            _ => Some(rng.next_u64()),
        },
    }
}

fn gen_url(rng: &mut Rng) -> UrlDesc {
    let https = rng.bool();
    let host_kind = rng.below(4);
    let host = match host_kind {
        0 => (*rng.pick(&["example.com", "localhost", "a.b-c.d0.test", "omaha.example.org", "x"]))
            .to_string(),
        1 => (*rng.pick(&["127.0.0.1", "255.255.255.255", "10.0.0.1", "0.0.0.0"])).to_string(),
        2 => (*rng.pick(&["[::1]", "[2001:db8::ff00:42:8329]", "[::]", "[fe80::1]"])).to_string(),
        _ => format!("{}.{}.test", plain_host(rng), plain_host(rng)),
    };
    let port = if rng.chance(2, 5) {
        Some(*rng.pick(&[80u32, 443, 8080, 1, 65535, 0]))
    } else {
        None
    };
    let depth = rng.usize(5);
    let mut path = String::new();
    for _ in 0..depth {
        path.push('/');
        path.push_str(match rng.below(6) {
            0 => "service",
            1 => "update2",
            2 => "json",
            3 => "a%20b",
            4 => "v1.0~x_y-z",
            _ => "p",
        });
    }
    if rng.chance(1, 4) {
        path.push('/');
    }
    let nq = match rng.below(6) {
        0 | 1 | 2 => 0,
        3 => 1,
        4 => 2,
        _ => 3,
    };
    let mut query: Option<String> = None;
    if nq > 0 {
        let mut q = String::new();
        for i in 0..nq {
            if i > 0 {
                q.push('&');
            }
            q.push_str(match rng.below(5) {
                0 => "a=b",
                1 => "cup2key=7:123",
                2 => "x=%2F",
                3 => "empty=",
                _ => "k=v1,v2",
            });
        }
        query = Some(q);
    } else if rng.chance(1, 5) {
        query = Some(String::new()); // trailing '?'
    }
    let authority = match port {
        Some(p) => format!("{}:{}", host, p),
        None => host,
    };
    let scheme = if https { "https" } else { "http" };
    let q = match &query {
        Some(q) => format!("?{}", q),
        None => String::new(),
    };
    let text = format!("{}://{}{}{}", scheme, authority, path, q);
    let epath = if path.is_empty() { "/" } else { path.as_str() };
    let expected = format!("{}://{}{}{}", scheme, authority, epath, q);
    let class = host_kind * 8
        + (path.is_empty() as u64) * 4
        + match &query {
            None => 0,
            Some(q) if q.is_empty() => 1,
            Some(_) => 2,
        };
    UrlDesc { text, expected, class }
}

fn plain_host(rng: &mut Rng) -> String {
    let n = 1 + rng.usize(8);
    (0..n)
        .map(|_| *rng.pick(b"abcdefghijklmnopqrstuvwxyz0123456789") as char)
        .collect()
}

/// URL strings for the "must be Err (or whatever `http::Uri` itself says), never a panic" workload.
fn gen_bad_url(rng: &mut Rng) -> UrlDesc {
    let fixed: [&str; 22] = [
        "",
        " ",
        "http://exa mple.com/",
        "http://example.com/pa th",
        "http://example.com/\u{1}",
        "http://example.com/\n",
        "http://example.com/\u{7f}",
        "\n",
        "\0",
        "http://",
        "://example.com",
        "http://[::1",
        "http://example.com/?q=a b",
        "http://example.com/\t",
        "http://exam\u{e9}ple.com/",
        "http://example.com/\u{1F600}",
        "http:///path",
        "http://user@",
        "http://example.com:/",
        "http://example.com/a#frag",
        "/relative/path",
        "http://example.com/%zz",
    ];
    let pick = rng.below(40);
    let (text, class) = if (pick as usize) < fixed.len() {
        (fixed[pick as usize].to_string(), 100 + pick)
    } else if pick == 39 {
        (format!("http://example.com/{}", "a".repeat(70_000)), 140)
    } else {
        // a good URL with one hostile character inserted somewhere
        let mut t = gen_url(rng).text;
        let kinds: [&str; 10] = [" ", "\n", "\u{1}", "\u{7f}", "\u{e9}", "\0", "\t", "\u{2028}", "\"", "\\"];
        let k = rng.usize(kinds.len());
        insert_at_char(rng, &mut t, kinds[k]);
        (t, 150 + k as u64)
    };
    UrlDesc {
        expected: String::new(),
        text,
        class,
    }
}

fn gen_case(seed: u64, shard: u64, idx: u64) -> Case {
    let mut rng = Rng::derive(seed, shard, 0xC15, idx);
    let rng = &mut rng;
    let kind = match idx % 16 {
        7 | 15 => Kind::BadUrl,
        5 => Kind::HostileHeader,
        13 => Kind::CollidingExtras,
        _ => Kind::Main,
    };
    let mut esc = 0u64;
    // all 8 flag combinations x 2 sources, deterministically cycled
    let combo = (idx / 16 + idx % 16) % 16;
    let on_demand = combo & 1 == 1;
    let proxies = combo & 2 != 0;
    let disable = combo & 4 != 0;
    let same_version = combo & 8 != 0;

    let mut updater_name = header_str(rng, &mut esc);
    let os = [
        body_str(rng, &mut esc),
        body_str(rng, &mut esc),
        body_str(rng, &mut esc),
        body_str(rng, &mut esc),
    ];
    let url = if kind == Kind::BadUrl { gen_bad_url(rng) } else { gen_url(rng) };

    // pool of apps with distinct ids; at least one header-legal id
    let napps = 1 + rng.usize(5);
    let mut pool: Vec<AppDesc> = vec![];
    for i in 0..napps {
        let mut id = if i == 0 || rng.chance(1, 3) {
            header_str(rng, &mut esc)
        } else {
            body_str(rng, &mut esc)
        };
        if i > 0 && rng.chance(1, 5) {
            // near-duplicates of an existing id are *different* apps
            let base = pool[rng.usize(pool.len())].id.clone();
            id = match rng.below(4) {
                0 => base.to_uppercase(),
                1 => format!("{} ", base),
                2 => format!("{}\u{0}", base),
                _ => format!("{}{}", base, base),
            };
            note_esc(&id, &mut esc);
        }
        if pool.iter().any(|a| a.id == id) {
            id = format!("{}~{}", id, i);
        }
        pool.push(gen_app(rng, &mut esc, id));
    }
    let mut hostile_first = false;
    if kind == Kind::HostileHeader {
        let bad = *rng.pick(&["\n", "\r\n", "\u{1}", "\u{7f}", "\u{e9}", "\u{1F600}", "\t", "\0", "\u{2028}"]);
        if rng.bool() {
            insert_at_char(rng, &mut updater_name, bad);
        } else {
            hostile_first = true;
            let mut id = pool[0].id.clone();
            insert_at_char(rng, &mut id, bad);
            if pool.iter().any(|a| a.id == id) {
                id.push_str("~h");
            }
            pool[0].id = id;
        }
        note_esc(bad, &mut esc);
    }
    if kind == Kind::CollidingExtras {
        let i = rng.usize(pool.len());
        pool[i].extras = gen_extras(rng, &mut esc, true);
    }

    let nops = if kind == Kind::BadUrl { 1 + rng.usize(3) } else { 1 + rng.usize(12) };
    let mut used: Vec<bool> = vec![false; pool.len()];
    let mut ops: Vec<Op> = vec![];
    if kind != Kind::BadUrl && rng.chance(1, 8) {
        ops.push(Op::Build); // a build before any app was added
    }
    for n in 0..nops {
        if rng.chance(1, 6) {
            ops.push(if rng.bool() { Op::ReqId } else { Op::SessId });
        }
        let legal: Vec<usize> = (0..pool.len()).filter(|i| header_legal(&pool[*i].id)).collect();
        let ai = if n == 0 {
            if hostile_first || legal.is_empty() {
                0
            } else {
                legal[rng.usize(legal.len())]
            }
        } else if rng.chance(1, 2) {
            // favour repeats
            let seen: Vec<usize> = (0..pool.len()).filter(|i| used[*i]).collect();
            seen[rng.usize(seen.len())]
        } else {
            rng.usize(pool.len())
        };
        let app = if used[ai] && rng.chance(7, 10) {
            gen_variant(rng, &mut esc, &pool[ai])
        } else {
            pool[ai].clone()
        };
        used[ai] = true;
        // now and then repeat an earlier event of this app verbatim (e.g. a retried download
        // reports the same event twice): both must be sent, in insertion order
        let dup: Option<Op> = if rng.chance(1, 4) {
            let prev: Vec<&Op> = ops.iter().filter(|o| matches!(o, Op::Event(a, _) if a.id == app.id)).collect();
            if prev.is_empty() {
                None
            } else {
                match prev[rng.usize(prev.len())] {
                    Op::Event(_, e) => Some(Op::Event(app.clone(), e.clone())),
                    _ => None,
                }
            }
        } else {
            None
        };
        ops.push(match (dup, rng.below(3)) {
            (Some(d), _) => d,
            (None, 0) => Op::Uc(app),
            (None, 1) => Op::Ping(app),
            (None, _) => Op::Event(app, gen_event(rng, &mut esc)),
        });
        if kind != Kind::BadUrl && n + 1 < nops && rng.chance(1, 6) {
            ops.push(Op::Build);
        }
    }
    if rng.chance(1, 4) {
        ops.push(Op::ReqId);
    }
    if rng.chance(1, 4) {
        ops.push(Op::SessId);
    }
    ops.push(Op::Build);
    Case {
        kind,
        updater_name,
        updater_ver: gen_version(rng),
        os,
        url,
        on_demand,
        proxies,
        disable,
        same_version,
        ops,
        esc,
    }
}

// ---------------------------------------------------------------------------------------------
// Reference encoder (expected body) and the monitors

fn expected_app(case: &Case, s: &AppState) -> Value {
    let a = &s.first;
    let mut m = Map::new();
    m.insert("appid".into(), Value::String(a.id.clone()));
    m.insert("version".into(), Value::String(a.version4()));
    if let Some(fp) = &a.fp {
        m.insert("fp".into(), Value::String(fp.clone()));
    }
    for (i, k) in ["cohort", "cohorthint", "cohortname"].iter().enumerate() {
        if let Some(c) = &a.cohort[i] {
            m.insert((*k).into(), Value::String(c.clone()));
        }
    }
    if s.uc {
        let mut u = Map::new();
        if case.disable {
            u.insert("updatedisabled".into(), Value::Bool(true));
        }
        if case.same_version {
            u.insert("sameversionupdate".into(), Value::Bool(true));
        }
        m.insert("updatecheck".into(), Value::Object(u));
    }
    if !s.events.is_empty() {
        m.insert(
            "event".into(),
            Value::Array(s.events.iter().map(|e| e.expected()).collect()),
        );
    }
    if s.ping {
        let mut p = Map::new();
        if let Some(d) = a.day {
            p.insert("ad".into(), Value::from(d as u64));
            p.insert("rd".into(), Value::from(d as u64));
        }
        m.insert("ping".into(), Value::Object(p));
    }
    for (k, v) in &a.extras {
        m.insert(k.clone(), Value::String(v.clone()));
    }
    Value::Object(m)
}

fn ver4(parts: &[u32]) -> String {
    let mut p = [0u32; 4];
    for (i, v) in parts.iter().enumerate() {
        p[i] = *v;
    }
    format!("{}.{}.{}.{}", p[0], p[1], p[2], p[3])
}

/// `ids`: the braced id strings to expect where the harness could read the uuid back from the
/// GUID's Debug rendering; otherwise the actually observed string is accepted for the value diff.
fn expected_body(case: &Case, m: &Model, reqid: Option<String>, sessid: Option<String>) -> Value {
    let mut r = Map::new();
    r.insert("protocol".into(), Value::String("3.0".into()));
    r.insert("updater".into(), Value::String(case.updater_name.clone()));
    r.insert("updaterversion".into(), Value::String(ver4(&case.updater_ver)));
    r.insert(
        "installsource".into(),
        Value::String(if case.on_demand { "ondemand" } else { "scheduledtask" }.into()),
    );
    r.insert("ismachine".into(), Value::Bool(true));
    if let Some(s) = reqid {
        r.insert("requestid".into(), Value::String(s));
    }
    if let Some(s) = sessid {
        r.insert("sessionid".into(), Value::String(s));
    }
    r.insert(
        "os".into(),
        json!({"platform": case.os[0], "version": case.os[1], "sp": case.os[2], "arch": case.os[3]}),
    );
    r.insert(
        "app".into(),
        Value::Array(m.apps.iter().map(|s| expected_app(case, s)).collect()),
    );
    let mut top = Map::new();
    top.insert("request".into(), Value::Object(r));
    Value::Object(top)
}

const KNOWN_KEYS: [&str; 31] = [
    "request", "protocol", "updater", "updaterversion", "installsource", "ismachine", "requestid",
    "sessionid", "os", "platform", "version", "sp", "arch", "app", "appid", "fp", "cohort",
    "cohorthint", "cohortname", "updatecheck", "updatedisabled", "sameversionupdate", "event",
    "eventtype", "eventresult", "errorcode", "previousversion", "nextversion", "download_time_ms",
    "ping", "ad",
];

/// First differing path between two values, with array indices replaced by `[]` (stable text).
fn first_diff(path: &str, e: &Value, a: &Value) -> Option<String> {
    match (e, a) {
        (Value::Object(eo), Value::Object(ao)) => {
            for (k, ev) in eo {
                let kk = if KNOWN_KEYS.contains(&k.as_str()) { k.as_str() } else { "<extra>" };
                match ao.get(k) {
                    None => return Some(format!("{}.{} missing", path, kk)),
                    Some(av) => {
                        if let Some(d) = first_diff(&format!("{}.{}", path, kk), ev, av) {
                            return Some(d);
                        }
                    }
                }
            }
            for k in ao.keys() {
                if !eo.contains_key(k) {
                    return Some(format!("{} unexpected-key", path));
                }
            }
            None
        }
        (Value::Array(ea), Value::Array(aa)) => {
            if ea.len() != aa.len() {
                return Some(format!("{}[] length", path));
            }
            for (x, y) in ea.iter().zip(aa.iter()) {
                if let Some(d) = first_diff(&format!("{}[]", path), x, y) {
                    return Some(d);
                }
            }
            None
        }
        _ => {
            if e == a {
                None
            } else {
                Some(format!("{} value", path))
            }
        }
    }
}

struct Viols {
    v: Vec<(String, String, String)>,
}
impl Viols {
    fn add(&mut self, rule: &str, disc: &str, detail: String) {
        let sig = format!("{} {}", rule, disc);
        if !self.v.iter().any(|x| x.1 == sig) {
            self.v.push((rule.to_string(), sig, detail));
        }
    }
}

fn short(j: &J) -> String {
    let s = j_to_value(j).to_string();
    if s.len() > 200 {
        let cut = s.char_indices().nth(160).map(|x| x.0).unwrap_or(s.len());
        format!("{}...", &s[..cut])
    } else {
        s
    }
}

/// Is `s` a braced, hyphenated, lower-case version-4 UUID: `{xxxxxxxx-xxxx-4xxx-yxxx-xxxxxxxxxxxx}`?
/// 0 = ok, 1 = not the braced lower-case hyphenated form, 2 = right form but not v4 / RFC variant.
fn guid_form(s: &str) -> u8 {
    let b = s.as_bytes();
    if b.len() != 38 || b[0] != b'{' || b[37] != b'}' {
        return 1;
    }
    let inner = &b[1..37];
    for (i, c) in inner.iter().enumerate() {
        let hyphen = matches!(i, 8 | 13 | 18 | 23);
        if hyphen {
            if *c != b'-' {
                return 1;
            }
        } else if !matches!(*c, b'0'..=b'9' | b'a'..=b'f') {
            return 1;
        }
    }
    if inner[14] != b'4' || !matches!(inner[19], b'8' | b'9' | b'a' | b'b') {
        return 2;
    }
    0
}

/// The uuid text inside `GUID { uuid: .. }` (Debug), independent of the GUID's Serialize impl.
fn guid_debug_text(g: &GUID) -> Option<String> {
    let d = format!("{:?}", g);
    let i = d.find("uuid: ")?;
    let rest = &d[i + 6..];
    let t: String = rest
        .chars()
        .take_while(|c| c.is_ascii_hexdigit() || *c == '-')
        .collect();
    if t.len() == 36 {
        Some(t.to_ascii_lowercase())
    } else {
        None
    }
}

struct Built {
    method: String,
    uri: String,
    /// (lower-case name, value bytes) in iteration order
    headers: Vec<(String, Vec<u8>)>,
    body: Vec<u8>,
    metadata_some: bool,
}

fn check_headers(case: &Case, m: &Model, b: &Built, r: &mut Report, v: &mut Viols) {
    r.hit("headers");
    let mut exp: Vec<(&str, Vec<u8>)> = vec![
        ("content-type", b"application/json".to_vec()),
        ("x-goog-update-updater", case.updater_name.as_bytes().to_vec()),
        (
            "x-goog-update-interactivity",
            if case.on_demand { b"fg".to_vec() } else { b"bg".to_vec() },
        ),
    ];
    if let Some(first) = m.apps.first() {
        exp.push(("x-goog-update-appid", first.first.id.as_bytes().to_vec()));
    }
    let short_name = |n: &str| -> &'static str {
        match n {
            "content-type" => "content-type",
            "x-goog-update-updater" => "updater-name",
            "x-goog-update-interactivity" => "interactivity",
            _ => "appid",
        }
    };
    for (name, val) in &exp {
        let got: Vec<&Vec<u8>> = b.headers.iter().filter(|h| h.0 == *name).map(|h| &h.1).collect();
        let sn = short_name(name);
        if got.is_empty() {
            v.add("headers", &format!("{}-missing", sn), format!("header {} absent", name));
        } else if got.len() > 1 {
            v.add("headers", &format!("{}-duplicate", sn), format!("header {} x{}", name, got.len()));
        } else if got[0] != val {
            let mut disc = format!("{}-wrong", sn);
            if sn == "appid" {
                let g = got[0];
                if m.apps.iter().skip(1).any(|s| s.first.id.as_bytes() == g.as_slice()) {
                    disc = "appid-not-first".into();
                }
            }
            v.add(
                "headers",
                &disc,
                format!("header {}: got {} expected {}", name, show_bytes(got[0]), show_bytes(val)),
            );
        }
    }
    for (name, val) in &b.headers {
        if !exp.iter().any(|e| e.0 == name) {
            let disc = if name == "x-goog-update-appid" { "appid-unexpected" } else { "unexpected-header" };
            v.add("headers", disc, format!("unexpected header {}: {}", name, show_bytes(val)));
        }
    }
}

fn check_ids(m: &Model, req: &[(String, J)], r: &mut Report, v: &mut Viols) {
    r.hit("ids");
    let pairs = [("requestid", &m.reqid, &m.sessid), ("sessionid", &m.sessid, &m.reqid)];
    for (name, set, other) in pairs {
        match (set, jget(req, name)) {
            (None, None) => {}
            (None, Some(j)) => v.add("ids", &format!("{} unexpected", name), format!("{} = {} but never set", name, short(j))),
            (Some(_), None) => v.add("ids", &format!("{} missing", name), format!("{} was set but is absent", name)),
            (Some(want), Some(J::Str(s))) => {
                r.count(&format!("{}_checked", name), 1);
                match guid_form(s) {
                    1 => v.add("ids", &format!("{} format", name), format!("{} = {:?} is not a braced lower-case hyphenated UUID", name, s)),
                    2 => v.add("ids", &format!("{} not-v4", name), format!("{} = {:?}", name, s)),
                    _ => {}
                }
                if let Some(w) = want {
                    let braced = format!("{{{}}}", w);
                    if *s != braced {
                        let swapped = matches!(other, Some(Some(o)) if format!("{{{}}}", o) == *s);
                        v.add(
                            "ids",
                            &format!("{} {}", name, if swapped { "swapped" } else { "value" }),
                            format!("{} = {:?} but the id set was {:?}", name, s, braced),
                        );
                    }
                }
            }
            (Some(_), Some(j)) => v.add("ids", &format!("{} not-string", name), format!("{} is a {}", name, jkind(j))),
        }
    }
}

fn check_app(case: &Case, st: &AppState, obj: &[(String, J)], r: &mut Report, v: &mut Viols) {
    let a = &st.first;
    // version / fp (part of the plain body shape)
    match jget(obj, "version") {
        Some(J::Str(s)) if *s == a.version4() => {}
        Some(J::Str(s)) if st.later.iter().any(|l| l.version4() == *s) => {
            v.add("body-shape", "app-version later-insertion", format!("version {:?}, first insertion had {:?}", s, a.version4()))
        }
        other => v.add("body-shape", "app-version", format!("version {:?} expected {:?}", other.map(short), a.version4())),
    }
    match (&a.fp, jget(obj, "fp")) {
        (None, None) => {}
        (Some(e), Some(J::Str(s))) if e == s => {}
        (None, Some(j)) => v.add("body-shape", "app-fp unexpected", format!("fp {} emitted, first insertion had none", short(j))),
        (Some(_), None) => v.add("body-shape", "app-fp missing", "fp absent".into()),
        (Some(e), Some(j)) => v.add("body-shape", "app-fp value", format!("fp {} expected {:?}", short(j), e)),
    }

    // cohort fields of the FIRST insertion, only those that are set
    r.hit("cohort-first-insertion");
    let repeated_diff = st.later.iter().any(|l| l.cohort != a.cohort);
    if repeated_diff {
        r.count("cohort_repeated_with_different_cohort", 1);
    }
    for (i, k) in ["cohort", "cohorthint", "cohortname"].iter().enumerate() {
        match (&a.cohort[i], jget(obj, k)) {
            (None, None) => {}
            (Some(e), Some(J::Str(s))) if e == s => {}
            (e, Some(j)) => {
                let later = st.later.iter().any(|l| matches!((&l.cohort[i], j), (Some(x), J::Str(s)) if x == s));
                let disc = if later {
                    "later-insertion-value"
                } else if e.is_none() {
                    if *j == J::Null { "null-emitted" } else { "unexpected" }
                } else {
                    "wrong-value"
                };
                v.add("cohort-first-insertion", &format!("{} {}", k, disc), format!("{} = {} expected {:?}", k, short(j), e));
            }
            (Some(e), None) => {
                let later = st.later.iter().any(|l| l.cohort[i].is_none());
                let disc = if later { "missing-as-in-later-insertion" } else { "missing" };
                v.add("cohort-first-insertion", &format!("{} {}", k, disc), format!("{} absent, expected {:?}", k, e));
            }
        }
    }

    // updatecheck
    r.hit("updatecheck-flags");
    match (st.uc, jget(obj, "updatecheck")) {
        (false, None) => {}
        (false, Some(j)) => v.add("updatecheck-flags", "unexpected", format!("updatecheck {} without add_update_check", short(j))),
        (true, None) => v.add("updatecheck-flags", "missing", "updatecheck absent after add_update_check".into()),
        (true, Some(J::Obj(u))) => {
            for (k, flag) in [("updatedisabled", case.disable), ("sameversionupdate", case.same_version)] {
                match (flag, jget(u, k)) {
                    (false, None) => {}
                    (true, Some(J::Bool(true))) => {}
                    (false, Some(J::Bool(false))) => v.add("updatecheck-flags", "false-emitted", format!("{}: false emitted", k)),
                    (false, Some(j)) => v.add("updatecheck-flags", &format!("{} unexpected", k), format!("{} = {} while the parameter is false", k, short(j))),
                    (true, None) => v.add("updatecheck-flags", &format!("{} missing", k), format!("{} absent while the parameter is true", k)),
                    (true, Some(j)) => v.add("updatecheck-flags", &format!("{} not-true", k), format!("{} = {}", k, short(j))),
                }
            }
            if u.iter().any(|(k, _)| k != "updatedisabled" && k != "sameversionupdate") {
                v.add("updatecheck-flags", "extra-key", format!("updatecheck = {}", short(&J::Obj(u.clone()))));
            }
        }
        (true, Some(j)) => v.add("updatecheck-flags", "not-object", format!("updatecheck is a {}", jkind(j))),
    }

    // ping
    r.hit("ping-dates");
    match (st.ping, jget(obj, "ping")) {
        (false, None) => {}
        (false, Some(j)) => v.add("ping-dates", "unexpected", format!("ping {} without add_ping", short(j))),
        (true, None) => v.add("ping-dates", "missing", "ping absent after add_ping".into()),
        (true, Some(J::Obj(p))) => {
            let ad = jget(p, "ad");
            let rd = jget(p, "rd");
            match a.day {
                None => {
                    if ad.is_some() || rd.is_some() {
                        let later = st.later.iter().any(|l| l.day.is_some());
                        v.add(
                            "ping-dates",
                            if later { "dates-from-later-insertion" } else { "dates-unexpected" },
                            format!("ping = {} but no day number is known", short(&J::Obj(p.clone()))),
                        );
                    }
                }
                Some(d) => {
                    let want = J::Num(d.to_string());
                    let okad = ad == Some(&want);
                    let okrd = rd == Some(&want);
                    if !(okad && okrd) {
                        let disc = if ad.is_none() || rd.is_none() {
                            "dates-missing"
                        } else if ad != rd {
                            "ad-ne-rd"
                        } else if st.later.iter().any(|l| l.day.map(|x| J::Num(x.to_string())).as_ref() == ad) {
                            "day-from-later-insertion"
                        } else {
                            "wrong-day"
                        };
                        v.add("ping-dates", disc, format!("ping = {} expected ad = rd = {}", short(&J::Obj(p.clone())), d));
                    }
                }
            }
            if p.iter().any(|(k, _)| k != "ad" && k != "rd") {
                v.add("ping-dates", "extra-key", format!("ping = {}", short(&J::Obj(p.clone()))));
            }
        }
        (true, Some(j)) => v.add("ping-dates", "not-object", format!("ping is a {}", jkind(j))),
    }

    // events
    r.hit("events-order-codes");
    match (st.events.is_empty(), jget(obj, "event")) {
        (true, None) => {}
        (true, Some(j)) => v.add("events-order-codes", "unexpected", format!("event {} without add_event", short(j))),
        (false, None) => v.add("events-order-codes", "missing", format!("event absent, {} events added", st.events.len())),
        (false, Some(J::Arr(evs))) => {
            let exp: Vec<Value> = st.events.iter().map(|e| e.expected()).collect();
            let got: Vec<Value> = evs.iter().map(j_to_value).collect();
            if exp.len() != got.len() {
                v.add("events-order-codes", "count", format!("{} events on the wire, {} added", got.len(), exp.len()));
            } else if exp != got {
                // same multiset in another order?
                let mut pool = got.clone();
                let mut perm = true;
                for e in &exp {
                    if let Some(i) = pool.iter().position(|g| g == e) {
                        pool.remove(i);
                    } else {
                        perm = false;
                        break;
                    }
                }
                if perm {
                    v.add("events-order-codes", "order", format!("events {:?} expected order {:?}", Value::Array(got.clone()).to_string(), Value::Array(exp.clone()).to_string()));
                } else {
                    for (e, g) in exp.iter().zip(got.iter()) {
                        if e == g {
                            continue;
                        }
                        let d = first_diff("event", e, g).unwrap_or_else(|| "event value".into());
                        v.add("events-order-codes", &d, format!("event {} expected {}", g, e));
                        break;
                    }
                }
            }
        }
        (false, Some(j)) => v.add("events-order-codes", "not-array", format!("event is a {}", jkind(j))),
    }

    // extras + no unknown members
    r.hit("extras-verbatim");
    for (k, val) in &a.extras {
        match jget(obj, k) {
            Some(J::Str(s)) if s == val => {}
            Some(J::Str(s)) => {
                let later = st.later.iter().any(|l| l.extras.iter().any(|(k2, v2)| k2 == k && v2 == s));
                v.add("extras-verbatim", if later { "later-insertion-value" } else { "wrong-value" }, format!("extra {:?} = {:?} expected {:?}", k, s, val))
            }
            Some(j) => v.add("extras-verbatim", "not-string", format!("extra {:?} is a {}", k, jkind(j))),
            None => v.add("extras-verbatim", "missing", format!("extra {:?} absent", k)),
        }
    }
    for (k, j) in obj {
        if APP_PROTO_KEYS.contains(&k.as_str()) || a.extras.iter().any(|(k2, _)| k2 == k) {
            continue;
        }
        let later = st.later.iter().any(|l| l.extras.iter().any(|(k2, _)| k2 == k));
        v.add(
            "extras-verbatim",
            if later { "key-from-later-insertion" } else { "unknown-app-member" },
            format!("app member {:?} = {} was not in the first insertion", k, short(j)),
        );
    }
    if a.extras.is_empty() {
        r.count("apps_without_extras", 1);
    } else {
        r.count("apps_with_extras", 1);
    }
}

/// Judge one built request against the model.  `uri_expected` is the URI text to expect.
fn judge(case: &Case, m: &Model, uri_expected: &str, b: &Built, r: &mut Report) -> (Viols, Value) {
    let mut v = Viols { v: vec![] };
    r.hit("method-uri");
    if b.method != "POST" {
        v.add("method-uri", "method", format!("method {}", b.method));
    }
    if b.uri != uri_expected {
        v.add("method-uri", "uri", format!("uri {:?} expected {:?} (service_url {:?})", b.uri, uri_expected, case.url.text));
    }
    if b.metadata_some {
        v.add("body-shape", "metadata-some", "request metadata returned without a CUP handler".into());
    }
    check_headers(case, m, b, r, &mut v);

    r.hit("no-duplicate-keys");
    r.hit("body-shape");
    let parsed = match parse_json(&b.body) {
        Ok(j) => j,
        Err(JErr::Dup(k)) => {
            let class = if KNOWN_KEYS.contains(&k.as_str()) || k == "rd" {
                k.clone()
            } else {
                "<extra>".into()
            };
            v.add("no-duplicate-keys", &class, format!("object key {:?} appears twice in the body", k));
            return (v, Value::Null);
        }
        Err(JErr::Syntax(what, at)) => {
            v.add("body-shape", &format!("not-json {}", what), format!("body is not JSON ({} at byte {})", what, at));
            return (v, Value::Null);
        }
    };
    let expected_of = |rq: Option<String>, sq: Option<String>| expected_body(case, m, rq, sq);

    let top = match &parsed {
        J::Obj(o) => o,
        j => {
            v.add("body-shape", "top-level-not-object", format!("body is a {}", jkind(j)));
            return (v, expected_of(None, None));
        }
    };
    if top.len() != 1 || top[0].0 != "request" {
        v.add("body-shape", "top-level-keys", format!("top-level keys {:?}", top.iter().map(|x| &x.0).collect::<Vec<_>>()));
    }
    let req = match jget(top, "request") {
        Some(J::Obj(o)) => o,
        _ => {
            v.add("body-shape", "request-not-object", "no request object".into());
            return (v, expected_of(None, None));
        }
    };
    // scalar members
    let scalars: [(&str, J); 5] = [
        ("protocol", J::Str("3.0".into())),
        ("updater", J::Str(case.updater_name.clone())),
        ("updaterversion", J::Str(ver4(&case.updater_ver))),
        ("installsource", J::Str(if case.on_demand { "ondemand" } else { "scheduledtask" }.into())),
        ("ismachine", J::Bool(true)),
    ];
    for (k, want) in &scalars {
        match jget(req, k) {
            Some(j) if j == want => {}
            Some(j) => v.add("body-shape", &format!("field {}", k), format!("{} = {} expected {}", k, short(j), short(want))),
            None => v.add("body-shape", &format!("field {} missing", k), format!("{} absent", k)),
        }
    }
    let os_want = J::Obj(vec![
        ("platform".into(), J::Str(case.os[0].clone())),
        ("version".into(), J::Str(case.os[1].clone())),
        ("sp".into(), J::Str(case.os[2].clone())),
        ("arch".into(), J::Str(case.os[3].clone())),
    ]);
    match jget(req, "os") {
        Some(j) if j_to_value(j) == j_to_value(&os_want) => {}
        Some(j) => v.add("body-shape", "field os", format!("os = {} expected {}", short(j), short(&os_want))),
        None => v.add("body-shape", "field os missing", "os absent".into()),
    }
    let allowed = ["protocol", "updater", "updaterversion", "installsource", "ismachine", "requestid", "sessionid", "os", "app"];
    for (k, j) in req {
        if !allowed.contains(&k.as_str()) {
            v.add("body-shape", "request-keys", format!("unexpected request member {:?} = {}", k, short(j)));
        }
    }
    check_ids(m, req, r, &mut v);

    // app array
    r.hit("app-order-first-insertion");
    let mut per_app_ok = false;
    match jget(req, "app") {
        None => v.add("app-order-first-insertion", "app-missing", "request.app absent".into()),
        Some(J::Arr(apps)) => {
            let got: Vec<Option<&str>> = apps
                .iter()
                .map(|a| match a {
                    J::Obj(o) => match jget(o, "appid") {
                        Some(J::Str(s)) => Some(s.as_str()),
                        _ => None,
                    },
                    _ => None,
                })
                .collect();
            let want: Vec<&str> = m.apps.iter().map(|s| s.first.id.as_str()).collect();
            if got.iter().any(|g| g.is_none()) {
                v.add("app-order-first-insertion", "appid-not-string", "an app object without a string appid".into());
            } else {
                let got: Vec<&str> = got.into_iter().flatten().collect();
                if got == want {
                    per_app_ok = true;
                } else if got.len() != want.len() {
                    let uniq: BTreeSet<&str> = got.iter().copied().collect();
                    let disc = if uniq.len() < got.len() { "repeated-app" } else { "count" };
                    v.add("app-order-first-insertion", disc, format!("appids {:?} expected {:?}", got, want));
                } else {
                    let mut a = got.clone();
                    let mut b2 = want.clone();
                    a.sort();
                    b2.sort();
                    let disc = if a == b2 { "order" } else { "appid" };
                    v.add("app-order-first-insertion", disc, format!("appids {:?} expected {:?}", got, want));
                }
            }
            if per_app_ok {
                for (st, aj) in m.apps.iter().zip(apps.iter()) {
                    if let J::Obj(o) = aj {
                        check_app(case, st, o, r, &mut v);
                    }
                }
            }
        }
        Some(j) => v.add("app-order-first-insertion", "not-array", format!("request.app is a {}", jkind(j))),
    }

    // catch-all: whole-value comparison with the reference encoder's output
    let obs_id = |name: &str, set: &Option<Option<String>>| -> Option<String> {
        match set {
            None => None,
            Some(Some(u)) => Some(format!("{{{}}}", u)),
            // the harness could not read the uuid back: accept the observed text (format judged above)
            Some(None) => match jget(req, name) {
                Some(J::Str(s)) => Some(s.clone()),
                _ => Some("<set>".into()),
            },
        }
    };
    let expected = expected_of(obs_id("requestid", &m.reqid), obs_id("sessionid", &m.sessid));
    let actual = j_to_value(&parsed);
    if expected != actual && v.v.is_empty() {
        let d = first_diff("", &expected, &actual).unwrap_or_else(|| "value".into());
        v.add("body-shape", &format!("value-diff {}", d), format!("body differs from the reference encoder at {}", d));
    }
    (v, expected)
}

// ---------------------------------------------------------------------------------------------
// Driving the library

type LibResult = Result<Built, String>;

fn do_build(b: &RequestBuilder<'_>) -> LibResult {
    match b.build(None::<&StandardCupv2Handler>) {
        Err(e) => Err(format!("{:?}", e)),
        Ok((req, md)) => {
            let (parts, body) = req.into_parts();
            let bytes = futures::executor::block_on(hyper::body::to_bytes(body))
                .map_err(|e| format!("body error {:?}", e))?;
            let mut headers = vec![];
            for (k, val) in parts.headers.iter() {
                headers.push((k.as_str().to_ascii_lowercase(), val.as_bytes().to_vec()));
            }
            Ok(Built {
                method: parts.method.as_str().to_string(),
                uri: parts.uri.to_string(),
                headers,
                body: bytes.to_vec(),
                metadata_some: md.is_some(),
            })
        }
    }
}

fn shape(case: &Case, m: &Model, outcome: u64) -> (u64, bool) {
    let mut f = Fnv::new();
    f.u64(case.kind as u64);
    f.u64(case.on_demand as u64);
    let flags = case.proxies as u64 | (case.disable as u64) << 1 | (case.same_version as u64) << 2;
    f.u64(flags);
    f.u64(m.apps.len() as u64);
    let mut repeated = false;
    let mut events = false;
    for s in &m.apps {
        let evb = match s.events.len() {
            0 => 0u64,
            1 => 1,
            2 | 3 => 2,
            _ => 3,
        };
        events |= evb > 0;
        repeated |= !s.later.is_empty();
        let rep_cohort = s.later.iter().any(|l| l.cohort != s.first.cohort) as u64;
        let cmask = s.first.cohort.iter().enumerate().fold(0u64, |a, (i, c)| a | (c.is_some() as u64) << i);
        let day = match s.first.day {
            None => 0u64,
            Some(0) => 1,
            Some(u32::MAX) => 2,
            Some(_) => 3,
        };
        let ex = s.first.extras.len().min(2) as u64;
        f.u64(s.uc as u64 | (s.ping as u64) << 1 | evb << 2 | rep_cohort << 4 | cmask << 5 | day << 8 | ex << 10 | (s.first.fp.is_some() as u64) << 12);
    }
    f.u64(case.esc);
    f.u64(case.url.class);
    f.u64(m.reqid.is_some() as u64 | (m.sessid.is_some() as u64) << 1);
    f.u64((m.builds_before > 0) as u64);
    f.u64(outcome);
    let nontrivial = repeated
        || flags != 0
        || events
        || case.esc != 0
        || m.apps.len() >= 2
        || case.kind != Kind::Main;
    (f.finish(), nontrivial)
}

fn replay_json(seed: u64, shard: u64, idx: u64, case: &Case) -> Value {
    json!({"seed": seed, "shard": shard, "case": idx, "description": case.to_json()})
}

fn report_all(r: &mut Report, v: Viols, at_op: usize, replay: &Value) {
    for (rule, sig, detail) in v.v {
        r.violation(&rule, &sig, format!("{} (judged at op #{})", detail, at_op), replay.clone());
    }
}

/// Runs one generated case; returns the number of `build` calls made.
fn run_case(seed: u64, shard: u64, idx: u64, r: &mut Report, verbose: bool) -> u64 {
    let case = gen_case(seed, shard, idx);
    let replay = replay_json(seed, shard, idx, &case);
    r.count("cases", 1);
    r.count(&format!("cases_{:?}", case.kind), 1);

    let config = Config {
        updater: Updater {
            name: case.updater_name.clone(),
            version: match case.updater_ver.len() {
                1 => Version::from([case.updater_ver[0]]),
                2 => Version::from([case.updater_ver[0], case.updater_ver[1]]),
                3 => Version::from([case.updater_ver[0], case.updater_ver[1], case.updater_ver[2]]),
                _ => Version::from([case.updater_ver[0], case.updater_ver[1], case.updater_ver[2], case.updater_ver[3]]),
            },
        },
        os: OS {
            platform: case.os[0].clone(),
            version: case.os[1].clone(),
            service_pack: case.os[2].clone(),
            arch: case.os[3].clone(),
        },
        service_url: case.url.text.clone(),
        omaha_public_keys: None,
    };
    let params = RequestParams {
        source: if case.on_demand { InstallSource::OnDemand } else { InstallSource::ScheduledTask },
        use_configured_proxies: case.proxies,
        disable_updates: case.disable,
        offer_update_if_same_version: case.same_version,
    };
    let panic_rule = match case.kind {
        Kind::BadUrl => "bad-url-no-panic",
        Kind::HostileHeader => "headers",
        Kind::CollidingExtras => "extras-verbatim",
        Kind::Main => "body-shape",
    };

    let mut model = Model::default();
    let mut builds = 0u64;
    let mut builder = match guard(|| RequestBuilder::new(&config, &params)) {
        Ok(b) => Some(b),
        Err(p) => {
            r.violation(panic_rule, &format!("panic@{}", p.site()), format!("RequestBuilder::new panicked: {} at {}", p.msg, p.loc), replay.clone());
            None
        }
    };

    for (opi, op) in case.ops.iter().enumerate() {
        let b = match builder.take() {
            Some(b) => b,
            None => break,
        };
        let next = match op {
            Op::Uc(a) => {
                model.entry(a).uc = true;
                let app = a.to_lib();
                guard(move || b.add_update_check(&app))
            }
            Op::Ping(a) => {
                model.entry(a).ping = true;
                let app = a.to_lib();
                guard(move || b.add_ping(&app))
            }
            Op::Event(a, e) => {
                model.entry(a).events.push(e.clone());
                let app = a.to_lib();
                let ev = e.to_lib();
                guard(move || b.add_event(&app, ev))
            }
            Op::ReqId => {
                let g = GUID::new();
                model.reqid = Some(guid_debug_text(&g));
                guard(move || b.request_id(g))
            }
            Op::SessId => {
                let g = GUID::new();
                model.sessid = Some(guid_debug_text(&g));
                guard(move || b.session_id(g))
            }
            Op::Build => {
                builds += 2;
                let first = guard(|| do_build(&b));
                let second = guard(|| do_build(&b));
                judge_point(&case, &model, first, second, opi, r, &replay, panic_rule, verbose);
                model.builds_before += 1;
                Ok(b)
            }
        };
        match next {
            Ok(b) => builder = Some(b),
            Err(p) => {
                r.violation(panic_rule, &format!("panic@{}", p.site()), format!("builder call #{} panicked: {} at {}", opi, p.msg, p.loc), replay.clone());
            }
        }
    }
    builds
}

#[allow(clippy::too_many_arguments)]
fn judge_point(
    case: &Case,
    model: &Model,
    first: Result<LibResult, crate::common::PanicInfo>,
    second: Result<LibResult, crate::common::PanicInfo>,
    opi: usize,
    r: &mut Report,
    replay: &Value,
    panic_rule: &str,
    verbose: bool,
) {
    r.count("builds", 2);
    let mut results = vec![];
    for res in [first, second] {
        match res {
            Err(p) => {
                if case.kind == Kind::BadUrl {
                    r.hit("bad-url-no-panic");
                }
                r.violation(panic_rule, &format!("panic@{}", p.site()), format!("build panicked: {} at {}", p.msg, p.loc), replay.clone());
                let (sh, _) = shape(case, model, 9);
                r.eval(sh, true);
                return;
            }
            Ok(x) => results.push(x),
        }
    }
    let second = results.pop().unwrap();
    let first = results.pop().unwrap();

    // build-twice: identical outcome, method, URI, headers and body bytes
    r.hit("build-twice");
    let mut v2 = Viols { v: vec![] };
    match (&first, &second) {
        (Ok(a), Ok(b)) => {
            if a.method != b.method {
                v2.add("build-twice", "second-differs-method", format!("{} vs {}", a.method, b.method));
            }
            if a.uri != b.uri {
                v2.add("build-twice", "second-differs-uri", format!("{} vs {}", a.uri, b.uri));
            }
            let mut ha = a.headers.clone();
            let mut hb = b.headers.clone();
            ha.sort();
            hb.sort();
            if ha != hb {
                v2.add("build-twice", "second-differs-headers", "header sets of two builds differ".into());
            }
            if a.body != b.body {
                v2.add("build-twice", "second-differs-body", format!("first {} second {}", show_bytes(&a.body), show_bytes(&b.body)));
            }
        }
        (Err(_), Err(_)) => {}
        (Ok(_), Err(e)) => v2.add("build-twice", "second-err", format!("second build failed: {}", e)),
        (Err(e), Ok(_)) => v2.add("build-twice", "first-err-second-ok", format!("first build failed: {}", e)),
    }
    report_all(r, v2, opi, replay);

    // Which outcome does the statement fix?
    let classifier: Option<Result<String, ()>> = match case.kind {
        // trusted `http` crate decides whether the text is a URI at all
        Kind::BadUrl => Some(case.url.text.parse::<http::Uri>().map(|u| u.to_string()).map_err(|_| ())),
        _ => None,
    };
    let first_id_legal = model.apps.first().map(|s| header_legal(&s.first.id)).unwrap_or(true);
    let headers_legal = header_legal(&case.updater_name) && first_id_legal;

    let outcome_code: u64;
    match (&first, case.kind) {
        (_, Kind::CollidingExtras) => {
            // don't-care beyond "no panic" (which the guards above established) — except where nothing collides
            // after all: an extra named like a protocol attribute the app does not have (fp / cohort fields
            // unset) is simply one more extra field and must be sent verbatim
            r.hit("extras-verbatim");
            r.count("colliding_extras_no_panic", 1);
            if let Ok(b) = &first {
                if let Ok(doc) = serde_json::from_slice::<Value>(&b.body) {
                    let apps_json = doc.get("request").and_then(|x| x.get("app")).and_then(|x| x.as_array()).cloned().unwrap_or_default();
                    for s_app in &model.apps {
                        for (k, val) in &s_app.first.extras {
                            let attribute_absent = match k.as_str() {
                                "fp" => s_app.first.fp.is_none(),
                                "cohort" => s_app.first.cohort[0].is_none(),
                                "cohorthint" => s_app.first.cohort[1].is_none(),
                                "cohortname" => s_app.first.cohort[2].is_none(),
                                _ => false,
                            };
                            if !attribute_absent {
                                continue;
                            }
                            let objs: Vec<&Value> = apps_json.iter().filter(|o| o.get("appid").and_then(|x| x.as_str()) == Some(s_app.first.id.as_str())).collect();
                            if objs.len() != 1 {
                                continue;
                            }
                            r.count("colliding_extras_absent_attribute_judged", 1);
                            if objs[0].get(k.as_str()) != Some(&Value::String(val.clone())) {
                                r.violation(
                                    "extras-verbatim",
                                    "extras-verbatim named-like-absent-attribute",
                                    format!("app {:?} has no {} of its own and an extra field {:?} = {:?}; the request carries {:?}", s_app.first.id, k, k, val, objs[0].get(k.as_str())),
                                    replay.clone(),
                                );
                            }
                        }
                    }
                }
            }
            outcome_code = if first.is_ok() { 1 } else { 2 };
        }
        (Err(e), Kind::BadUrl) => {
            r.hit("bad-url-no-panic");
            outcome_code = 2;
            if let Some(Ok(u)) = &classifier {
                r.violation("bad-url-no-panic", "bad-url-no-panic err-on-accepted-uri", format!("http::Uri accepts {:?} (as {:?}) but build failed: {}", case.url.text, u, e), replay.clone());
            } else {
                r.count("bad_url_err", 1);
            }
        }
        (Ok(b), Kind::BadUrl) => {
            r.hit("bad-url-no-panic");
            outcome_code = 1;
            match &classifier {
                Some(Ok(u)) => {
                    r.count("bad_url_workload_accepted_by_http", 1);
                    let (v, _) = judge(case, model, u, b, r);
                    report_all(r, v, opi, replay);
                }
                _ => r.violation("bad-url-no-panic", "bad-url-no-panic ok-on-rejected-url", format!("http::Uri rejects {:?} but build returned a request with uri {:?}", case.url.text, b.uri), replay.clone()),
            }
        }
        (Err(e), _) => {
            outcome_code = 2;
            if headers_legal {
                r.hit("body-shape");
                r.violation("body-shape", "body-shape build-err", format!("build failed on a well-formed case: {}", e), replay.clone());
            } else {
                // header-illegal updater name / first app id: an error is the expected outcome
                r.hit("headers");
                r.count("hostile_header_err", 1);
            }
        }
        (Ok(b), _) => {
            outcome_code = 1;
            if !headers_legal {
                r.count("hostile_header_ok", 1);
            }
            let (v, expected) = judge(case, model, &case.url.expected, b, r);
            let clean = v.v.is_empty();
            report_all(r, v, opi, replay);
            let (_, nontrivial) = shape(case, model, 1);
            if (clean && nontrivial && r.want_sample() && model.apps.len() >= 2) || verbose {
                r.sample(json!({
                    "input": case.to_json(),
                    "judged_at_op": opi,
                    "observed": {"method": b.method, "uri": b.uri,
                        "headers": b.headers.iter().map(|(k, val)| json!([k, String::from_utf8_lossy(val)])).collect::<Vec<_>>(),
                        "body": show_bytes(&b.body)},
                    "expected_body": expected,
                    "second_build_identical": true,
                }));
            }
        }
    }
    let (sh, nontrivial) = shape(case, model, outcome_code);
    r.eval(sh, nontrivial);
}

pub fn run(args: &Args, r: &mut Report) {
    r.rule_text = "Each case is generated from (seed, shard, case index): a Config (visible-ASCII updater name incl. \
        JSON-escape-needing characters, boundary-u32 version of arity 1..4, OS strings with escapes / controls / non-ASCII), \
        a service URL from a grammar {http,https} x {dns, IPv4, [IPv6], random host} x port? x path depth 0..4 x 0..3 query pairs \
        x trailing '?', RequestParams cycling deterministically through all 8 flag combinations x 2 sources, and a call sequence of \
        1..12 add_update_check/add_ping/add_event calls over 1..5 apps with repeated ids (incl. near-duplicate ids) whose later App values differ \
        (cohort, version, fingerprint, user counting, extras), events over every type/result/error code with optional fields \
        (download_time_ms 0, 2^53+1, 2^63, u64::MAX), request_id/session_id calls, and `build` points (each = two builds) before, \
        between and after the additions. Every build is judged against a hand-written reference encoder after a duplicate-key-rejecting \
        parse. Sub-workloads (case index mod 16): 7,15 = URLs that are not URIs (only Err-and-no-panic, classification by http::Uri itself); \
        5 = header-illegal updater name / first app id (Err accepted, Ok fully judged); 13 = extra-field keys colliding with protocol names \
        (no panic only). Distinct = shape key (workload, source, flags, #apps, per app: updatecheck/ping/events bucket, repeated id with \
        different cohort, cohort fields set, day class, extras bucket, fp; escape classes; URL class; ids set; built-before; outcome). \
        Non-trivial = repeated id, or any flag true, or events present, or strings needing escapes / non-ASCII, or >= 2 apps, or a hostile sub-workload."
        .into();
    r.require(&RULES);
    r.assume("http / hyper types are trusted: header map iteration, Uri rendering, Method, and http::Uri's own accept/reject decision classifies the bad-URL workload");
    r.assume("serde_json::Value is used only to hold and compare the expected value and for report output; the duplicate-key check and the parse of the observed body use the harness' own recursive-descent parser");
    r.assume("GUID values are random (uuid v4) and not replayable; the value set is read back through the GUID's Debug rendering, independent of its Serialize impl");
    r.assume("installsource strings are the Omaha names documented in protocol/request.rs: ondemand / scheduledtask");

    if let Some(path) = &args.replay {
        let txt = std::fs::read_to_string(path).unwrap_or_default();
        let doc: Value = serde_json::from_str(&txt).unwrap_or(Value::Null);
        let rp = doc.get("replay").cloned().unwrap_or(doc.clone());
        let g = |k: &str| rp.get(k).and_then(|x| x.as_u64());
        match (g("seed"), g("shard"), g("case")) {
            (Some(seed), Some(shard), Some(idx)) => {
                r.max_samples = 1;
                let n = run_case(seed, shard, idx, r, true);
                r.notes.push(format!("replayed case seed={} shard={} case={} ({} builds)", seed, shard, idx, n));
            }
            _ => r.inconclusive.push(format!("replay file {} has no seed/shard/case", path)),
        }
        return;
    }

    let budget = if args.layer == "miri" { 40 } else { args.budget(30_000, 1_000_000) };
    let mut builds = 0u64;
    let mut idx = 0u64;
    if args.layer == "miri" {
        // make sure the tiny budget reaches the bad-URL sub-workload in every shard
        builds += run_case(args.seed, args.shard, 7, r, false);
    }
    while builds < budget {
        if args.layer == "miri" && idx == 7 {
            idx += 1;
        }
        builds += run_case(args.seed, args.shard, idx, r, false);
        idx += 1;
        // a shard always runs whole groups of 16 case indices so that every sub-workload and every
        // flag combination is reached regardless of the budget
        if builds >= budget && idx % 16 != 0 && args.layer != "miri" {
            continue_group(args, r, &mut idx, &mut builds);
        }
    }
}

fn continue_group(args: &Args, r: &mut Report, idx: &mut u64, builds: &mut u64) {
    while *idx % 16 != 0 {
        *builds += run_case(args.seed, args.shard, *idx, r, false);
        *idx += 1;
    }
}
