//! Scenario generators and the generic case runner shared by the flow properties.

use crate::common::{Args, PanicInfo, Report, Rng};
use crate::model::flow::{analyze_multi, Flow};
use crate::props::monitors::Mon;
use crate::sim::driver::*;
use crate::sim::omaha::ServerKeys;
use crate::sim::world::*;
use serde_json::{json, Value};
use std::collections::BTreeMap;

pub const APP_IDS: [&str; 4] = ["{app-a}", "{app-b}", "{app-c}", "{app-d}"];

#[derive(Clone, Debug)]
pub struct FlowCase {
    pub setup: Setup,
    pub script: Script,
    pub preload: BTreeMap<String, Val>,
    pub fault: FaultPlan,
    pub key_ids: Vec<u64>,
    pub key_seed: u64,
    /// start mode: stop after this many Idle events
    pub stop_idle: usize,
    pub sched: Sched,
    pub shape: Vec<String>,
    pub nontrivial: bool,
    pub crash_at: Option<u64>,
    pub max_steps: u64,
    /// Wall clock at the start of the run (None: the default, late 2023).
    pub start_wall_ns: Option<i128>,
    /// 0 = no embedder task; n = started with chance 1/n per scheduling step (see Driver::embedder_rate).
    pub embedder_rate: u64,
    /// Downtime before a restart (run_case_restart): both clocks advance by this much.
    pub restart_gap_ns: i128,
    /// Drop every control handle after this many scheduling rounds (an embedder that never asks for checks).
    pub drop_handles_after: Option<u64>,
    /// see Driver::ctl_on_emission (honoured by run_hostile)
    pub ctl_on_emission: Vec<(usize, bool)>,
    /// run_hostile: prefer sending an on-demand request while a reboot_allowed answer is pending
    pub ctl_at_reboot_question: bool,
}

impl FlowCase {
    pub fn new(setup: Setup, script: Script) -> Self {
        FlowCase {
            setup,
            script,
            preload: BTreeMap::new(),
            fault: FaultPlan::default(),
            key_ids: vec![11, 7],
            key_seed: 0x5eed,
            stop_idle: 1,
            sched: Sched::Fifo,
            shape: vec![],
            nontrivial: false,
            crash_at: None,
            max_steps: 5_000,
            start_wall_ns: None,
            embedder_rate: 0,
            restart_gap_ns: 0,
            drop_handles_after: None,
            ctl_on_emission: vec![],
            ctl_at_reboot_question: false,
        }
    }
    pub fn shape_key(&self) -> u64 {
        let parts: Vec<&str> = self.shape.iter().map(|s| s.as_str()).collect();
        crate::common::shape_of(&parts)
    }
}

pub struct CaseRun {
    pub w: W,
    pub end: RunEnd,
    pub flow: Flow,
    pub lost_wakes: Vec<String>,
    pub panicked: Option<PanicInfo>,
    pub steps: u64,
    pub sig: u64,
    pub interactions: u64,
    /// interactions performed by the first incarnation (before any restart)
    pub interactions_first: u64,
}

pub fn make_world(case: &FlowCase) -> W {
    let w = World::new(case.script.clone());
    {
        let mut g = lock(&w);
        g.storage.committed = case.preload.clone();
        g.storage.history.push(case.preload.clone());
        g.storage.fault = case.fault.clone();
        if case.setup.cup {
            let mut krng = Rng::new(case.key_seed);
            g.cup = Some(ServerKeys::generate(&mut krng, &case.key_ids));
        }
        g.crash_at = case.crash_at;
        if let Some(t) = case.start_wall_ns {
            g.wall_ns = t;
        }
    }
    w
}

pub fn run_case(case: &FlowCase, rng: &mut Rng) -> CaseRun {
    let w = make_world(case);
    let mut d = Driver::new(&w, &case.setup);
    d.max_steps = case.max_steps;
    d.embedder_rate = case.embedder_rate;
    d.drop_handles_after = case.drop_handles_after;
    let stop_idle = case.stop_idle;
    let end = d.run(case.sched, rng, |d| d.count_state(&StateSnap::Idle) >= stop_idle);
    finish_run(case, w, d, end)
}

pub fn finish_run(case: &FlowCase, w: W, d: Driver, end: RunEnd) -> CaseRun {
    finish_run_multi(case, std::slice::from_ref(&case.setup), w, d, end)
}

pub fn finish_run_multi(case: &FlowCase, setups: &[Setup], w: W, d: Driver, end: RunEnd) -> CaseRun {
    let flow = {
        let g = lock(&w);
        analyze_multi(&g.log, setups, &case.preload)
    };
    let interactions = lock(&w).interactions;
    lock(&w).push(Ev::Note(format!("run-end:{:?}", end)));
    CaseRun {
        w,
        end,
        flow,
        lost_wakes: d.lost_wakes.clone(),
        panicked: d.panicked.clone(),
        steps: d.steps,
        sig: d.sig.finish(),
        interactions,
        interactions_first: interactions,
    }
}

/// Transfer a monitor's findings into the shard report, attaching the replay descriptor and
/// the tail of the log as the witness.
pub fn absorb(r: &mut Report, args: &Args, case_idx: u64, m: Mon, w: &W, extra: Value) {
    let mut m = m;
    {
        // whatever the property: the machine and an embedder task that takes the shared locks in the library's
        // own order (storage, then app set) must never end up waiting for each other
        let g = lock(w);
        if let Some(b) = g.log.iter().find(|x| matches!(x.ev, Ev::ObserverBlocked { on: "deadlock-with-embedder" })) {
            let seq = b.seq;
            m.judge("flow-completes-with-embedder-task", false, "", || format!("machine and embedder task wait for each other's lock with nothing else pending (seq {})", seq));
        } else if g.log.iter().any(|x| matches!(x.ev, Ev::EmbedderTouched)) {
            m.hit("flow-completes-with-embedder-task");
        }
        // bounded progress in scheduler steps (never wall-clock): a run that is neither finished, stopped by the
        // harness nor crashed, yet has nothing left to release (or burnt its step budget), hangs
        let stuck = g.log.iter().rev().find_map(|x| match &x.ev {
            Ev::Note(s) if s == "run-end:Blocked" || s == "run-end:OutOfSteps" => Some(s.clone()),
            _ => None,
        });
        if let Some(how) = stuck {
            let last = g.log.iter().rev().find(|x| matches!(x.ev, Ev::Taken(_))).map(|x| format!("{:?}", x.ev)).unwrap_or_default();
            m.judge("flow-makes-progress", false, &how, || format!("{}: the machine neither finished nor waits on anything the environment could complete; last event taken: {}", how, last.chars().take(120).collect::<String>()));
        } else {
            m.hit("flow-makes-progress");
        }
    }
    for (k, v) in m.hits {
        r.hits(&k, v);
    }
    if !m.viols.is_empty() {
        let log = dump_log(w, if args.only_case.is_some() { 3000 } else { 120 });
        for (rule, sig, detail) in m.viols {
            let mut rp = args.case_replay(case_idx);
            rp["log_tail"] = json!(log);
            rp["case_desc"] = extra.clone();
            r.violation(&rule, &sig, detail, rp);
        }
    }
}

pub fn report_panic(r: &mut Report, args: &Args, case_idx: u64, p: &PanicInfo, w: &W, extra: Value) {
    let mut rp = args.case_replay(case_idx);
    rp["log_tail"] = json!(dump_log(w, 60));
    rp["case_desc"] = extra;
    r.violation("no-panic", &p.sig(), format!("panic: {} at {}", p.msg, p.loc), rp);
}

// ---------------------------------------------------------------------------------------------
// primitive generators

pub fn gen_apps(rng: &mut Rng, n: usize) -> Vec<AppSpec> {
    let apps = (0..n)
        .map(|i| {
            let mut a = AppSpec::new(APP_IDS[i], [1 + rng.below(3) as u32, rng.below(10) as u32, rng.below(100) as u32, rng.below(5) as u32]);
            if rng.chance(1, 3) {
                a.cohort[0] = Some(format!("co{}", rng.below(9)));
            }
            if rng.chance(1, 4) {
                a.cohort[1] = Some(format!("hint{}", rng.below(9)));
            }
            if rng.chance(1, 4) {
                a.cohort[2] = Some(format!("name{}", rng.below(9)));
            }
            if rng.chance(1, 3) {
                a.day = Some(4000 + rng.below(999) as u32);
            }
            if rng.chance(1, 3) {
                // embedder-defined attributes: several, so that any order-dependence in serialisation shows
                let n = 2 + rng.usize(5);
                a.extra = (0..n).map(|k| (format!("x-attr{}", k), if rng.chance(1, 5) { String::new() } else { format!("v{}", rng.below(1000)) })).collect();
            }
            a
        })
        .collect::<Vec<_>>();
    let mut apps = apps;
    // products released in lock-step share their installed version
    if apps.len() >= 2 && rng.chance(1, 6) {
        let v = apps[0].version;
        for a in apps.iter_mut() {
            a.version = v;
        }
    }
    // now and then two apps whose ids differ only in letter case (distinct products for the library)
    if apps.len() >= 2 && rng.chance(1, 8) {
        apps[1].id = apps[0].id.to_uppercase();
    } else if apps.len() >= 2 && rng.chance(1, 10) {
        // one id a strict prefix of another
        apps[1].id = format!("{}x", apps[0].id);
    } else if apps.len() >= 2 && rng.chance(1, 20) {
        // an id that is fine in a JSON body but cannot be put into an HTTP header (never the first app: the
        // update check itself stays buildable)
        let k = 1 + rng.usize(apps.len() - 1);
        apps[k].id = format!("{}\n", apps[k].id);
    }
    apps
}

pub fn gen_cohort_field(rng: &mut Rng) -> Option<String> {
    match rng.below(16) {
        0..=7 => None,
        8..=11 => Some(String::new()),
        // values the server is free to hand out: longer than 1024 bytes, non-ASCII, control characters
        12 => Some(match rng.below(5) {
            0 => format!("srv-{}", "x".repeat(1021 + rng.usize(8))),
            1 => "b\u{ea}ta".to_string(),
            2 => "tab\there".to_string(),
            3 => "\u{4e2d}\u{6587}-channel".to_string(),
            _ => format!("{}\u{e9}", "y".repeat(1023)),
        }),
        _ => Some(format!("srv{}", rng.below(50))),
    }
}

#[derive(Clone, Copy, Debug, PartialEq)]
pub enum AppKind {
    Offer,
    OfferNoVersion,
    NoUpdate,
    Restricted,
    ErrorStatus,
    NoUpdateCheck,
}

pub fn doc_app(id: &str, kind: AppKind, rng: &mut Rng, cohorts: bool) -> DocApp {
    let uc = match kind {
        AppKind::Offer => {
            let mut u = UcSpec::ok(Some(&format!("9.{}.{}.0", rng.below(50), rng.below(50))));
            // the manifest version is an opaque string for the client: not always a dotted quad of numbers
            if rng.chance(1, 10) {
                u.manifest_version = Some(rng.pick(&["9.1.2.3-rc2", "2024.10.stable", "v9", "9.1", "9.1.2.3.4", ""]).to_string());
            }
            // url / package lists with 0, 1 or several entries (equal entries included)
            if rng.chance(1, 4) {
                u.codebases = (0..rng.usize(4)).map(|k| format!("http://pkg{}.example/", k % 2)).collect();
                u.packages = (0..rng.usize(4)).map(|k| format!("pkg{}", k % 2)).collect();
            }
            Some(u)
        }
        AppKind::OfferNoVersion => Some(UcSpec::ok(None)),
        AppKind::NoUpdate => Some(UcSpec::status("noupdate")),
        AppKind::Restricted => Some(UcSpec::status("restricted")),
        AppKind::ErrorStatus => Some(UcSpec::status("error-osnotsupported")),
        AppKind::NoUpdateCheck => None,
    };
    DocApp {
        id: id.to_string(),
        // (an offer is an offer whatever the app-level status says)
        status: if kind == AppKind::ErrorStatus && rng.bool() {
            "error-unknownApplication".into()
        } else if matches!(kind, AppKind::Offer | AppKind::NoUpdate) && rng.chance(1, 12) {
            rng.pick(&["restricted", "error-somethingElse"]).to_string()
        } else {
            "ok".into()
        },
        cohort: if cohorts { [gen_cohort_field(rng), gen_cohort_field(rng), gen_cohort_field(rng)] } else { [None, None, None] },
        updatecheck: uc,
    }
}

pub fn gen_daystart(rng: &mut Rng) -> Option<Option<u32>> {
    match rng.below(4) {
        0 => None,
        1 => Some(None),
        _ => Some(Some(5000 + rng.below(500) as u32)),
    }
}

/// A response document over a subset / permutation of the known apps plus maybe unknown ids.
pub fn gen_doc(rng: &mut Rng, apps: &[AppSpec], want_offer: Option<bool>, cohorts: bool) -> (DocSpec, String) {
    let kinds = [AppKind::Offer, AppKind::OfferNoVersion, AppKind::NoUpdate, AppKind::Restricted, AppKind::ErrorStatus, AppKind::NoUpdateCheck];
    let mut ids: Vec<String> = apps.iter().map(|a| a.id.clone()).collect();
    rng.shuffle(&mut ids);
    // drop some apps from the response now and then
    if ids.len() > 1 && rng.chance(1, 4) {
        ids.truncate(ids.len() - 1);
    }
    if rng.chance(1, 5) {
        let pos = rng.usize(ids.len() + 1);
        ids.insert(pos, format!("{{unknown-{}}}", rng.below(3)));
    }
    let mut out = vec![];
    let mut label = String::new();
    for id in &ids {
        let mut k = *rng.pick(&kinds);
        match want_offer {
            Some(false) => {
                if matches!(k, AppKind::Offer | AppKind::OfferNoVersion) {
                    k = AppKind::NoUpdate;
                }
            }
            _ => {}
        }
        out.push((id.clone(), k));
    }
    if want_offer != Some(false) && rng.chance(1, 15) {
        // the only offer is for an app the client does not have
        for x in out.iter_mut() {
            if matches!(x.1, AppKind::Offer | AppKind::OfferNoVersion) {
                x.1 = AppKind::NoUpdate;
            }
        }
        let pos = rng.usize(out.len() + 1);
        out.insert(pos, (format!("{{unknown-{}}}", 3 + rng.below(3)), AppKind::Offer));
    }
    if want_offer == Some(true) && !out.iter().any(|x| matches!(x.1, AppKind::Offer | AppKind::OfferNoVersion)) {
        let i = rng.usize(out.len());
        out[i].1 = if rng.chance(1, 4) { AppKind::OfferNoVersion } else { AppKind::Offer };
    }
    let apps_out: Vec<DocApp> = out
        .iter()
        .map(|(id, k)| {
            label.push(match k {
                AppKind::Offer => 'O',
                AppKind::OfferNoVersion => 'o',
                AppKind::NoUpdate => 'n',
                AppKind::Restricted => 'r',
                AppKind::ErrorStatus => 'e',
                AppKind::NoUpdateCheck => '-',
            });
            if id.starts_with("{unknown") {
                label.push('?');
            }
            let mut da = doc_app(id, *k, rng, cohorts);
            // value relations: the offered version equals the installed one; a cohort equals the app id
            if let (Some(uc), Some(app)) = (da.updatecheck.as_mut(), apps.iter().find(|a| a.id == *id)) {
                if uc.manifest_version.is_some() && rng.chance(1, 8) {
                    uc.manifest_version = Some(app.version_string());
                }
            }
            if cohorts && rng.chance(1, 12) {
                da.cohort[rng.usize(3)] = Some(id.clone());
            }
            da
        })
        .collect();
    let wrap = if rng.chance(1, 6) { 1 + rng.below(3) as u8 } else { 0 };
    let mut apps_out = apps_out;
    // apps released in lock-step: every offer carries the same version
    if rng.chance(1, 8) {
        let v = apps_out.iter().find_map(|a| a.updatecheck.as_ref().and_then(|u| u.manifest_version.clone()));
        if let Some(v) = v {
            for a in apps_out.iter_mut() {
                if let Some(u) = a.updatecheck.as_mut() {
                    if u.manifest_version.is_some() {
                        u.manifest_version = Some(v.clone());
                    }
                }
            }
        }
    }
    (DocSpec { daystart: gen_daystart(rng), apps: apps_out, wrap }, label)
}

pub fn n_offered(doc: &DocSpec) -> usize {
    doc.apps.iter().filter(|a| a.updatecheck.as_ref().map(|u| u.status == "ok").unwrap_or(false)).count()
}

pub fn garbage_body(rng: &mut Rng) -> Vec<u8> {
    match rng.below(5) {
        0 => vec![],
        1 => b"<html>502 bad gateway</html>".to_vec(),
        2 => br#"{"response":{"protocol":"3.0","app":[{"appid":"x"}]}}"#.to_vec(), // missing required status
        3 => br#"{"response":{"protocol":"3.0","app":"#.to_vec(),                  // truncated
        _ => {
            let n = 1 + rng.usize(40);
            rng.bytes(n)
        }
    }
}

/// A body that is *almost* a valid Omaha response: a well-formed document with one mandatory attribute
/// removed, or followed by trailing non-whitespace bytes.  Every variant must be a parse failure.
pub fn near_valid_garbage(rng: &mut Rng, apps: &[AppSpec]) -> (Vec<u8>, &'static str) {
    let (mut doc, _) = gen_doc(rng, apps, Some(true), true);
    doc.wrap = 0;
    // make sure the first offered app carries a manifest and urls, so every variant below applies
    let oi = doc.apps.iter().position(|a| a.updatecheck.as_ref().map(|u| u.status == "ok").unwrap_or(false)).unwrap_or(0);
    doc.apps[oi].updatecheck = Some(UcSpec::ok(Some("9.9.9.9")));
    let bytes = crate::sim::omaha::render_doc(&doc);
    let mut v: Value = serde_json::from_slice(&bytes).unwrap();
    let variant = rng.below(12);
    let label: &'static str;
    {
        let resp = v.get_mut("response").unwrap().as_object_mut().unwrap();
        match variant {
            0 | 1 => {
                label = "trailing-bytes";
                let mut out = vec![];
                if rng.chance(1, 3) {
                    out.extend_from_slice(b")]}'\n");
                }
                out.extend_from_slice(&bytes);
                if rng.bool() {
                    out.extend_from_slice(b"\n");
                }
                match rng.below(6) {
                    0 => out.extend_from_slice(b"}"),
                    1 => out.extend_from_slice(b"<html><body>502 Bad Gateway</body></html>"),
                    2 => out.extend_from_slice(b"0"),
                    3 => out.extend_from_slice(b"]"),
                    4 => out.extend_from_slice(&bytes),
                    _ => out.extend_from_slice(b"null"),
                }
                return (out, label);
            }
            2 => {
                label = "no-protocol";
                resp.remove("protocol");
            }
            3 => {
                label = "no-app-array";
                resp.remove("app");
            }
            _ => {
                let n = resp["app"].as_array().unwrap().len();
                let ai = if variant >= 6 { oi } else { rng.usize(n) };
                let app = resp.get_mut("app").unwrap().as_array_mut().unwrap()[ai].as_object_mut().unwrap();
                match variant {
                    4 => {
                        label = "app-no-status";
                        app.remove("status");
                    }
                    5 => {
                        label = "app-no-appid";
                        app.remove("appid");
                    }
                    _ => {
                        let uc = app.get_mut("updatecheck").unwrap().as_object_mut().unwrap();
                        match variant {
                            6 | 7 => {
                                label = "updatecheck-no-status";
                                uc.remove("status");
                                if variant == 7 {
                                    uc.remove("manifest");
                                    uc.remove("urls");
                                }
                            }
                            8 => {
                                label = "manifest-no-version";
                                uc["manifest"].as_object_mut().unwrap().remove("version");
                            }
                            9 => {
                                label = "manifest-no-packages";
                                let m = uc["manifest"].as_object_mut().unwrap();
                                if rng.bool() {
                                    m.remove("packages");
                                } else {
                                    m.remove("actions");
                                }
                            }
                            10 => {
                                label = "url-no-codebase";
                                uc["urls"]["url"][0].as_object_mut().unwrap().remove("codebase");
                            }
                            _ => {
                                label = "package-no-required-field";
                                let pk = uc["manifest"]["packages"]["package"][0].as_object_mut().unwrap();
                                pk.remove(*rng.pick(&["name", "required", "fp"]));
                            }
                        }
                    }
                }
            }
        }
    }
    (serde_json::to_vec(&v).unwrap(), label)
}

/// Transient failure alphabet for attempts before the final one.
pub fn gen_transient(rng: &mut Rng) -> RespSpec {
    match rng.below(5) {
        0 => RespSpec::Transport,
        1 => RespSpec::Timeout,
        2 => RespSpec::Reply(ReplySpec::status(503)),
        3 => RespSpec::Reply(ReplySpec::status(404)),
        _ => RespSpec::Reply(ReplySpec::status(301)),
    }
}

pub fn gen_delivery(rng: &mut Rng, cup: bool) -> RespSpec {
    match rng.below(if cup { 8 } else { 6 }) {
        0 | 1 | 2 => RespSpec::ack(),
        3 => RespSpec::Transport,
        4 => RespSpec::Reply(ReplySpec::status(500)),
        5 => RespSpec::Reply(ReplySpec::status(429).with_retry_after(b"120")),
        6 => RespSpec::Reply(ReplySpec::ok(BodySpec::Ack { daystart: None, cohort: [None, None, None] }).with_etag(EtagSpec::ForeignKey)),
        _ => RespSpec::Reply(ReplySpec::ok(BodySpec::Ack { daystart: None, cohort: [None, None, None] }).with_etag(EtagSpec::Absent)),
    }
}

#[derive(Clone, Copy, Debug, PartialEq)]
pub enum Path {
    FailTransport,
    FailStatus,
    FailUser,
    FailForged,
    ParseError,
    NoUpdate,
    PlanError,
    Deferred,
    Denied,
    Install,
}
pub const ALL_PATHS: [Path; 10] = [
    Path::FailTransport,
    Path::FailStatus,
    Path::FailUser,
    Path::FailForged,
    Path::ParseError,
    Path::NoUpdate,
    Path::PlanError,
    Path::Deferred,
    Path::Denied,
    Path::Install,
];

/// One scripted check following `path`; returns the script and a label for the shape key.
pub fn gen_check(rng: &mut Rng, apps: &[AppSpec], path: Path, cup: bool, cohorts: bool, deliveries: bool) -> (CheckScript, String) {
    let mut cs = CheckScript::default();
    let mut label = format!("{:?}", path);
    let pre = if rng.chance(1, 4) { 1 + rng.usize(2) } else { 0 };
    let mut attempts = vec![];
    match path {
        Path::FailTransport => {
            for _ in 0..3 {
                attempts.push(if rng.bool() { RespSpec::Transport } else { RespSpec::Timeout });
            }
        }
        Path::FailStatus => {
            if rng.bool() {
                attempts.push(RespSpec::Reply(ReplySpec::status(*rng.pick(&[400u16, 403, 500, 503, 302])).with_retry_after(b"3600")));
                label.push_str("+ra");
            } else {
                for _ in 0..3 {
                    attempts.push(RespSpec::Reply(ReplySpec::status(*rng.pick(&[301u16, 400, 404, 500, 502, 302, 304, 307, 102, 199]))));
                }
            }
            // a failure status stays a failure whatever the body says: sometimes it carries a well-formed offer
            if rng.chance(1, 3) {
                for a in attempts.iter_mut() {
                    if let RespSpec::Reply(rep) = a {
                        let (doc, _) = gen_doc(rng, apps, Some(true), false);
                        rep.body = BodySpec::Doc(doc);
                    }
                }
                label.push_str("+body");
            }
        }
        Path::FailUser => {
            for _ in 0..pre {
                attempts.push(gen_transient(rng));
            }
            attempts.push(RespSpec::User);
        }
        Path::FailForged => {
            for _ in 0..pre {
                attempts.push(gen_transient(rng));
            }
            let (doc, _) = gen_doc(rng, apps, Some(true), true);
            let etag = if cup {
                rng.pick(&[EtagSpec::Absent, EtagSpec::FlipSig, EtagSpec::ForeignKey, EtagSpec::WrongKeyId, EtagSpec::OtherBody, EtagSpec::HashOnly, EtagSpec::OtherHeldKey, EtagSpec::Raw(b"W/\"zz\"".to_vec())]).clone()
            } else {
                EtagSpec::Auto
            };
            label.push_str(etag.label());
            let mut rep = ReplySpec::ok(BodySpec::Doc(doc)).with_etag(etag);
            if cup {
                match rng.below(8) {
                    0 => {
                        // an unauthenticated error page that tries to dictate a poll interval
                        rep.status = *rng.pick(&[500u16, 503, 429, 404, 302]);
                        rep.headers.push(("X-Retry-After".into(), b"7200".to_vec()));
                        label.push_str("+status+ra");
                    }
                    1 => {
                        rep.status = *rng.pick(&[500u16, 503, 400]);
                        label.push_str("+status");
                    }
                    2 => {
                        rep.body = BodySpec::Raw(vec![]);
                        rep.headers.push(("X-Retry-After".into(), b"600".to_vec()));
                        label.push_str("+empty+ra");
                    }
                    _ => {}
                }
            }
            attempts.push(RespSpec::Reply(rep));
        }
        Path::ParseError => {
            for _ in 0..pre {
                attempts.push(gen_transient(rng));
            }
            if rng.bool() {
                let (b, l) = near_valid_garbage(rng, apps);
                label.push_str(l);
                attempts.push(RespSpec::Reply(ReplySpec::ok(BodySpec::Raw(b))));
            } else {
                attempts.push(RespSpec::Reply(ReplySpec::ok(BodySpec::Raw(garbage_body(rng)))));
            }
        }
        Path::NoUpdate => {
            for _ in 0..pre {
                attempts.push(gen_transient(rng));
            }
            let (doc, l) = gen_doc(rng, apps, Some(false), cohorts);
            label.push_str(&l);
            attempts.push(RespSpec::Reply(ReplySpec::ok(BodySpec::Doc(doc))));
        }
        Path::PlanError | Path::Deferred | Path::Denied | Path::Install => {
            for _ in 0..pre {
                attempts.push(gen_transient(rng));
            }
            let (doc, l) = gen_doc(rng, apps, Some(true), cohorts);
            label.push_str(&l);
            let k = n_offered(&doc);
            attempts.push(RespSpec::Reply(ReplySpec::ok(BodySpec::Doc(doc))));
            match path {
                Path::PlanError => cs.plan_ok = false,
                Path::Deferred => cs.can_start = UpdDec::Deferred,
                Path::Denied => cs.can_start = UpdDec::Denied,
                _ => {
                    cs.results = (0..k).map(|_| *rng.pick(&[InstRes::Installed, InstRes::Installed, InstRes::Deferred, InstRes::Failed])).collect();
                    cs.progress = (0..rng.usize(5)).map(|i| ((i / 2) as f32 + 1.0) * 0.2).collect();
                    label.push_str(&cs.results.iter().map(|r| match r { InstRes::Installed => 'I', InstRes::Deferred => 'D', InstRes::Failed => 'F' }).collect::<String>());
                    cs.reboot_needed = rng.bool();
                    if cs.reboot_needed {
                        label.push_str("+rb");
                        cs.reboot_fails = rng.chance(1, 6);
                    }
                }
            }
        }
    }
    if path == Path::FailForged && !cup {
        // without CUP a "forged" reply is just a valid one; keep the label honest
        label.push_str("-nocup");
    }
    // success is any 2xx status, not just 200 (201 Created, 202 Accepted, 203 from a proxy, 206, 226, 299)
    if rng.chance(1, 10) {
        if let Some(RespSpec::Reply(rep)) = attempts.last_mut() {
            if rep.status == 200 {
                rep.status = *rng.pick(&[201u16, 202, 203, 204, 206, 226, 299]);
                label.push_str(&format!("+s{}", rep.status));
            }
        }
    }
    cs.attempts = attempts;
    if pre > 0 {
        label.push_str(&format!("+pre{}", pre));
    }
    cs.plan_id = format!("plan-{}", rng.below(3));
    if deliveries {
        cs.reports = (0..4).map(|_| gen_delivery(rng, cup)).collect();
        label.push_str(&format!(
            "+d{}",
            cs.reports.iter().map(|d| match d { RespSpec::Reply(r) if r.status == 200 && r.etag == EtagSpec::Auto => 'k', RespSpec::Transport => 't', RespSpec::Reply(r) if r.status != 200 => 's', _ => 'f' }).collect::<String>()
        ));
    }
    (cs, label)
}

pub fn gen_params(rng: &mut Rng) -> ParamsSnap {
    ParamsSnap { on_demand: rng.bool(), proxies: rng.bool(), disable: rng.chance(1, 4), same_version: rng.chance(1, 4) }
}

pub fn case_desc(case: &FlowCase) -> Value {
    json!({
        "setup": format!("{:?}", case.setup),
        "shape": case.shape,
        "preload": format!("{:?}", case.preload),
        "fault": format!("{:?}", case.fault),
        "crash_at": case.crash_at,
        "script": format!("{:?}", case.script).chars().take(4000).collect::<String>(),
    })
}

#[derive(Clone, Debug)]
pub struct HistCfg {
    pub start_mode: bool,
    pub cup: bool,
    pub n_apps: usize,
    pub paths: Vec<Path>,
    pub cohorts: bool,
    pub deliveries: bool,
    pub random_params: bool,
    pub throttles: bool,
}

/// A history of checks (one-shot: exactly one) with scripted outcomes.
pub fn gen_history(rng: &mut Rng, cfg: &HistCfg) -> FlowCase {
    let apps = gen_apps(rng, cfg.n_apps);
    let mut script = Script::default();
    let mut shape = vec![
        if cfg.start_mode { "start".to_string() } else { "oneshot".to_string() },
        if cfg.cup { "cup".to_string() } else { "nocup".to_string() },
        format!("apps{}", cfg.n_apps),
    ];
    for p in &cfg.paths {
        let (cs, label) = gen_check(rng, &apps, *p, cfg.cup, cfg.cohorts, cfg.deliveries);
        script.checks.push(cs);
        shape.push(label);
        if cfg.start_mode {
            if cfg.throttles && rng.chance(1, 4) {
                script.decisions.push(*rng.pick(&[Decision::TooSoon, Decision::Throttled, Decision::Denied]));
                shape.push("throttle".into());
            }
            let params = if cfg.random_params { gen_params(rng) } else { ParamsSnap::default_lib() };
            script.decisions.push(if rng.chance(1, 5) { Decision::OkDeferred(params) } else { Decision::Ok(params) });
        }
    }
    let setup = Setup { apps, cup: cfg.cup, start_mode: cfg.start_mode, builder_order: rng.below(5) as u8, keys_in_config: !rng.chance(1, 4), ..Default::default() };
    let mut case = FlowCase::new(setup, script);
    case.stop_idle = cfg.paths.len();
    case.nontrivial = cfg.paths.iter().any(|p| *p != Path::NoUpdate) || cfg.n_apps > 1 || cfg.paths.len() > 1;
    case.shape = shape;
    case.key_seed = rng.next_u64();
    case
}


/// Run the case; then kill the process (if it did not die already), restart it on the surviving
/// storage with `next_setup` and run the new incarnation until it has asked the policy for the
/// next check time (start mode) or for `extra_idle` further Idle events.
pub fn run_case_restart(case: &FlowCase, next_setups: &[Setup], rng: &mut Rng, extra_idle: usize) -> CaseRun {
    let w = make_world(case);
    let mut d = Driver::new(&w, &case.setup);
    d.max_steps = case.max_steps;
    d.embedder_rate = case.embedder_rate;
    d.drop_handles_after = case.drop_handles_after;
    let stop_idle = case.stop_idle;
    let mut end = d.run(case.sched, rng, |d| d.count_state(&StateSnap::Idle) >= stop_idle);
    let mut setups = vec![case.setup.clone()];
    let first_interactions = lock(&w).interactions;
    let mut panicked = d.panicked.clone();
    let mut lost = d.lost_wakes.clone();
    for ns in next_setups {
        if panicked.is_some() {
            break;
        }
        if !d.crashed() {
            d.crash_now();
        }
        drop(d);
        setups.push(ns.clone());
        if case.restart_gap_ns != 0 {
            let mut g = lock(&w);
            // a negative gap: the wall clock comes back earlier than it was (RTC lost), monotonic time still advances
            g.wall_ns += case.restart_gap_ns;
            g.mono_ns += case.restart_gap_ns.max(1_000_000_000);
            let (wall, mono) = (g.wall_ns, g.mono_ns);
            g.push(Ev::Clock { wall, mono });
        }
        d = Driver::restart(&w, ns);
        d.max_steps = case.max_steps;
        d.embedder_rate = case.embedder_rate;
        let base_next = lock(&w).n_next;
        end = d.run(case.sched, rng, |d| {
            if extra_idle > 0 {
                d.count_state(&StateSnap::Idle) >= extra_idle
            } else {
                lock(&d.w).n_next > base_next
            }
        });
        if d.panicked.is_some() {
            panicked = d.panicked.clone();
        }
        lost.extend(d.lost_wakes.clone());
    }
    let mut run = finish_run_multi(case, &setups, w, d, end);
    run.panicked = panicked;
    run.lost_wakes = lost;
    run.interactions_first = first_interactions;
    run
}

#[derive(Clone, Debug, Default)]
pub struct Hostile {
    pub ctl_budget: usize,
    pub ctl_num: u64,
    pub ctl_den: u64,
    pub spurious: bool,
    pub multi_release: bool,
    /// a lagging observer: now and then the stream is NOT polled although it was woken, while the
    /// environment keeps completing operations / requests keep arriving
    pub lag: bool,
}

/// Hostile scheduler: random gate order, several releases before one poll, spurious polls,
/// control requests injected at arbitrary quiescent points.
pub fn run_hostile(case: &FlowCase, rng: &mut Rng, h: &Hostile) -> CaseRun {
    let w = make_world(case);
    let mut d = Driver::new(&w, &case.setup);
    d.max_steps = case.max_steps;
    d.ctl_on_emission = case.ctl_on_emission.clone();
    let mut drop_after = case.drop_handles_after;
    let mut rounds = 0u64;
    let mut budget = h.ctl_budget;
    let mut lagged = 0;
    let end = loop {
        rounds += 1;
        if drop_after.map(|n| rounds > n).unwrap_or(false) {
            drop_after = None;
            for hh in 0..d.handles.len() {
                d.drop_handle(hh);
            }
            d.sig.str("x");
        }
        let gates_now = d.pending_gates();
        if h.lag && lagged < 3 && !gates_now.is_empty() && rng.chance(1, 6) {
            // do not poll this round
            lagged += 1;
            d.sig.str("lag");
        } else {
            lagged = 0;
            d.settle();
        }
        if d.panicked.is_some() {
            break RunEnd::Panicked;
        }
        if d.crashed() {
            break RunEnd::Crashed;
        }
        if d.ended {
            break RunEnd::Ended;
        }
        if d.out_of_steps {
            break RunEnd::OutOfSteps;
        }
        if d.count_state(&StateSnap::Idle) >= case.stop_idle {
            break RunEnd::Stopped;
        }
        if budget > 0 && case.ctl_at_reboot_question && rng.bool() {
            // directed: an on-demand request while the policy's answer about the reboot is still on its way
            let asked = d.pending_gates().iter().any(|g| matches!(d.gate_kind(*g), GateKind::Policy("rebootallowed")));
            if asked {
                budget -= 1;
                d.send_control(0, true);
                continue;
            }
        }
        if budget > 0 && h.ctl_den > 0 && rng.chance(h.ctl_num, h.ctl_den) && !d.handles.is_empty() {
            budget -= 1;
            let od = rng.bool();
            d.send_control(0, od);
            continue;
        }
        if h.spurious && rng.chance(1, 8) {
            d.spurious_poll();
            continue;
        }
        let gates = d.pending_gates();
        if gates.is_empty() {
            break RunEnd::Blocked;
        }
        let g = gates[rng.usize(gates.len())];
        d.release(g);
        if h.multi_release && rng.chance(1, 3) {
            let gates = d.pending_gates();
            if !gates.is_empty() {
                let g = gates[rng.usize(gates.len())];
                d.release(g);
            }
        }
    };
    finish_run(case, w, d, end)
}

pub const HEADER_VALUES: [&[u8]; 30] = [
    b"0", b"1", b"30", b"3600", b"86399", b"86400", b"86401", b"100000", b"4294967295", b"4294967296", b"4294967297",
    b"9223372036854775807", b"9223372036854775808", b"18446744073709551615", b"18446744073709551616",
    b"99999999999999999999999999999999999999", b"000000000000000000000000000000000000060", b"007", b"", b" 60", b"60 ",
    b"6 0", b"-60", b"60s", b"1e3", b"0x10", b"60.0", b"\xff\xfe", b"\xef\xbc\x96\xef\xbc\x90", b"+60",
];

/// Attach X-Retry-After headers (from the grammar above, duplicates included) to scripted replies.
pub fn decorate_retry_after(script: &mut Script, rng: &mut Rng, num: u64, den: u64) -> String {
    decorate_retry_after_opt(script, rng, num, den, true)
}

/// `allow_dontcare = false`: only values whose meaning the statement decides ('+N' and conflicting
/// duplicates excluded), for checks whose model needs the retry decision.
pub fn decorate_retry_after_opt(script: &mut Script, rng: &mut Rng, num: u64, den: u64, allow_dontcare: bool) -> String {
    let mut label = String::new();
    let deco = |r: &mut RespSpec, rng: &mut Rng, label: &mut String| {
        if let RespSpec::Reply(rep) = r {
            if rng.chance(num, den) {
                let i = rng.usize(if allow_dontcare { HEADER_VALUES.len() } else { HEADER_VALUES.len() - 1 });
                rep.headers.push(("X-Retry-After".into(), HEADER_VALUES[i].to_vec()));
                label.push_str(&format!("h{},", i));
                if rng.chance(1, 10) {
                    // duplicate header: same value (definite) or a different one (don't-care)
                    let j = if rng.bool() || !allow_dontcare { i } else { rng.usize(HEADER_VALUES.len()) };
                    rep.headers.push(("x-retry-after".into(), HEADER_VALUES[j].to_vec()));
                    label.push_str(&format!("dup{},", j));
                }
            } else {
                label.push_str("-,");
                // the standard header is not Omaha's: a number in it (also on 429 / 503) dictates nothing
                if rng.chance(1, 8) {
                    rep.headers.push(("Retry-After".into(), rng.pick(&[&b"120"[..], b"3600", b"0"]).to_vec()));
                    label.push_str("std,");
                }
            }
        }
    };
    for c in script.checks.iter_mut() {
        for a in c.attempts.iter_mut() {
            deco(a, rng, &mut label);
        }
        for a in c.reports.iter_mut() {
            deco(a, rng, &mut label);
        }
    }
    for p in script.pings.iter_mut() {
        deco(p, rng, &mut label);
    }
    label
}

/// Give install checks a reboot wait with pings: reboot needed, not allowed for a few rounds.
pub fn add_reboot_waits(script: &mut Script, rng: &mut Rng, ping_docs: bool, apps: &[AppSpec]) -> String {
    let mut label = String::new();
    for c in script.checks.iter_mut() {
        if c.reboot_needed {
            let n = rng.usize(4);
            c.reboot_allowed = (0..n).map(|_| false).chain(std::iter::once(true)).collect();
            label.push_str(&format!("rw{},", n));
        }
    }
    for _ in 0..6 {
        let p = match rng.below(6) {
            0 => RespSpec::Transport,
            1 => RespSpec::Reply(ReplySpec::status(503)),
            2 => RespSpec::Reply(ReplySpec::ok(BodySpec::Raw(b"not json".to_vec()))),
            _ => {
                if ping_docs {
                    let mut docapps = vec![];
                    for a in apps.iter() {
                        if rng.chance(4, 5) {
                            docapps.push(DocApp { id: a.id.clone(), status: "ok".into(), cohort: [gen_cohort_field(rng), gen_cohort_field(rng), gen_cohort_field(rng)], updatecheck: None });
                        }
                    }
                    RespSpec::Reply(ReplySpec::ok(BodySpec::Doc(DocSpec { daystart: gen_daystart(rng), apps: docapps, wrap: 0 })))
                } else {
                    RespSpec::ack()
                }
            }
        };
        label.push_str(&p.label());
        label.push(',');
        script.pings.push(p);
    }
    label
}
