//! C09 — Cohort and user-counting data follow the server and persist.

use crate::common::{Args, Report, Rng};
use crate::props::gen::*;
use crate::props::monitors::*;
use crate::sim::driver::Sched;
use crate::sim::world::*;
use serde_json::json;

pub fn run(args: &Args, r: &mut Report) {
    r.rule_text = "start()-mode histories of 1..5 checks over 2..4 apps; responses name any subset / order of the apps plus unknown ids and \
        carry any subset of cohort / cohorthint / cohortname (absent vs present-empty vs value) and daystart {absent, without days, n}; \
        failed checks, reboot waits with pings (whose replies also carry cohorts / daystart) are interleaved; afterwards the process \
        is restarted with an embedder that presets a random subset of fields per app, and one more check runs.  Oracle: field-wise \
        merge model; compared on the wire (cohort attributes, ping ad / rd), in the apps argument of every policy call and in the \
        committed per-app records.  Shape key = paths + response letters + ping outcomes + preset mask.  Non-trivial = some response \
        carries a cohort field or a day number."
        .into();
    r.require(&["c09-apps-policy-next", "c09-apps-policy-allowed", "c09-wire-cohort-and-ping", "c09-committed-at-quiescence", "c09-apps-committed-with-result"]);
    r.assume("duplicate app ids inside one response are not generated (don't-care)");
    let n = args.budget(20_000, 200_000);
    for i in 0..n {
        if args.skip(i) {
            continue;
        }
        let mut rng = Rng::derive(args.seed, args.shard, 9, i);
        let len = 1 + rng.usize(5);
        let cfg = HistCfg {
            start_mode: true,
            cup: rng.chance(1, 3),
            n_apps: 2 + rng.usize(3),
            paths: (0..len).map(|_| *rng.pick(&ALL_PATHS)).collect(),
            cohorts: true,
            deliveries: false,
            random_params: false,
            throttles: false,
        };
        let mut case = gen_history(&mut rng, &cfg);
        let apps = case.setup.apps.clone();
        let l1 = add_reboot_waits(&mut case.script, &mut rng, true, &apps);
        // replies that change the server-dictated poll interval make the library commit in the middle of a check:
        // whatever such a commit stores must still be one consistent step
        if rng.chance(1, 3) {
            let l2 = decorate_retry_after_opt(&mut case.script, &mut rng, 1, 3, false);
            case.shape.push(l2);
        }
        case.sched = Sched::Random;
        case.shape.push(l1);
        case.nontrivial = true;
        // restart with an embedder that presets some fields
        let mut next = case.setup.clone();
        let mut mask = String::new();
        for a in next.apps.iter_mut() {
            for k in 0..3 {
                a.cohort[k] = if rng.chance(1, 3) { Some(format!("preset{}", k)) } else { None };
                mask.push(if a.cohort[k].is_some() { 'P' } else { '.' });
            }
            a.day = if rng.chance(1, 3) { Some(77) } else { None };
            mask.push(if a.day.is_some() { 'D' } else { '.' });
        }
        case.shape.push(mask);
        if rng.chance(1, 3) {
            case.crash_at = Some(rng.below(200));
            case.shape.push("crash".into());
        }
        if rng.chance(1, 6) {
            // a store that rejects every write of an unrelated (non-app) entry
            // (the counter / last-contact entries are what the together-with-the-result rule reads, so not those)
            let k = "server_dictated_poll_interval";
            case.shape.push(format!("failkey:{}", k));
            case.fault.fail_keys.push(k.to_string());
        }
        case.script.checks.push(gen_check(&mut rng, &apps, Path::NoUpdate, cfg.cup, true, false).0);
        case.script.decisions.push(Decision::Ok(ParamsSnap::default_lib()));
        // a transient write fault on one app's record during check k, followed by a check whose answer is the
        // very same document: whatever was not written the first time must be written the second time
        let mut faulty_check: Option<usize> = None;
        if case.crash_at.is_none() && case.fault.fail_keys.is_empty() && rng.chance(1, 5) {
            let nchecks = case.script.checks.len();
            let cands: Vec<usize> = (0..nchecks.saturating_sub(1))
                .filter(|k| !case.script.checks[*k].reboot_needed && matches!(case.script.checks[*k].attempts.last(), Some(RespSpec::Reply(rep)) if rep.status == 200 && rep.etag == EtagSpec::Auto && matches!(&rep.body, BodySpec::Doc(d) if n_offered(d) == 0)))
                .collect();
            if !cands.is_empty() {
                let k = cands[rng.usize(cands.len())];
                let mut twin = case.script.checks[k].clone();
                twin.attempts = vec![twin.attempts.last().cloned().unwrap()];
                case.script.checks[k + 1] = twin;
                let j = rng.usize(apps.len());
                case.fault.fail_keys.push(apps[j].id.clone());
                case.fault.fail_keys_during_check = Some(k);
                case.shape.push(format!("appwrite-fault@{}+same-answer", k));
                faulty_check = Some(k);
            }
        }
        let mut run = run_case_restart(&case, &[next], &mut rng, 1);
        r.eval(case.shape_key(), case.nontrivial);
        r.interleavings.insert(run.sig);
        let mut m = Mon::default();
        if let Some(k) = faulty_check {
            run.flow.skip_commit_judgement_after_checks = vec![k];
            r.count("app-write-fault-then-same-answer", 1);
        }
        mon_state(&run.flow, &case.setup, Proj::Cohort, &mut m);
        if faulty_check.is_none() {
            mon_c09_together(&run.flow, &mut m);
        }
        if let Some(p) = &run.panicked {
            report_panic(r, args, i, p, &run.w, case_desc(&case));
        }
        r.count("pings-observed", run.flow.pings.len() as u64);
        r.count("successful-pings", run.flow.pings.iter().filter(|p| p.success).count() as u64);
        if r.want_sample() && i % 40 == 5 {
            r.sample(json!({
                "case": i, "shape": case.shape,
                "apps_shown_to_policy": run.flow.nexts.iter().map(|n| format!("{:?}", n.apps.iter().map(|a| (a.id.clone(), a.cohort.clone(), a.day)).collect::<Vec<_>>())).collect::<Vec<_>>(),
            }));
        }
        absorb(r, args, i, m, &run.w, case_desc(&case));
    }
}
