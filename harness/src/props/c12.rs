//! C12 — Scheduled checks wait for the policy's time and minimum wait.

use crate::common::{Args, Report, Rng};
use crate::props::gen::*;
use crate::props::monitors::*;
use crate::sim::driver::*;
use crate::sim::world::*;
use serde_json::json;

pub fn run(args: &Args, r: &mut Report) {
    r.rule_text = "start()-mode runs of 3..6 loop iterations (throttled ones included) in which the policy answers compute_next_update_time \
        with timings of every kind {wall-only, monotonic-only, both} x {no minimum wait, minimum wait}; all timers are gates and the \
        scheduler fires them one at a time in seeded random order, running the machine to quiescence after EACH firing, so every \
        strict subset of a wait's timers is observed before the full set (both orders of {time-bound, minimum-wait} are enumerated \
        by alternating the first choice); the same inside reboot waits (30-minute re-ask timer + ping timers), optionally with \
        control requests, or with every control handle dropped at a random point.  Monitors: log-order rules tying every scheduling timer to the preceding policy answer and every \
        unrequested check / ping to the firing of all timers of its wait.  Shape key = timing kinds + firing order pattern + \
        decisions.  Non-trivial = a minimum wait, a throttled iteration or a reboot wait."
        .into();
    r.require(&[
        "c12-next-update-time-announced",
        "c12-timers-armed-exactly",
        "c12-wait-preceded-by-policy-question",
        "c12-unrequested-check-after-all-timers",
        "c12-ping-after-all-timers",
        "c12-reboot-question-reasked-only-on-timer-or-on-demand",
        "c12-partial-firing-observed",
    ]);
    let n = args.budget(30_000, 300_000);
    for i in 0..n {
        if args.skip(i) {
            continue;
        }
        let mut rng = Rng::derive(args.seed, args.shard, 12, i);
        let iters = 3 + rng.usize(4);
        let mut paths = vec![];
        for _ in 0..iters {
            paths.push(*rng.pick(&[Path::NoUpdate, Path::NoUpdate, Path::FailTransport, Path::Install, Path::ParseError]));
        }
        let cfg = HistCfg { start_mode: true, cup: false, n_apps: 1, paths, cohorts: false, deliveries: false, random_params: false, throttles: true };
        let mut case = gen_history(&mut rng, &cfg);
        let apps = case.setup.apps.clone();
        // make reboot waits frequent and long
        for c in case.script.checks.iter_mut() {
            if !c.results.is_empty() && rng.bool() {
                for x in c.results.iter_mut() {
                    *x = InstRes::Installed;
                }
                c.reboot_needed = true;
            }
        }
        let l = add_reboot_waits(&mut case.script, &mut rng, false, &apps);
        for c in case.script.checks.iter_mut() {
            if c.reboot_needed {
                let k = 1 + rng.usize(5);
                c.reboot_allowed = (0..k).map(|_| false).chain(std::iter::once(true)).collect();
            }
        }
        // timings: one per policy question, all kinds
        let mut tl = String::new();
        for q in 0..40 {
            let kind = match (i as usize + q) % 3 {
                0 => TimeKind::Wall,
                1 => TimeKind::Mono,
                _ => TimeKind::Both,
            };
            let min_wait_s = match rng.below(7) {
                0 | 1 => None,
                2 | 3 => Some(60 + rng.below(600)),
                4 => Some(0), // "no sooner than now": still a timer the policy asked for
                _ => Some(7200),
            };
            tl.push(match (&kind, min_wait_s.is_some()) {
                (TimeKind::Wall, false) => 'w',
                (TimeKind::Wall, true) => 'W',
                (TimeKind::Mono, false) => 'm',
                (TimeKind::Mono, true) => 'M',
                (TimeKind::Both, false) => 'b',
                (TimeKind::Both, true) => 'B',
            });
            case.script.timings.push(TimingSpec { kind, offset_s: 600 + rng.below(7200), min_wait_s, same_as_previous: rng.chance(1, 3) });
        }
        case.shape.push(l);
        case.shape.push(tl.chars().take(8).collect());
        case.nontrivial = true;
        case.max_steps = 8_000;
        // ---- custom run: fire ONE timer, settle, look, repeat.  `first_choice` alternates so that
        // both orders of a two-timer wait are enumerated across cases.
        let w = make_world(&case);
        let mut d = Driver::new(&w, &case.setup);
        d.max_steps = case.max_steps;
        let ctl_mode = rng.below(4); // 0: none, 1..: some control requests
        let mut ctl_budget = if ctl_mode == 0 { 0 } else { 1 + rng.usize(2) };
        // an embedder that never asks for checks may drop every control handle at any time; the scheduled
        // operation must go on exactly as before
        let mut drop_handles_at: Option<usize> = if ctl_mode == 0 && rng.chance(1, 3) { Some(rng.usize(12)) } else { None };
        let mut rounds = 0usize;
        let mut order_pattern = String::new();
        let mut partial_seen = 0u64;
        let end = loop {
            d.settle();
            if d.panicked.is_some() {
                break RunEnd::Panicked;
            }
            if d.ended {
                break RunEnd::Ended;
            }
            if d.out_of_steps {
                break RunEnd::OutOfSteps;
            }
            if d.count_state(&StateSnap::Idle) >= case.stop_idle {
                break RunEnd::Stopped;
            }
            let gates = d.pending_gates();
            if gates.is_empty() {
                break RunEnd::Blocked;
            }
            rounds += 1;
            if drop_handles_at.map(|n| rounds > n).unwrap_or(false) {
                drop_handles_at = None;
                for h in 0..d.handles.len() {
                    d.drop_handle(h);
                }
                order_pattern.push('x');
                continue;
            }
            if ctl_budget > 0 && rng.chance(1, 12) {
                ctl_budget -= 1;
                let od = rng.bool();
                d.send_control(0, od);
                order_pattern.push('c');
                continue;
            }
            let timers: Vec<usize> = gates.iter().copied().filter(|g| matches!(d.gate_kind(*g), GateKind::Timer(_))).collect();
            let pick = if timers.len() >= 2 {
                partial_seen += 1;
                let k = if (i + order_pattern.len() as u64) % 2 == 0 { 0 } else { timers.len() - 1 };
                let k = if rng.chance(1, 4) { rng.usize(timers.len()) } else { k };
                order_pattern.push(if k == 0 { 'a' } else { 'z' });
                timers[k]
            } else {
                gates[rng.usize(gates.len())]
            };
            d.release(pick);
        };
        case.shape.push(order_pattern.chars().take(10).collect());
        let run = finish_run(&case, w, d, end);
        r.eval(case.shape_key(), true);
        r.interleavings.insert(run.sig);
        let mut m = Mon::default();
        {
            let g = lock(&run.w);
            mon_c12(&g.log, &mut m);
        }
        if partial_seen > 0 {
            m.hits.insert("c12-partial-firing-observed".into(), partial_seen);
        }
        if let Some(p) = &run.panicked {
            report_panic(r, args, i, p, &run.w, case_desc(&case));
        }
        r.count(&format!("end-{:?}", run.end), 1);
        r.count("pings", run.flow.pings.len() as u64);
        if r.want_sample() && i % 50 == 9 {
            let g = lock(&run.w);
            r.sample(json!({"case": i, "shape": case.shape, "timer_events": g.log.iter().filter_map(|x| match &x.ev {
                Ev::PolicyNext { answer, .. } => Some(format!("{} policy-next -> {:?}", x.seq, answer)),
                Ev::TimerArm { id, spec } => Some(format!("{} arm #{} {:?}", x.seq, id, spec)),
                Ev::TimerFire { id } => Some(format!("{} fire #{}", x.seq, id)),
                Ev::PolicyCheckAllowed { .. } => Some(format!("{} update_check_allowed", x.seq)),
                Ev::PolicyRebootAllowed { answer, .. } => Some(format!("{} reboot_allowed -> {}", x.seq, answer)),
                Ev::HttpReq { kind: ReqKind::Ping, .. } => Some(format!("{} ping", x.seq)),
                _ => None }).take(40).collect::<Vec<_>>()}));
        }
        absorb(r, args, i, m, &run.w, case_desc(&case));
    }
}
