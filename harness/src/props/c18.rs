//! C18 — Update-attempt bookkeeping spans attempts and reboots.

use crate::common::{Args, Report, Rng};
use crate::props::gen::*;
use crate::props::monitors::Mon;
use crate::sim::driver::*;
use crate::sim::world::*;
use serde_json::json;
use std::collections::BTreeMap;

#[derive(Clone, Debug, Default, PartialEq)]
struct Book {
    plan: Option<(String, i128)>, // plan id, first seen (wall ns)
    failed_installs: i64,
    finish_us: Option<i64>,
    target: Option<String>,
}

struct Inc {
    setup: Setup,
    stop_idle: usize,
    crash_at: Option<u64>,
    /// clock change applied before this incarnation starts: (wall delta ns, mono delta ns)
    jump: (i128, i128),
}

/// One commit of the history fails (its writes stay pending and reach the disk with the next successful commit).
/// Model-free judgement of "durably records its finish time and the target version before any reboot is
/// attempted": at perform_reboot after an install with no failed app, the finish time written after that install
/// and whatever the target-version entry now holds are on disk (pending value == committed value).
fn model_commit_fault(log: &[Rec], m: &mut Mon) {
    const KEYS: [&str; 2] = ["update_finish_time", "target_version"];
    let mut pending: BTreeMap<String, Option<Val>> = BTreeMap::new();
    let mut committed: BTreeMap<String, Option<Val>> = BTreeMap::new();
    let mut clean_install = false;
    let mut finish_written = false;
    let mut failed_commits = 0u32;
    for r in log {
        match &r.ev {
            Ev::StorageSet { key, value, ok: true } if KEYS.contains(&key.as_str()) => {
                pending.insert(key.clone(), Some(value.clone()));
                if key == "update_finish_time" && clean_install {
                    finish_written = true;
                }
            }
            Ev::StorageRemove { key, ok: true } if KEYS.contains(&key.as_str()) => {
                pending.insert(key.clone(), None);
            }
            Ev::Commit { ok: true, snapshot } => {
                for k in KEYS {
                    committed.insert(k.to_string(), snapshot.get(k).cloned());
                    pending.insert(k.to_string(), snapshot.get(k).cloned());
                }
            }
            Ev::Commit { ok: false, .. } => failed_commits += 1,
            Ev::Restart => {
                pending = committed.clone();
                clean_install = false;
                finish_written = false;
            }
            Ev::Taken(EvSnap::State(StateSnap::Checking(_))) => {
                clean_install = false;
                finish_written = false;
            }
            Ev::InstallDone { results } => {
                clean_install = !results.iter().any(|x| *x == InstRes::Failed);
                finish_written = false;
            }
            Ev::Reboot => {
                if clean_install && failed_commits <= 1 {
                    let same = KEYS.iter().all(|k| pending.get(*k).cloned().flatten() == committed.get(*k).cloned().flatten());
                    m.judge("c18-finish-and-target-committed-before-reboot", finish_written && same, "one-failing-commit", || {
                        format!(
                            "at seq {} (perform_reboot) after an install with no failed app and a single failed commit: finish time written={}, store holds {:?}, written {:?}",
                            r.seq, finish_written, committed, pending
                        )
                    });
                }
                clean_install = false;
            }
            _ => {}
        }
    }
}

fn model(log: &[Rec], setups: &[Setup], exact_first_seen: bool, commit_faults: bool, m: &mut Mon) {
    // earliest sighting (start of an install attempt) of every plan id in the whole history
    let mut first_sighting: BTreeMap<String, i128> = BTreeMap::new();
    let mut cur_plan: Option<(String, i128)> = None;
    let mut durable = Book::default();
    let mut mem = Book::default();
    let mut inc = 0usize;
    let mut os_version = setups[0].os_version.clone();
    let mut system_app = setups[0].apps[setups[0].system_idx].id.clone();
    // per incarnation
    let mut start_wall: Option<i128> = None;
    let mut expect_report = false;
    let mut record_at_start: Option<(i64, String)> = None;
    let mut reported = 0usize;
    let mut start_mono: Option<i128> = None;
    let mut last_read: Option<(i128, i128)> = None;
    let mut in_reboot_wait = false;
    let mut missed_consistent_opportunity = false;
    let mut next_after_report = false;
    let mut passed_first_next = false;
    let mut clean_install_in_inc = false;
    let mut built = false;
    // per install
    let mut last_read_wall: Option<i128> = None;
    let mut first_seen: Option<i128> = None;
    let mut finish: Option<i128> = None;
    let mut await_finish_read = false;
    let mut no_failed = false;
    let mut any_counted = false;
    let mut finish_committed = false;
    let mut expect_target: Option<Option<String>> = None; // Some(None) = untouched
    let mut offered_versions: BTreeMap<String, Option<String>> = BTreeMap::new();
    let mut in_install = false;
    let mut attempts_metric_seen = false;
    let mut first_seen_metric_seen = false;
    let mut attempt_plan: Option<String> = None;
    let mut await_commit = false;
    let mut committed_failed_installs: Option<i64> = None;
    let mut committed_plan: Option<String> = None;
    let mut counted_in_check = false;
    let autotick = log.iter().any(|r| matches!(r.ev, Ev::ClockRead { .. }));

    let end_incarnation = |m: &mut Mon, expect_report: bool, record_at_start: &Option<(i64, String)>, reported: usize, start_wall: Option<i128>, passed: bool, clean: bool, durable: &Book, crashed_early: bool, missed: bool, cleared_judgeable: bool| {
        m.judge("c18-waited-for-reboot-at-most-once", reported <= 1, "", || format!("WaitedForRebootDuration reported {} times by one state machine", reported));
        if !passed || crashed_early {
            return;
        }
        match (expect_report, record_at_start) {
            (true, Some((fin, _))) => {
                let consistent = start_wall.map(|s| s >= *fin as i128 * 1000).unwrap_or(false) || reported > 0 || missed;
                if consistent {
                    m.judge("c18-waited-for-reboot-reported-once", reported == 1 && !missed, "missing", || "state machine started on the target version passed a loop iteration with consistent clocks without reporting the waited-for-reboot duration".into());
                    // (a crash right after the metric, before the clearing commit, is not decided by the statement)
                    if !clean && cleared_judgeable {
                        m.judge("c18-record-cleared-after-report", durable.finish_us.is_none() && durable.target.is_none(), "", || format!("after the report the record is still committed: {:?}", durable));
                    }
                } else {
                    m.judge("c18-no-report-with-inconsistent-clocks", reported == 0, "", || "finish time lies in the future but a duration was reported".into());
                    if !clean {
                        m.judge("c18-record-kept-when-not-reported", durable.finish_us == Some(*fin), "inconsistent-clocks", || format!("nothing was reported but the record changed: {:?}", durable));
                    }
                }
            }
            (false, Some((fin, tv))) => {
                m.judge("c18-no-report-on-other-version", reported == 0, "", || format!("running {:?} != target {:?} but a waited-for-reboot duration was reported", "os", tv));
                if !clean {
                    m.judge("c18-record-kept-when-not-reported", durable.finish_us == Some(*fin) && durable.target.as_ref() == Some(tv), "other-version", || format!("nothing was reported but the record changed: {:?}", durable));
                }
            }
            (_, None) => {
                m.judge("c18-no-report-without-record", reported == 0, "", || "no finish record existed but a duration was reported".into());
            }
        }
    };

    let mut wall_went_back = false;
    let mut prev_wall: Option<i128> = None;
    for (i, r) in log.iter().enumerate() {
        if prev_wall.map(|p| r.wall < p).unwrap_or(false) {
            wall_went_back = true;
        }
        prev_wall = Some(r.wall);
        match &r.ev {
            Ev::Built => {
                built = true;
                start_wall = None;
                start_mono = None;
                in_reboot_wait = false;
                missed_consistent_opportunity = false;
                next_after_report = false;
                record_at_start = match (&durable.finish_us, &durable.target) {
                    (Some(f), Some(t)) => Some((*f, t.clone())),
                    _ => None,
                };
                expect_report = matches!(&record_at_start, Some((_, t)) if *t == os_version);
            }
            Ev::PollStart => {
                if built && start_wall.is_none() && !autotick {
                    start_wall = Some(r.wall);
                    start_mono = Some(r.mono);
                }
            }
            Ev::ClockRead { wall, mono } => {
                if built && start_wall.is_none() {
                    // the first clock read of run() is state_machine_start_monotonic_time
                    start_wall = Some(*wall);
                    start_mono = Some(*mono);
                }
                last_read = Some((*wall, *mono));
                last_read_wall = Some(*wall);
                if await_finish_read {
                    finish = Some(*wall);
                    await_finish_read = false;
                }
            }
            Ev::Taken(EvSnap::State(StateSnap::WaitingForReboot)) => in_reboot_wait = true,
            Ev::Taken(EvSnap::State(StateSnap::Idle)) => {
                in_reboot_wait = false;
                // an install with no failed app after which the machine never attempted a reboot (none needed, or
                // none allowed yet): the record must be durable by the time the check is over — the device may go
                // down by other means at any moment
                // the failed-install count as changed by this check's install is durable once the check is over
                if counted_in_check && commit_faults {
                    counted_in_check = false;
                }
                if await_commit && commit_faults {
                    // a store whose commit failed once may legitimately be behind at this point (no reboot was
                    // attempted, where the record's durability is judged whatever the store does)
                    await_commit = false;
                }
                if counted_in_check {
                    if let Some(c) = committed_failed_installs {
                        m.judge("c18-attempts-count-committed-with-the-check", c == mem.failed_installs, "", || {
                            format!("at seq {} the check is over (Idle): the store holds a failed-install count of {}, the count after this check's install is {}", r.seq, c, mem.failed_installs)
                        });
                    }
                    counted_in_check = false;
                }
                if await_commit {
                    m.judge("c18-finish-and-target-committed-before-reboot", finish_committed, "idle-without-reboot", || {
                        format!("at seq {} the check is over (Idle) and the finish time {:?} / target version {:?} of the install with no failed app had not been committed", r.seq, finish.map(|f| f / 1000), expect_target)
                    });
                    await_commit = false;
                }
            }
            Ev::PolicyNext { .. } => {
                passed_first_next = true;
                if reported > 0 {
                    next_after_report = true;
                }
                // top of a main-loop iteration: a report opportunity has just passed
                if !in_reboot_wait && expect_report && reported == 0 {
                    if let (Some((fin, _)), Some(sm)) = (&record_at_start, start_mono) {
                        let (w, mo) = (r.wall, r.mono);
                        let since_finish = w - *fin as i128 * 1000;
                        let since_start = mo - sm;
                        // clearly consistent (well away from the boundary): the report was due
                        if since_finish > 1_000_000_000 && since_finish - since_start > 1_000_000_000 {
                            missed_consistent_opportunity = true;
                        }
                    }
                }
            }
            Ev::EmbedderRename { to } => {
                system_app = to.clone();
            }
            Ev::Restart => {
                let crashed_early = !passed_first_next;
                end_incarnation(m, expect_report, &record_at_start, reported, start_wall, passed_first_next, clean_install_in_inc, &durable, crashed_early, missed_consistent_opportunity, next_after_report);
                mem = durable.clone();
                counted_in_check = false;
                inc += 1;
                let s = &setups[inc.min(setups.len() - 1)];
                os_version = s.os_version.clone();
                system_app = s.apps[s.system_idx].id.clone();
                reported = 0;
                passed_first_next = false;
                clean_install_in_inc = false;
                built = false;
                in_install = false;
                await_finish_read = false;
                await_commit = false;
                attempt_plan = None;
            }
            Ev::PolicyCanStart { plan_id, answer: UpdDec::Ok } => {
                attempt_plan = Some(plan_id.clone());
            }
            Ev::Commit { ok: true, snapshot } => {
                committed_plan = match snapshot.get("install_plan_id") {
                    Some(Val::S(p)) => Some(p.clone()),
                    _ => None,
                };
                committed_failed_installs = match snapshot.get("consecutive_failed_install_attempts") {
                    Some(Val::I(v)) => Some(*v),
                    _ => Some(0),
                };
                if let Some(p) = attempt_plan.take() {
                    // the first-seen record of a new plan is written (and committed) before the install starts
                    let t = if autotick { last_read_wall.unwrap_or(r.wall) } else { r.wall };
                    match &mem.plan {
                        Some((q, _)) if *q == p => {}
                        _ => mem.plan = Some((p, t)),
                    }
                }
                durable = mem.clone();
                // the failed-install count that survives a restart is what the store holds: whether the library
                // stages it before or after reporting the metric is its own business (what the store must hold once
                // the check is over is judged at Idle)
                if await_commit && finish.is_some() {
                    let fin_ok = matches!(snapshot.get("update_finish_time"), Some(Val::I(v)) if Some(*v as i128) == finish.map(|f| f / 1000));
                    let tv = match snapshot.get("target_version") {
                        Some(Val::S(s)) => Some(s.clone()),
                        _ => None,
                    };
                    let tv_ok = match &expect_target {
                        Some(Some(want)) => tv.as_ref() == Some(want),
                        Some(None) => tv == mem_target_before(&mem),
                        None => true,
                    };
                    if fin_ok && tv_ok {
                        finish_committed = true;
                        mem.finish_us = finish.map(|f| (f / 1000) as i64);
                        if let Some(Some(t)) = &expect_target {
                            mem.target = Some(t.clone());
                        }
                        durable = mem.clone();
                    }
                }
                // the clearing commit after a report
                if !in_install && reported > 0 && snapshot.get("update_finish_time").is_none() && snapshot.get("target_version").is_none() {
                    mem.finish_us = None;
                    mem.target = None;
                    durable = mem.clone();
                }
                // the failed-install count that survives a restart is what the store holds: whether the library
                // stages it before or after reporting the metric is its own business (what the store must hold once
                // the check is over is judged at Idle)
                durable.failed_installs = committed_failed_installs.unwrap_or(durable.failed_installs);
            }
            Ev::PlanCreate { response, answer, .. } => {
                if let Ok(id) = answer {
                    // the earliest moment the library can have seen this plan
                    first_sighting.entry(id.clone()).or_insert(r.wall);
                }
                offered_versions.clear();
                for a in response.apps.iter() {
                    if let Some(uc) = &a.update_check {
                        if uc.status == omaha_client::protocol::response::OmahaStatus::Ok {
                            offered_versions.insert(a.id.clone(), uc.manifest.as_ref().map(|mf| mf.version.clone()));
                        }
                    }
                }
            }
            Ev::InstallStart { plan_id } => {
                // "survives repeated attempts and restarts": whatever happens to the process while the installer
                // runs, the plan must already be on record (a store that refuses the record is the faulty mode)
                if exact_first_seen && !commit_faults {
                    m.judge("c18-first-seen-durable-before-install", committed_plan.as_deref() == Some(plan_id.as_str()), "", || {
                        format!("at seq {} the installer starts on plan {} but the store's install_plan_id is {:?}: a crash during the install would forget when this update was first seen", r.seq, plan_id, committed_plan)
                    });
                }
                attempt_plan = None;
                let t = if autotick { last_read_wall.unwrap_or(r.wall) } else { r.wall };
                match &mem.plan {
                    Some((p, _)) if p == plan_id => {}
                    _ => mem.plan = Some((plan_id.clone(), t)),
                }
                first_sighting.entry(plan_id.clone()).or_insert(t);
                cur_plan = Some((plan_id.clone(), t));
                first_seen = mem.plan.as_ref().map(|x| x.1);
                in_install = true;
                finish = None;
                finish_committed = false;
                await_commit = false;
                attempts_metric_seen = false;
                first_seen_metric_seen = false;
            }
            Ev::InstallDone { results } => {
                no_failed = !results.iter().any(|x| *x == InstRes::Failed);
                any_counted = results.iter().any(|x| *x == InstRes::Failed || *x == InstRes::Installed);
                if autotick {
                    await_finish_read = true;
                } else {
                    finish = Some(r.wall);
                }
                expect_target = Some(match offered_versions.get(&system_app) {
                    Some(Some(v)) => Some(v.clone()),
                    Some(None) => Some("UNKNOWN".to_string()),
                    None => None,
                });
                if no_failed {
                    clean_install_in_inc = true;
                }
                await_commit = no_failed;
            }
            Ev::Metric(MetricSnap::SuccessfulUpdateFromFirstSeen(d)) => {
                first_seen_metric_seen = true;
                if exact_first_seen {
                    if let (Some(f), Some(fs)) = (finish, first_seen) {
                        m.judge("c18-first-seen-duration", f >= fs && *d as i128 == f - fs, "", || {
                            format!("SuccessfulUpdateFromFirstSeen({} ns) at seq {}, expected finish {} - first seen {} = {} ns", d, r.seq, f, fs, f - fs)
                        });
                    }
                } else if wall_went_back {
                    // sightings cannot be ordered on a wall clock that was stepped backwards
                } else if let (Some(f), Some((plan, t_now))) = (finish, cur_plan.clone()) {
                    // the store may refuse to record the first-seen time: whatever happens, the time used for
                    // this plan is not earlier than the plan's first sighting and not later than this attempt
                    let used = f - *d as i128;
                    let earliest = first_sighting.get(&plan).copied().unwrap_or(t_now);
                    m.judge("c18-first-seen-within-plan-lifetime", used + 1_000 >= earliest && used <= t_now + 1_000, if used + 1_000 < earliest { "before-first-sighting" } else { "after-attempt" }, || {
                        format!("SuccessfulUpdateFromFirstSeen({} ns) at seq {}: implies plan {} was first seen at {} ns, but its first attempt began at {} ns (this attempt at {} ns)", d, r.seq, plan, used, earliest, t_now)
                    });
                }
            }
            Ev::Reboot => {
                // "before any reboot is attempted": judged at perform_reboot (committing only after the
                // reboot_needed question, e.g. with the end-of-check commit, still satisfies the statement)
                if await_commit {
                    m.judge("c18-finish-and-target-committed-before-reboot", finish_committed, "reboot", || {
                        format!("at seq {} (perform_reboot) the finish time {:?} / target version {:?} had not been committed", r.seq, finish.map(|f| f / 1000), expect_target)
                    });
                    await_commit = false;
                }
            }
            Ev::Metric(MetricSnap::AttemptsToSuccessfulInstall { count, ok }) => {
                attempts_metric_seen = true;
                let want = mem.failed_installs.saturating_add(1);
                m.judge("c18-attempts-count", *count as i64 == want && *ok == no_failed && in_install && any_counted, if *ok != no_failed { "flag" } else { "count" }, || {
                    format!("AttemptsToSuccessfulInstall {{count {}, successful {}}} at seq {}; expected count {} successful {} (install seen={}, counted={})", count, ok, r.seq, want, no_failed, in_install, any_counted)
                });
                mem.failed_installs = if *ok { 0 } else { want };
                counted_in_check = true;
            }
            Ev::Taken(EvSnap::Result(_)) => {
                if in_install && no_failed {
                    if let (Some(f), Some(fs)) = (finish, first_seen) {
                        if f >= fs && exact_first_seen {
                            m.judge("c18-first-seen-metric-reported", first_seen_metric_seen, "", || "install without failed app finished but SuccessfulUpdateFromFirstSeen was not reported".into());
                        }
                    }
                }
                if in_install && finish.is_some() {
                    m.judge("c18-attempts-reported-iff-counted", attempts_metric_seen == any_counted, if any_counted { "missing" } else { "spurious" }, || {
                        format!("install with counted result={} but AttemptsToSuccessfulInstall reported={}", any_counted, attempts_metric_seen)
                    });
                }
                in_install = false;
            }
            Ev::Metric(MetricSnap::WaitedForReboot(d)) => {
                reported += 1;
                if let (Some((fin, _)), Some(sw), Some(sm)) = (&record_at_start, start_wall, start_mono) {
                    // (wall now - finish) - (mono now - mono at start): finish -> start of this state
                    // machine, whatever happened to the clocks or however long it took to get here
                    let (nw, nm) = if autotick { last_read.unwrap_or((r.wall, r.mono)) } else { (r.wall, r.mono) };
                    let want = (nw - *fin as i128 * 1000) - (nm - sm);
                    m.judge("c18-waited-for-reboot-value", expect_report && want >= 0 && *d as i128 == want, if !expect_report { "unexpected" } else { "value" }, || {
                        format!("WaitedForRebootDuration({} ns) at seq {}; state machine started at wall {} ns, finish time {} us => expected {} ns (expected at all: {})", d, r.seq, sw, fin, want, expect_report)
                    });
                } else {
                    m.judge("c18-waited-for-reboot-value", false, "no-record", || format!("WaitedForRebootDuration reported at seq {} without a finish record", r.seq));
                }
            }
            _ => {}
        }
        let _ = i;
    }
    let crashed_early = !passed_first_next;
    end_incarnation(m, expect_report, &record_at_start, reported, start_wall, passed_first_next, clean_install_in_inc, &durable, crashed_early, missed_consistent_opportunity, next_after_report);
}

fn mem_target_before(mem: &Book) -> Option<String> {
    mem.target.clone()
}

pub fn run(args: &Args, r: &mut Report) {
    r.rule_text = "Histories of 1..4 process incarnations x 1..2 install attempts each over 1..3 apps: plan id same / new, per-app results \
        {installed, deferred, failed}, system app (first of the set; in a sixth of the histories the embedder changes its id in place, a channel change) offered or not, manifest version present or not, reboot needed or \
        not; incarnations are separated by a clean kill at quiescence or a crash injected at a random boundary interaction; the next \
        incarnation runs the stored target version, 'UNKNOWN' or another version; between incarnations the clocks jump (reboot time, \
        wall clock set back before the finish time; a fifth of the installs see a time sync — wall clock stepped forwards or backwards relative to the monotonic one — while the installer runs); in half of the cases every clock read advances time (delays between start and \
        report).  A log-order model tracks first-seen time per plan, failed-install count, finish time / target version with \
        durability = 'a successful commit was observed afterwards'.  Shape key = per incarnation: os-version class, crash?, clock \
        relation, per attempt: plan same/new + offered pattern + results.  Non-trivial = more than one attempt or incarnation."
        .into();
    r.require(&[
        "c18-first-seen-duration",
        "c18-first-seen-within-plan-lifetime",
        "c18-first-seen-durable-before-install",
        "c18-first-seen-metric-reported",
        "c18-finish-and-target-committed-before-reboot",
        "c18-attempts-count",
        "c18-attempts-reported-iff-counted",
        "c18-attempts-count-committed-with-the-check",
        "c18-waited-for-reboot-value",
        "c18-waited-for-reboot-reported-once",
        "c18-waited-for-reboot-at-most-once",
        "c18-record-cleared-after-report",
        "c18-no-report-on-other-version",
        "c18-record-kept-when-not-reported",
        "c18-no-report-with-inconsistent-clocks",
    ]);
    r.assume("a crash between the metric report and the clearing commit may lead to a second report by the next state machine (not decided by the statement)");
    r.assume("the monotonic clock never goes backwards; the wall clock may be stepped across restarts, by a correction while the machine waits, and by a time sync while an install runs");
    let n = args.budget(30_000, 400_000);
    for i in 0..n {
        if args.skip(i) {
            continue;
        }
        let mut rng = Rng::derive(args.seed, args.shard, 18, i);
        let n_apps = 1 + rng.usize(3);
        let apps = gen_apps(&mut rng, n_apps);
        // the embedder's AppSet decides which app is the system app: not necessarily the first one
        let sys_idx = if rng.chance(1, 3) { rng.usize(n_apps) } else { 0 };
        let n_inc = 1 + rng.usize(4);
        let mut script = Script::default();
        let mut incs: Vec<Inc> = vec![];
        let mut shape = vec![format!("apps{} sys{}", n_apps, sys_idx)];
        let mut last_target: Option<String> = None;
        let mut os = "1.0.0.0".to_string();
        let autotick = rng.bool();
        // a channel change that gives the system app a new Omaha id, applied in place by the embedder right
        // after one incarnation has been built; later incarnations are constructed with the new id
        let rename_at: Option<usize> = if rng.chance(1, 6) { Some(rng.usize(n_inc)) } else { None };
        let new_sys_id = "{app-a-beta}".to_string();
        for k in 0..n_inc {
            let attempts = 1 + rng.usize(2);
            let mut lab = format!("os={}", if Some(&os) == last_target.as_ref() { "target" } else { "other" });
            for _ in 0..attempts {
                // response: each app offered (with / without version) or noupdate
                let mut doc_apps = vec![];
                let mut order: Vec<usize> = (0..n_apps).collect();
                rng.shuffle(&mut order);
                let mut offered = 0;
                let mut sys_target: Option<String> = None;
                let mut pat = String::new();
                for &ai in &order {
                    let kind = match rng.below(4) {
                        0 => AppKind::NoUpdate,
                        1 => AppKind::OfferNoVersion,
                        _ => AppKind::Offer,
                    };
                    let id = if ai == sys_idx && rename_at.map(|r| k >= r).unwrap_or(false) { new_sys_id.clone() } else { apps[ai].id.clone() };
                    let mut da = doc_app(&id, kind, &mut rng, false);
                    if kind == AppKind::Offer {
                        let v = format!("{}.0.0.{}", 2 + rng.below(3), rng.below(3));
                        da.updatecheck = Some(UcSpec::ok(Some(&v)));
                        if ai == sys_idx {
                            sys_target = Some(v);
                        }
                    } else if kind == AppKind::OfferNoVersion && ai == sys_idx {
                        sys_target = Some("UNKNOWN".into());
                    }
                    if kind != AppKind::NoUpdate {
                        offered += 1;
                    }
                    pat.push(match kind { AppKind::Offer => 'O', AppKind::OfferNoVersion => 'o', _ => 'n' });
                    if ai == sys_idx {
                        pat.push('*');
                    }
                    doc_apps.push(da);
                }
                if offered == 0 {
                    doc_apps[0].updatecheck = Some(UcSpec::ok(Some("3.3.3.3")));
                    offered = 1;
                    if order[0] == sys_idx {
                        sys_target = Some("3.3.3.3".into());
                    }
                    pat.push('!');
                }
                let results: Vec<InstRes> = (0..offered).map(|_| *rng.pick(&[InstRes::Installed, InstRes::Installed, InstRes::Installed, InstRes::Deferred, InstRes::Failed])).collect();
                let clean = !results.iter().any(|x| *x == InstRes::Failed);
                if clean && sys_target.is_some() {
                    last_target = sys_target.clone();
                }
                let plan_id = format!("plan-{}", rng.below(2));
                lab.push_str(&format!("|{}:{}:{}", plan_id, pat, results.iter().map(|x| match x { InstRes::Installed => 'I', InstRes::Deferred => 'D', InstRes::Failed => 'F' }).collect::<String>()));
                script.checks.push(CheckScript {
                    attempts: vec![RespSpec::Reply(ReplySpec::ok(BodySpec::Doc(DocSpec { daystart: None, apps: doc_apps, wrap: 0 })))],
                    plan_id,
                    results,
                    progress: vec![0.5],
                    reboot_needed: rng.bool(),
                    // the device does not go down when asked to (it reaches the new version later, by other means)
                    reboot_fails: rng.chance(1, 5),
                    // a time sync arriving while the update is being downloaded
                    install_clock_step: if rng.chance(1, 5) {
                        lab.push_str("+sync");
                        Some(match rng.below(3) {
                            0 => (3_600_000_000_000, 20_000_000_000),
                            1 => (-1_800_000_000_000, 10_000_000_000),
                            _ => (86_400_000_000_000i128 * 3650, 5_000_000_000),
                        })
                    } else {
                        None
                    },
                    ..Default::default()
                });
                script.decisions.push(Decision::Ok(ParamsSnap::default_lib()));
            }
            let crash_at = if rng.chance(1, 3) { Some(rng.below(90)) } else { None };
            let jump = if k == 0 {
                (0, 0)
            } else {
                match rng.below(5) {
                    0 => (-3_600_000_000_000i128 * 24, 30_000_000_000i128), // wall clock set back a day
                    1 => (0, 1_000_000_000),
                    _ => (45_000_000_000 + rng.below(100) as i128 * 1_000_000_000, 45_000_000_000),
                }
            };
            lab.push_str(&format!("|crash={}|jump={}", crash_at.is_some(), if jump.0 < 0 { "back" } else if jump.0 == 0 { "none" } else { "fwd" }));
            shape.push(lab);
            let mut inc_apps = apps.clone();
            if rename_at.map(|r| k > r).unwrap_or(false) {
                inc_apps[sys_idx].id = new_sys_id.clone();
            }
            if rename_at == Some(k) {
                shape.push("rename".into());
            }
            let setup = Setup { apps: inc_apps, start_mode: true, os_version: os.clone(), cup: false, system_idx: sys_idx, ..Default::default() };
            incs.push(Inc { setup, stop_idle: attempts, crash_at, jump });
            // choose the next incarnation's running version
            os = match rng.below(3) {
                0 => "1.0.0.0".to_string(),
                _ => last_target.clone().unwrap_or_else(|| "1.0.0.0".to_string()),
            };
        }
        // ---- run
        let mut case = FlowCase::new(incs[0].setup.clone(), script);
        // a store that, for a while, refuses to write the first-seen record (either of its two entries)
        // a store one of whose commits fails (the writes stay pending and reach the disk with the next commit)
        // (such cases are judged by model_commit_fault only)
        // (kept off: whether the record survives ONE failing commit depends on how many commits the implementation
        // happens to make between the install and the reboot — the statement promises durability before the reboot
        // is attempted, not redundancy against a store that refuses a commit; judging it raised an alarm on the
        // behaviour-preserving control selftest/benign/c18_finish_time_committed_after_reboot_question)
        let commit_fault = false && rng.chance(1, 8);
        if commit_fault {
            case.fault.fail_commit_nth = vec![rng.below(14)];
            shape.push("commit-fault".into());
        }
        let faulty_first_seen = !commit_fault && rng.chance(1, 6);
        if faulty_first_seen {
            let from = rng.below(40);
            case.fault.fail_keys = vec![if rng.chance(1, 3) { "install_plan_id".to_string() } else { "update_first_seen_time".to_string() }];
            case.fault.fail_keys_window = Some((from, from + 1 + rng.below(25)));
            shape.push("first-seen-write-fault".into());
        }
        let w = make_world(&case);
        if autotick {
            lock(&w).autotick_ns = 250_000;
        }
        let mut setups = vec![];
        let mut panicked = None;
        let mut d: Option<Driver> = None;
        for (k, inc) in incs.iter().enumerate() {
            if k > 0 {
                if let Some(dd) = d.as_mut() {
                    if !dd.crashed() {
                        dd.crash_now();
                    }
                }
                d = None;
                {
                    let mut g = lock(&w);
                    g.wall_ns += inc.jump.0;
                    g.mono_ns += inc.jump.1;
                    let (wall, mono) = (g.wall_ns, g.mono_ns);
                    g.push(Ev::Clock { wall, mono });
                }
            }
            setups.push(inc.setup.clone());
            if let Some(c) = inc.crash_at {
                let mut g = lock(&w);
                g.crash_at = Some(g.interactions + c);
            }
            let mut dd = if k == 0 { Driver::new(&w, &inc.setup) } else { Driver::restart_keep_crash(&w, &inc.setup) };
            if rename_at == Some(k) && !dd.crashed() {
                dd.rename_system_app("beta", &new_sys_id);
            }
            let stop = inc.stop_idle;
            // run one extra policy question past the last Idle so that a pending report / clearing happens
            let base_next = lock(&w).n_next;
            // a wall clock that was set back may be corrected while the machine is running
            let mut correct_at: Option<usize> = if inc.jump.0 < 0 && rng.bool() { Some(base_next + 1 + rng.usize(2)) } else { None };
            let _ = dd.run(Sched::Fifo, &mut rng, |d| {
                let mut g = lock(&d.w);
                if let Some(at) = correct_at {
                    if g.n_next >= at {
                        g.wall_ns += 3_600_000_000_000i128 * 24 + 300_000_000_000;
                        g.mono_ns += 300_000_000_000;
                        let (wall, mono) = (g.wall_ns, g.mono_ns);
                        g.push(Ev::Clock { wall, mono });
                        correct_at = None;
                    }
                }
                let n_next = g.n_next;
                drop(g);
                d.count_state(&StateSnap::Idle) >= stop && n_next > base_next + stop
            });
            if dd.panicked.is_some() {
                panicked = dd.panicked.clone();
                d = Some(dd);
                break;
            }
            d = Some(dd);
        }
        let nontrivial = n_inc > 1 || shape.len() > 2;
        r.eval(crate::common::shape_of(&shape.iter().map(|s| s.as_str()).collect::<Vec<_>>()), nontrivial);
        let mut m = Mon::default();
        {
            let g = lock(&w);
            if commit_fault {
                // with a commit that fails once the book-keeping model above is not decided (the store may be
                // behind for a whole check); what the statement does decide is judged on the store alone
                model_commit_fault(&g.log, &mut m);
                r.count("cases-with-one-failing-commit", 1);
            } else {
                model(&g.log, &setups, !faulty_first_seen, commit_fault, &mut m);
            }
        }
        let desc = json!({"shape": shape, "autotick": autotick});
        if let Some(p) = &panicked {
            report_panic(r, args, i, p, &w, desc.clone());
        }
        if r.want_sample() && i % 40 == 11 {
            let g = lock(&w);
            r.sample(json!({"case": i, "shape": shape, "metrics": g.log.iter().filter_map(|x| match &x.ev {
                Ev::Metric(MetricSnap::WaitedForReboot(d)) => Some(format!("seq {} WaitedForReboot {} ns", x.seq, d)),
                Ev::Metric(MetricSnap::AttemptsToSuccessfulInstall { count, ok }) => Some(format!("seq {} AttemptsToSuccessfulInstall {} {}", x.seq, count, ok)),
                Ev::Metric(MetricSnap::SuccessfulUpdateFromFirstSeen(d)) => Some(format!("seq {} FromFirstSeen {} ns", x.seq, d)),
                Ev::Restart => Some(format!("seq {} RESTART", x.seq)),
                _ => None }).collect::<Vec<_>>()}));
        }
        absorb(r, args, i, m, &w, desc);
        drop(d);
    }
}
