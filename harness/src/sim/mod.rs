//! Environment doubles, event log, scheduler.
pub mod logsub;
