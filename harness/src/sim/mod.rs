//! Environment doubles, event log, scheduler.
pub mod doubles;
pub mod driver;
pub mod logsub;
pub mod omaha;
pub mod world;
