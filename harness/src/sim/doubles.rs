//! Environment doubles implementing the library's public traits.  Each records what crosses the
//! boundary into the world's log and answers from the world's script.  Gates sit only where the
//! real program can suspend (the trait futures).

use super::omaha;
use super::world::*;
use futures::future::{BoxFuture, LocalBoxFuture};
use futures::prelude::*;
use omaha_client::common::{App, CheckOptions, CheckTiming, ProtocolState, UpdateCheckSchedule};
use omaha_client::cup_ecdsa::RequestMetadata;
use omaha_client::http_request::{self, mock_errors, HttpRequest};
use omaha_client::installer::{AppInstallResult, Installer, Plan, ProgressObserver};
use omaha_client::metrics::{ClockType, Metrics, MetricsReporter};
use omaha_client::policy::{CheckDecision, PolicyEngine, UpdateDecision};
use omaha_client::protocol::request::InstallSource;
use omaha_client::protocol::response::{OmahaStatus, Response};
use omaha_client::request_builder::RequestParams;
use omaha_client::storage::Storage;
use omaha_client::time::{ComplexTime, PartialComplexTime, TimeSource, Timer};
use serde_json::Value;
use std::pin::Pin;
use std::task::{Context, Poll};
use std::time::{Duration, Instant, SystemTime};

// ---------------------------------------------------------------------------------------------
// Gate future

pub struct GateFut {
    w: W,
    id: usize,
    done: bool,
}
impl GateFut {
    pub fn new(w: &W, kind: GateKind) -> (usize, GateFut) {
        let id = lock(w).new_gate(kind);
        (id, GateFut { w: w.clone(), id, done: false })
    }
}
impl Future for GateFut {
    type Output = ();
    fn poll(mut self: Pin<&mut Self>, cx: &mut Context<'_>) -> Poll<()> {
        let id = self.id;
        let mut w = lock(&self.w);
        let g = &mut w.gates[id];
        match g.state {
            GateState::Released | GateState::Consumed => {
                g.state = GateState::Consumed;
                g.waker = None;
                drop(w);
                self.done = true;
                Poll::Ready(())
            }
            _ => {
                g.waker = Some(cx.waker().clone());
                // one poll of the state machine that keeps re-polling a pending environment future makes no
                // progress: it spins inside the poll (the executor never gets control back)
                w.pending_polls_in_poll += 1;
                if w.in_poll && w.pending_polls_in_poll > 100_000 {
                    w.pending_polls_in_poll = 0;
                    drop(w);
                    panic!("harness watchdog: a pending environment future (gate {}) was polled more than 100000 times within one poll of the state machine: the task spins without yielding", id);
                }
                Poll::Pending
            }
        }
    }
}
impl Drop for GateFut {
    fn drop(&mut self) {
        if !self.done {
            let mut w = lock(&self.w);
            let id = self.id;
            let was_pending = w.gates[id].state == GateState::Pending;
            w.gates[id].state = GateState::Dropped;
            w.gates[id].waker = None;
            if was_pending {
                if let GateKind::Timer(_) = w.gates[id].kind {
                    w.push(Ev::TimerDrop { id });
                }
            }
        }
    }
}

fn never<T: Send + 'static>() -> BoxFuture<'static, T> {
    future::pending().boxed()
}

// ---------------------------------------------------------------------------------------------
// Clock

#[derive(Clone)]
pub struct SimClock {
    pub w: W,
}
impl TimeSource for SimClock {
    fn now_in_walltime(&self) -> SystemTime {
        ns_to_wall(lock(&self.w).read_clock().0)
    }
    fn now_in_monotonic(&self) -> Instant {
        ns_to_mono(lock(&self.w).read_clock().1)
    }
    fn now(&self) -> ComplexTime {
        let (wall, mono) = lock(&self.w).read_clock();
        ComplexTime { wall: ns_to_wall(wall), mono: ns_to_mono(mono) }
    }
}

// ---------------------------------------------------------------------------------------------
// Timer

pub struct SimTimer {
    pub w: W,
}
impl SimTimer {
    fn arm(&mut self, spec: TimerSpec) -> BoxFuture<'static, ()> {
        {
            let mut w = lock(&self.w);
            if w.interact() {
                return never();
            }
        }
        let (id, gate) = GateFut::new(&self.w, GateKind::Timer(spec));
        let mut g = lock(&self.w);
        g.push(Ev::TimerArm { id, spec });
        if g.script.until_timers_ready && matches!(spec, TimerSpec::Until(_)) {
            g.gates[id].state = GateState::Released;
            g.push(Ev::TimerFire { id });
        }
        drop(g);
        gate.boxed()
    }
}
impl Timer for SimTimer {
    fn wait_until(&mut self, time: impl Into<PartialComplexTime>) -> BoxFuture<'static, ()> {
        let t: PartialComplexTime = time.into();
        self.arm(TimerSpec::Until(Pct::of(t)))
    }
    fn wait_for(&mut self, duration: Duration) -> BoxFuture<'static, ()> {
        self.arm(TimerSpec::For(duration.as_nanos()))
    }
}

// ---------------------------------------------------------------------------------------------
// HTTP

pub struct SimHttp {
    pub w: W,
}
impl HttpRequest for SimHttp {
    fn request(
        &mut self,
        req: hyper::Request<hyper::Body>,
    ) -> BoxFuture<'_, Result<hyper::Response<Vec<u8>>, http_request::Error>> {
        let w = self.w.clone();
        async move {
            let (parts, body) = req.into_parts();
            let body = hyper::body::to_bytes(body).await.map(|b| b.to_vec()).unwrap_or_default();
            let prepared = (|| {
                let mut g = lock(&w);
                if g.interact() {
                    return None;
                }
                let idx = g.n_http;
                g.n_http += 1;
                let uri = parts.uri.to_string();
                let json: Value = serde_json::from_slice(&body).unwrap_or(Value::Null);
                let kind = omaha::classify(&json);
                let session = omaha::req_str(&json, "sessionid");
                let request_id = omaha::req_str(&json, "requestid");
                let headers: Vec<(String, Vec<u8>)> =
                    parts.headers.iter().map(|(k, v)| (k.as_str().to_string(), v.as_bytes().to_vec())).collect();
                g.push(Ev::HttpReq {
                    idx,
                    uri: uri.clone(),
                    method: parts.method.as_str().to_string(),
                    headers,
                    body: body.clone(),
                    json: json.clone(),
                    kind,
                    session: session.clone(),
                    request_id,
                });
                let mock = g.mock.clone();
                let delivered = if mock.is_some() { Delivered::Transport } else { omaha::answer(&mut g, &uri, &body, &json, kind, &session) };
                let gid = g.new_gate(GateKind::Http(idx));
                Some((idx, GateFut { w: w.clone(), id: gid, done: false }, delivered, mock))
            })();
            let (idx, gate, mut delivered, mock) = match prepared {
                Some(x) => x,
                None => return future::pending().await,
            };
            if let Some(server) = mock {
                // origin-form request to the in-process mock server
                let pq = parts.uri.path_and_query().map(|p| p.as_str().to_string()).unwrap_or_else(|| "/".into());
                let mut b = hyper::Request::builder().method(parts.method.clone()).uri(pq);
                for (k, v) in parts.headers.iter() {
                    b = b.header(k, v);
                }
                let req = b.body(hyper::Body::from(body.clone())).expect("mock request");
                delivered = match mock_omaha_server::handle_request(req, &server).await {
                    Ok(resp) => {
                        let (rp, rb) = resp.into_parts();
                        let rbody = hyper::body::to_bytes(rb).await.map(|b| b.to_vec()).unwrap_or_default();
                        let headers = rp.headers.iter().map(|(k, v)| (k.as_str().to_string(), v.as_bytes().to_vec())).collect();
                        Delivered::Reply { status: rp.status.as_u16(), headers, body: rbody, authentic: true, etag_kind: "mock".into(), doc: None }
                    }
                    Err(_) => Delivered::Transport,
                };
            }
            gate.await;
            {
                let mut g = lock(&w);
                if let Some(p) = g.script.http_wall_steps.iter().position(|x| x.0 == idx) {
                    let d = g.script.http_wall_steps.remove(p).1;
                    g.wall_ns += d;
                    let (wall, mono) = (g.wall_ns, g.mono_ns);
                    g.push(Ev::Clock { wall, mono });
                }
            }
            lock(&w).push(Ev::HttpResp { idx, delivered: delivered.clone() });
            match delivered {
                Delivered::Transport => Err(mock_errors::make_transport_error()),
                Delivered::Timeout => Err(http_request::Error::new_timeout()),
                Delivered::User => Err(mock_errors::make_user_error()),
                Delivered::Reply { status, headers, body, .. } => {
                    let mut b = hyper::Response::builder().status(status);
                    for (k, v) in headers {
                        if let (Ok(name), Ok(val)) = (
                            hyper::header::HeaderName::from_bytes(k.as_bytes()),
                            hyper::header::HeaderValue::from_bytes(&v),
                        ) {
                            b = b.header(name, val);
                        }
                    }
                    Ok(b.body(body).expect("sim response"))
                }
            }
        }
        .boxed()
    }
}

// ---------------------------------------------------------------------------------------------
// Policy

#[derive(Debug, Clone)]
pub struct SimPlan {
    pub id: String,
    pub offered: usize,
    pub check: usize,
}
impl Plan for SimPlan {
    fn id(&self) -> String {
        self.id.clone()
    }
}

pub struct SimPolicy {
    pub w: W,
    pub clock: SimClock,
}

fn maybe_gate<T: Send + 'static>(w: &W, gated: bool, name: &'static str, v: T) -> BoxFuture<'static, T> {
    if gated {
        let (_, gate) = GateFut::new(w, GateKind::Policy(name));
        async move {
            gate.await;
            v
        }
        .boxed()
    } else {
        future::ready(v).boxed()
    }
}

impl PolicyEngine for SimPolicy {
    type TimeSource = SimClock;
    type InstallResult = u32;
    type InstallPlan = SimPlan;

    fn time_source(&self) -> &SimClock {
        &self.clock
    }

    fn compute_next_update_time<'a>(
        &'a mut self,
        apps: &'a [App],
        scheduling: &'a UpdateCheckSchedule,
        protocol_state: &'a ProtocolState,
    ) -> BoxFuture<'a, CheckTiming> {
        let mut w = lock(&self.w);
        if w.interact() {
            return never();
        }
        let i = w.n_next;
        w.n_next += 1;
        let spec = pick(&w.script.timings, i, TimingSpec::default());
        let off = spec.offset_s as i128 * 1_000_000_000;
        let time = match spec.kind {
            TimeKind::Wall => Pct::Wall(w.wall_ns + off),
            TimeKind::Mono => Pct::Mono(w.mono_ns + off),
            TimeKind::Both => Pct::Both(w.wall_ns + off, w.mono_ns + off),
        };
        let (time, min_wait_s) = match (&w.last_timing, spec.same_as_previous) {
            (Some(prev), true) => prev.clone(),
            _ => (time, spec.min_wait_s),
        };
        w.last_timing = Some((time.clone(), min_wait_s));
        // built the way a policy implementation would (through the type's builder), logged as intended
        let timing = match min_wait_s {
            Some(s) => CheckTiming::builder().time(time.to_lib()).minimum_wait(Duration::from_secs(s)).build(),
            None => CheckTiming::builder().time(time.to_lib()).build(),
        };
        w.push(Ev::PolicyNext {
            apps: apps.iter().map(AppSnap::of).collect(),
            sched: SchedSnap::of(scheduling),
            proto: ProtoSnap::of(protocol_state),
            answer: TimingSnap { time, min_wait_ns: min_wait_s.map(|s| s as u128 * 1_000_000_000) },
        });
        let gated = w.script.gated.policy;
        drop(w);
        maybe_gate(&self.w, gated, "next", timing)
    }

    fn update_check_allowed<'a>(
        &'a mut self,
        apps: &'a [App],
        scheduling: &'a UpdateCheckSchedule,
        protocol_state: &'a ProtocolState,
        check_options: &'a CheckOptions,
    ) -> BoxFuture<'a, CheckDecision> {
        let mut w = lock(&self.w);
        if w.interact() {
            return never();
        }
        let i = w.n_allowed;
        w.n_allowed += 1;
        let d = pick(&w.script.decisions, i, Decision::Ok(ParamsSnap::default_lib()));
        w.push(Ev::PolicyCheckAllowed {
            apps: apps.iter().map(AppSnap::of).collect(),
            sched: SchedSnap::of(scheduling),
            proto: ProtoSnap::of(protocol_state),
            on_demand: check_options.source == InstallSource::OnDemand,
            answer: d,
        });
        let ans = match d {
            Decision::Ok(p) => CheckDecision::Ok(p.to_lib()),
            Decision::OkDeferred(p) => CheckDecision::OkUpdateDeferred(p.to_lib()),
            Decision::TooSoon => CheckDecision::TooSoon,
            Decision::Throttled => CheckDecision::ThrottledByPolicy,
            Decision::Denied => CheckDecision::DeniedByPolicy,
        };
        let gated = w.script.gated.policy;
        drop(w);
        maybe_gate(&self.w, gated, "allowed", ans)
    }

    fn update_can_start<'a>(&'a mut self, plan: &'a SimPlan) -> BoxFuture<'a, UpdateDecision> {
        let mut w = lock(&self.w);
        if w.interact() {
            return never();
        }
        let d = w.script.checks.get(plan.check).map(|c| c.can_start).unwrap_or(UpdDec::Ok);
        w.push(Ev::PolicyCanStart { plan_id: plan.id.clone(), answer: d });
        let ans = match d {
            UpdDec::Ok => UpdateDecision::Ok,
            UpdDec::Deferred => UpdateDecision::DeferredByPolicy,
            UpdDec::Denied => UpdateDecision::DeniedByPolicy,
        };
        let gated = w.script.gated.policy;
        drop(w);
        maybe_gate(&self.w, gated, "canstart", ans)
    }

    fn reboot_allowed<'a>(&'a mut self, check_options: &'a CheckOptions, token: &'a u32) -> BoxFuture<'a, bool> {
        let mut w = lock(&self.w);
        if w.interact() {
            return never();
        }
        let check = *token as usize;
        let i = *w.reboot_allowed_calls.get(&check).unwrap_or(&0);
        w.reboot_allowed_calls.insert(check, i + 1);
        let a = w.script.checks.get(check).and_then(|c| c.reboot_allowed.get(i).copied()).unwrap_or(true);
        w.push(Ev::PolicyRebootAllowed { on_demand: check_options.source == InstallSource::OnDemand, answer: a });
        let gated = w.script.gated.policy;
        drop(w);
        maybe_gate(&self.w, gated, "rebootallowed", a)
    }

    fn reboot_needed<'a>(&'a mut self, plan: &'a SimPlan) -> BoxFuture<'a, bool> {
        let mut w = lock(&self.w);
        if w.interact() {
            return never();
        }
        let a = w.script.checks.get(plan.check).map(|c| c.reboot_needed).unwrap_or(false);
        w.push(Ev::PolicyRebootNeeded { plan_id: plan.id.clone(), answer: a });
        let gated = w.script.gated.policy;
        drop(w);
        maybe_gate(&self.w, gated, "rebootneeded", a)
    }
}

// ---------------------------------------------------------------------------------------------
// Installer

#[derive(Debug, thiserror::Error)]
#[error("sim installer error: {0}")]
pub struct SimErr(pub String);

pub struct SimInstaller {
    pub w: W,
}

impl Installer for SimInstaller {
    type InstallPlan = SimPlan;
    type InstallResult = u32;
    type Error = SimErr;

    fn perform_install<'a>(
        &'a mut self,
        plan: &'a SimPlan,
        observer: Option<&'a dyn ProgressObserver>,
    ) -> LocalBoxFuture<'a, (u32, Vec<AppInstallResult<SimErr>>)> {
        let w = self.w.clone();
        async move {
            let (progress, results, gated, token, detach, clock_step) = {
                let mut g = lock(&w);
                if g.interact() {
                    drop(g);
                    return future::pending().await;
                }
                g.n_install += 1;
                g.push(Ev::InstallStart { plan_id: plan.id.clone() });
                let cs = g.script.checks.get(plan.check).cloned().unwrap_or_default();
                let mut results = cs.results.clone();
                results.resize(plan.offered, InstRes::Installed);
                (cs.progress, results, g.script.gated.install, plan.check as u32, (cs.detach_last_progress, cs.detach_all_progress), cs.install_clock_step)
            };
            let n_progress = progress.len();
            for (pi, p) in progress.into_iter().enumerate() {
                if gated {
                    let (_, gate) = GateFut::new(&w, GateKind::Install("step"));
                    gate.await;
                }
                lock(&w).push(Ev::ProgressSent(p.to_bits()));
                if detach.1 || (detach.0 && pi + 1 == n_progress) {
                    // fire and forget: the value is handed over, the report future is dropped
                    if let Some(o) = observer {
                        let mut f = o.receive_progress(None, p, None, None);
                        let _ = futures::poll!(&mut f);
                    }
                    continue;
                }
                if let Some(o) = observer {
                    o.receive_progress(None, p, None, None).await;
                }
                lock(&w).push(Ev::ProgressReturned(p.to_bits()));
            }
            if gated {
                let (_, gate) = GateFut::new(&w, GateKind::Install("finish"));
                gate.await;
            }
            {
                let mut g = lock(&w);
                if g.interact() {
                    drop(g);
                    return future::pending().await;
                }
                if let Some((dw, dm)) = clock_step {
                    g.wall_ns += dw;
                    g.mono_ns += dm;
                    let (wall, mono) = (g.wall_ns, g.mono_ns);
                    g.push(Ev::Clock { wall, mono });
                }
                g.push(Ev::InstallDone { results: results.clone() });
            }
            let out = results
                .iter()
                .enumerate()
                .map(|(i, r)| match r {
                    InstRes::Installed => AppInstallResult::Installed,
                    InstRes::Deferred => AppInstallResult::Deferred,
                    InstRes::Failed => AppInstallResult::Failed(SimErr(format!("app#{} failed", i))),
                })
                .collect();
            (token, out)
        }
        .boxed_local()
    }

    fn perform_reboot(&mut self) -> LocalBoxFuture<'_, Result<(), anyhow::Error>> {
        let w = self.w.clone();
        async move {
            let (gated, fails) = {
                let mut g = lock(&w);
                if g.interact() {
                    drop(g);
                    return future::pending().await;
                }
                g.push(Ev::Reboot);
                let check = g.sessions.len().saturating_sub(1);
                let fails = g.script.checks.get(check).map(|c| c.reboot_fails).unwrap_or(false);
                (g.script.gated.reboot, fails)
            };
            if gated {
                let (_, gate) = GateFut::new(&w, GateKind::Reboot);
                gate.await;
            }
            if fails {
                Err(anyhow::anyhow!("reboot was refused by the platform"))
            } else {
                Ok(())
            }
        }
        .boxed_local()
    }

    fn try_create_install_plan<'a>(
        &'a self,
        request_params: &'a RequestParams,
        request_metadata: Option<&'a RequestMetadata>,
        response: &'a Response,
        response_bytes: Vec<u8>,
        ecdsa_signature: Option<Vec<u8>>,
    ) -> LocalBoxFuture<'a, Result<SimPlan, SimErr>> {
        let w = self.w.clone();
        async move {
            let (ans, gated) = {
                let mut g = lock(&w);
                if g.interact() {
                    drop(g);
                    return future::pending().await;
                }
                g.n_plan += 1;
                // the plan belongs to the most recent update-check session
                let check = g.sessions.len().saturating_sub(1);
                let cs = g.script.checks.get(check).cloned().unwrap_or_default();
                let offered = response
                    .apps
                    .iter()
                    .filter(|a| matches!(a.update_check.as_ref().map(|u| &u.status), Some(OmahaStatus::Ok)))
                    .count();
                let ans = if cs.plan_ok {
                    Ok(SimPlan { id: cs.plan_id.clone(), offered, check })
                } else {
                    Err(SimErr("cannot create plan".into()))
                };
                g.push(Ev::PlanCreate {
                    params: ParamsSnap::of(request_params),
                    meta: request_metadata.map(|m| MetaSnap {
                        body: m.request_body.clone(),
                        key_id: m.public_key_id,
                        nonce_hex: { let b: [u8; 32] = m.nonce.into(); hex::encode(b) },
                    }),
                    response: Box::new(response.clone()),
                    bytes: response_bytes,
                    signature: ecdsa_signature,
                    answer: ans.as_ref().map(|p| p.id.clone()).map_err(|e| e.0.clone()),
                });
                (ans, g.script.gated.plan)
            };
            if gated {
                let (_, gate) = GateFut::new(&w, GateKind::Plan);
                gate.await;
            }
            ans
        }
        .boxed_local()
    }
}

// ---------------------------------------------------------------------------------------------
// Metrics

pub struct SimMetrics {
    pub w: W,
}
impl MetricsReporter for SimMetrics {
    fn report_metrics(&mut self, m: Metrics) -> Result<(), anyhow::Error> {
        let snap = match m {
            Metrics::UpdateCheckResponseTime { response_time, successful } => {
                MetricSnap::ResponseTime { ns: response_time.as_nanos(), ok: successful }
            }
            Metrics::UpdateCheckInterval { interval, clock, install_source } => MetricSnap::CheckInterval {
                ns: interval.as_nanos(),
                mono: clock == ClockType::Monotonic,
                on_demand: install_source == InstallSource::OnDemand,
            },
            Metrics::SuccessfulUpdateDuration(d) => MetricSnap::SuccessfulUpdateDuration(d.as_nanos()),
            Metrics::SuccessfulUpdateFromFirstSeen(d) => MetricSnap::SuccessfulUpdateFromFirstSeen(d.as_nanos()),
            Metrics::FailedUpdateDuration(d) => MetricSnap::FailedUpdateDuration(d.as_nanos()),
            Metrics::UpdateCheckFailureReason(r) => MetricSnap::FailureReason(format!("{:?}", r)),
            Metrics::RequestsPerCheck { count, successful } => MetricSnap::RequestsPerCheck { count, ok: successful },
            Metrics::AttemptsToSuccessfulCheck(n) => MetricSnap::AttemptsToSuccessfulCheck(n),
            Metrics::AttemptsToSuccessfulInstall { count, successful } => {
                MetricSnap::AttemptsToSuccessfulInstall { count, ok: successful }
            }
            Metrics::WaitedForRebootDuration(d) => MetricSnap::WaitedForReboot(d.as_nanos()),
            Metrics::FailedBootAttempts(n) => MetricSnap::FailedBootAttempts(n),
            Metrics::OmahaEventLost(e) => MetricSnap::EventLost(serde_json::to_value(&e).unwrap_or(Value::Null)),
        };
        let mut w = lock(&self.w);
        if w.crashed {
            return Ok(());
        }
        w.push(Ev::Metric(snap));
        if w.script.metrics_fail {
            Err(anyhow::anyhow!("metrics sink unavailable"))
        } else {
            Ok(())
        }
    }
}

// ---------------------------------------------------------------------------------------------
// Storage: committed map + pending overlay; reads see overlay then committed.

#[derive(Debug, thiserror::Error)]
#[error("sim storage failure: {0}")]
pub struct StorageErr(pub &'static str);

pub struct SimStorage {
    pub w: W,
}

impl SimStorage {
    fn get(&self, key: &str, ty: &'static str) -> Option<Val> {
        let mut w = lock(&self.w);
        if w.interact() {
            // the caller is dead; what we return is never used for anything observable
            return None;
        }
        let v = w.storage.read(key);
        let v = match (&v, ty) {
            (Some(Val::S(_)), "string") | (Some(Val::I(_)), "int") | (Some(Val::B(_)), "bool") => v,
            _ => None,
        };
        w.push(Ev::StorageGet { key: key.to_string(), ty, result: v.clone() });
        v
    }
    fn set(&mut self, key: &str, value: Val) -> Result<(), StorageErr> {
        let mut w = lock(&self.w);
        if w.interact() {
            return Ok(());
        }
        let started = w.sessions.len();
        let fail = w.storage.next_key_op_fails(key, started);
        if !fail {
            w.storage.pending.insert(key.to_string(), Some(value.clone()));
        }
        w.push(Ev::StorageSet { key: key.to_string(), value, ok: !fail });
        if fail {
            Err(StorageErr("set"))
        } else {
            Ok(())
        }
    }
}

/// A future that is pending forever if the world has crashed, else ready with `v`.
fn dead_or<T: Send + 'static>(w: &W, v: T) -> BoxFuture<'static, T> {
    if lock(w).crashed {
        never()
    } else {
        future::ready(v).boxed()
    }
}

impl Storage for SimStorage {
    type Error = StorageErr;

    fn get_string<'a>(&'a self, key: &'a str) -> BoxFuture<'a, Option<String>> {
        let v = self.get(key, "string").and_then(|v| if let Val::S(s) = v { Some(s) } else { None });
        dead_or(&self.w, v)
    }
    fn get_int<'a>(&'a self, key: &'a str) -> BoxFuture<'a, Option<i64>> {
        let v = self.get(key, "int").and_then(|v| if let Val::I(s) = v { Some(s) } else { None });
        dead_or(&self.w, v)
    }
    fn get_bool<'a>(&'a self, key: &'a str) -> BoxFuture<'a, Option<bool>> {
        let v = self.get(key, "bool").and_then(|v| if let Val::B(s) = v { Some(s) } else { None });
        dead_or(&self.w, v)
    }
    fn set_string<'a>(&'a mut self, key: &'a str, value: &'a str) -> BoxFuture<'a, Result<(), StorageErr>> {
        let r = self.set(key, Val::S(value.to_string()));
        dead_or(&self.w, r)
    }
    fn set_int<'a>(&'a mut self, key: &'a str, value: i64) -> BoxFuture<'a, Result<(), StorageErr>> {
        let r = self.set(key, Val::I(value));
        dead_or(&self.w, r)
    }
    fn set_bool<'a>(&'a mut self, key: &'a str, value: bool) -> BoxFuture<'a, Result<(), StorageErr>> {
        let r = self.set(key, Val::B(value));
        dead_or(&self.w, r)
    }
    fn remove<'a>(&'a mut self, key: &'a str) -> BoxFuture<'a, Result<(), StorageErr>> {
        let r = {
            let mut w = lock(&self.w);
            if w.interact() {
                Ok(())
            } else {
                let started = w.sessions.len();
        let fail = w.storage.next_key_op_fails(key, started);
                if !fail {
                    w.storage.pending.insert(key.to_string(), None);
                }
                w.push(Ev::StorageRemove { key: key.to_string(), ok: !fail });
                if fail {
                    Err(StorageErr("remove"))
                } else {
                    Ok(())
                }
            }
        };
        dead_or(&self.w, r)
    }
    fn commit(&mut self) -> BoxFuture<'_, Result<(), StorageErr>> {
        let r = {
            let mut w = lock(&self.w);
            if w.interact() {
                Ok(())
            } else {
                let fail = w.storage.next_commit_fails();
                if !fail {
                    w.storage.apply_commit();
                }
                let snapshot = w.storage.committed.clone();
                w.push(Ev::Commit { ok: !fail, snapshot });
                if fail {
                    Err(StorageErr("commit"))
                } else {
                    Ok(())
                }
            }
        };
        dead_or(&self.w, r)
    }
}
