//! The shared world: one totally ordered event log, gates, virtual clock, storage state,
//! environment script.  Everything the library does at a trait boundary is recorded here.

use serde_json::Value;
use std::collections::BTreeMap;
use std::sync::{Arc, Mutex, MutexGuard, OnceLock};
use std::task::Waker;
use std::time::{Duration, Instant, SystemTime};

use omaha_client::common::{App, CheckTiming, ProtocolState, UpdateCheckSchedule, UserCounting};
use omaha_client::protocol::request::InstallSource;
use omaha_client::request_builder::RequestParams;
use omaha_client::time::PartialComplexTime;

pub type W = Arc<Mutex<World>>;

pub fn lock(w: &W) -> MutexGuard<'_, World> {
    w.lock().unwrap_or_else(|e| e.into_inner())
}

/// Base instant for the virtual monotonic clock (process-wide).
pub fn mono_base() -> Instant {
    static BASE: OnceLock<Instant> = OnceLock::new();
    // keep head-room so that small subtractions never underflow the platform Instant
    *BASE.get_or_init(|| Instant::now() + Duration::from_secs(1_000_000))
}

pub fn wall_to_ns(t: SystemTime) -> i128 {
    match t.duration_since(SystemTime::UNIX_EPOCH) {
        Ok(d) => d.as_nanos() as i128,
        Err(e) => -(e.duration().as_nanos() as i128),
    }
}
pub fn ns_to_wall(ns: i128) -> SystemTime {
    if ns >= 0 {
        SystemTime::UNIX_EPOCH + Duration::new((ns / 1_000_000_000) as u64, (ns % 1_000_000_000) as u32)
    } else {
        let m = -ns;
        SystemTime::UNIX_EPOCH - Duration::new((m / 1_000_000_000) as u64, (m % 1_000_000_000) as u32)
    }
}
pub fn mono_to_ns(t: Instant) -> i128 {
    let b = mono_base();
    if t >= b {
        t.duration_since(b).as_nanos() as i128
    } else {
        -(b.duration_since(t).as_nanos() as i128)
    }
}
pub fn ns_to_mono(ns: i128) -> Instant {
    let b = mono_base();
    if ns >= 0 {
        b + Duration::new((ns / 1_000_000_000) as u64, (ns % 1_000_000_000) as u32)
    } else {
        let m = -ns;
        b - Duration::new((m / 1_000_000_000) as u64, (m % 1_000_000_000) as u32)
    }
}

// ---------------------------------------------------------------------------------------------
// Snapshots of library values (owned, comparable, printable)

#[derive(Clone, Debug, PartialEq, Eq)]
pub struct AppSnap {
    pub id: String,
    pub version: String,
    pub fingerprint: Option<String>,
    pub cohort: [Option<String>; 3], // id, hint, name
    pub day: Option<u32>,
}
impl AppSnap {
    pub fn of(a: &App) -> Self {
        let UserCounting::ClientRegulatedByDate(day) = a.user_counting.clone();
        AppSnap {
            id: a.id.clone(),
            version: a.version.to_string(),
            fingerprint: a.fingerprint.clone(),
            cohort: [a.cohort.id.clone(), a.cohort.hint.clone(), a.cohort.name.clone()],
            day,
        }
    }
}

#[derive(Clone, Copy, Debug, PartialEq, Eq)]
pub enum Pct {
    Wall(i128),
    Mono(i128),
    Both(i128, i128),
}
impl Pct {
    pub fn of(p: PartialComplexTime) -> Self {
        match p {
            PartialComplexTime::Wall(w) => Pct::Wall(wall_to_ns(w)),
            PartialComplexTime::Monotonic(m) => Pct::Mono(mono_to_ns(m)),
            PartialComplexTime::Complex(c) => Pct::Both(wall_to_ns(c.wall), mono_to_ns(c.mono)),
        }
    }
    pub fn to_lib(self) -> PartialComplexTime {
        match self {
            Pct::Wall(w) => PartialComplexTime::Wall(ns_to_wall(w)),
            Pct::Mono(m) => PartialComplexTime::Monotonic(ns_to_mono(m)),
            Pct::Both(w, m) => PartialComplexTime::Complex((ns_to_wall(w), ns_to_mono(m)).into()),
        }
    }
    pub fn wall(self) -> Option<i128> {
        match self {
            Pct::Wall(w) | Pct::Both(w, _) => Some(w),
            _ => None,
        }
    }
    pub fn mono(self) -> Option<i128> {
        match self {
            Pct::Mono(m) | Pct::Both(_, m) => Some(m),
            _ => None,
        }
    }
}

#[derive(Clone, Copy, Debug, PartialEq, Eq)]
pub struct TimingSnap {
    pub time: Pct,
    pub min_wait_ns: Option<u128>,
}
impl TimingSnap {
    pub fn of(t: &CheckTiming) -> Self {
        TimingSnap { time: Pct::of(t.time), min_wait_ns: t.minimum_wait.map(|d| d.as_nanos()) }
    }
}

#[derive(Clone, Copy, Debug, PartialEq, Eq)]
pub struct SchedSnap {
    pub last_update_time: Option<Pct>,
    pub last_check_time: Option<Pct>,
    pub next: Option<TimingSnap>,
}
impl SchedSnap {
    pub fn of(s: &UpdateCheckSchedule) -> Self {
        SchedSnap {
            last_update_time: s.last_update_time.map(Pct::of),
            last_check_time: s.last_update_check_time.map(Pct::of),
            next: s.next_update_time.as_ref().map(TimingSnap::of),
        }
    }
}

#[derive(Clone, Copy, Debug, PartialEq, Eq)]
pub struct ProtoSnap {
    pub poll_ns: Option<u128>,
    pub failed: u32,
    pub proxied: u32,
}
impl ProtoSnap {
    pub fn of(p: &ProtocolState) -> Self {
        ProtoSnap {
            poll_ns: p.server_dictated_poll_interval.map(|d| d.as_nanos()),
            failed: p.consecutive_failed_update_checks,
            proxied: p.consecutive_proxied_requests,
        }
    }
}

#[derive(Clone, Copy, Debug, PartialEq, Eq, Hash, PartialOrd, Ord)]
pub struct ParamsSnap {
    pub on_demand: bool,
    pub proxies: bool,
    pub disable: bool,
    pub same_version: bool,
}
impl ParamsSnap {
    pub fn of(p: &RequestParams) -> Self {
        ParamsSnap {
            on_demand: p.source == InstallSource::OnDemand,
            proxies: p.use_configured_proxies,
            disable: p.disable_updates,
            same_version: p.offer_update_if_same_version,
        }
    }
    pub fn to_lib(self) -> RequestParams {
        RequestParams {
            source: if self.on_demand { InstallSource::OnDemand } else { InstallSource::ScheduledTask },
            use_configured_proxies: self.proxies,
            disable_updates: self.disable,
            offer_update_if_same_version: self.same_version,
        }
    }
    pub fn default_lib() -> Self {
        ParamsSnap::of(&RequestParams::default())
    }
}

#[derive(Clone, Copy, Debug, PartialEq, Eq, Hash)]
pub enum Decision {
    Ok(ParamsSnap),
    OkDeferred(ParamsSnap),
    TooSoon,
    Throttled,
    Denied,
}
impl Decision {
    pub fn params(self) -> Option<ParamsSnap> {
        match self {
            Decision::Ok(p) | Decision::OkDeferred(p) => Some(p),
            _ => None,
        }
    }
}

#[derive(Clone, Copy, Debug, PartialEq, Eq, Hash)]
pub enum UpdDec {
    Ok,
    Deferred,
    Denied,
}

#[derive(Clone, Copy, Debug, PartialEq, Eq, Hash)]
pub enum InstRes {
    Installed,
    Deferred,
    Failed,
}

#[derive(Clone, Copy, Debug, PartialEq, Eq, Hash)]
pub enum ReqKind {
    UpdateCheck,
    Event,
    Ping,
    Other,
}

#[derive(Clone, Copy, Debug, PartialEq, Eq)]
pub enum TimerSpec {
    Until(Pct),
    For(u128), // ns
}

#[derive(Clone, Debug, PartialEq)]
pub enum Val {
    S(String),
    I(i64),
    B(bool),
}

#[derive(Clone, Debug, PartialEq)]
pub enum StateSnap {
    Idle,
    Checking(bool), // on_demand
    ErrorChecking,
    NoUpdate,
    Deferred,
    Installing,
    WaitingForReboot,
    InstallationError,
}

#[derive(Clone, Debug, PartialEq)]
pub struct AppRespSnap {
    pub app_id: String,
    pub cohort: [Option<String>; 3],
    pub day: Option<u32>,
    pub action: String,
}

#[derive(Clone, Debug, PartialEq)]
pub enum EvSnap {
    State(StateSnap),
    Schedule(SchedSnap),
    Proto(ProtoSnap),
    Result(Result<Vec<AppRespSnap>, String>),
    Progress(u32), // f32 bits
    Response(Box<omaha_client::protocol::response::Response>),
    InstallerError(String),
}

#[derive(Clone, Debug, PartialEq)]
pub enum MetricSnap {
    ResponseTime { ns: u128, ok: bool },
    CheckInterval { ns: u128, mono: bool, on_demand: bool },
    SuccessfulUpdateDuration(u128),
    SuccessfulUpdateFromFirstSeen(u128),
    FailedUpdateDuration(u128),
    FailureReason(String),
    RequestsPerCheck { count: u64, ok: bool },
    AttemptsToSuccessfulCheck(u64),
    AttemptsToSuccessfulInstall { count: u64, ok: bool },
    WaitedForReboot(u128),
    FailedBootAttempts(u64),
    EventLost(Value),
}

#[derive(Clone, Debug, PartialEq)]
pub struct MetaSnap {
    pub body: Vec<u8>,
    pub key_id: u64,
    pub nonce_hex: String,
}

/// What the fake server decided to answer (kept for the monitors: the harness knows the truth).
#[derive(Clone, Debug, PartialEq)]
pub enum Delivered {
    Transport,
    Timeout,
    User,
    Reply {
        status: u16,
        headers: Vec<(String, Vec<u8>)>,
        body: Vec<u8>,
        /// With CUP on: does the response carry an authentic signature for THIS exchange?
        authentic: bool,
        /// Label of the forgery kind (or "authentic" / "nocup").
        etag_kind: String,
        /// The document the body was rendered from (None: raw bytes that are not a response document).
        doc: Option<DocSpec>,
    },
}
impl Delivered {
    pub fn class(&self) -> String {
        match self {
            Delivered::Transport => "transport".into(),
            Delivered::Timeout => "timeout".into(),
            Delivered::User => "user".into(),
            Delivered::Reply { status, authentic, etag_kind, .. } => {
                format!("reply{}{}", status, if *authentic { String::new() } else { format!("-{}", etag_kind) })
            }
        }
    }
}

#[derive(Clone, Debug, PartialEq)]
pub enum Ev {
    // --- policy
    PolicyNext { apps: Vec<AppSnap>, sched: SchedSnap, proto: ProtoSnap, answer: TimingSnap },
    PolicyCheckAllowed { apps: Vec<AppSnap>, sched: SchedSnap, proto: ProtoSnap, on_demand: bool, answer: Decision },
    PolicyCanStart { plan_id: String, answer: UpdDec },
    PolicyRebootAllowed { on_demand: bool, answer: bool },
    PolicyRebootNeeded { plan_id: String, answer: bool },
    // --- http
    HttpReq {
        idx: usize,
        uri: String,
        method: String,
        headers: Vec<(String, Vec<u8>)>,
        body: Vec<u8>,
        json: Value,
        kind: ReqKind,
        session: Option<String>,
        request_id: Option<String>,
    },
    HttpResp { idx: usize, delivered: Delivered },
    // --- timers
    TimerArm { id: usize, spec: TimerSpec },
    TimerFire { id: usize },
    TimerDrop { id: usize },
    // --- storage
    StorageGet { key: String, ty: &'static str, result: Option<Val> },
    StorageSet { key: String, value: Val, ok: bool },
    StorageRemove { key: String, ok: bool },
    Commit { ok: bool, snapshot: BTreeMap<String, Val> },
    // --- installer
    PlanCreate {
        params: ParamsSnap,
        meta: Option<MetaSnap>,
        response: Box<omaha_client::protocol::response::Response>,
        bytes: Vec<u8>,
        signature: Option<Vec<u8>>,
        answer: Result<String, String>,
    },
    InstallStart { plan_id: String },
    ProgressSent(u32),
    ProgressReturned(u32),
    InstallDone { results: Vec<InstRes> },
    Reboot,
    // --- metrics
    Metric(MetricSnap),
    // --- stream
    PollStart,
    PollEnd,
    Taken(EvSnap),
    /// After taking an event the observer could not get a lock it shares with the machine.
    ObserverBlocked { on: &'static str },
    /// At the end of a poll: a timer armed during that poll whose future was never polled (a timer implementation
    /// that starts counting on first poll is not running).
    TimerNotStarted { id: usize },
    /// The embedder changed the id of the system app in place (channel change).
    EmbedderRename { to: String },
    /// An embedder task held the storage lock for a step, then the app-set lock, and released both.
    EmbedderTouched,
    StreamEnd,
    // --- control
    CtlSend { req: usize, handle: usize, on_demand: bool },
    CtlReply { req: usize, reply: String, lo: u64, hi: u64 },
    /// The caller dropped the request's future before a reply arrived (the request itself may still be taken).
    CtlAbandon { req: usize },
    HandleDrop { handle: usize },
    // --- driver
    GateRelease { id: usize, kind: String, had_waker: bool, wake_before: usize },
    Clock { wall: i128, mono: i128 },
    /// A TimeSource read (only logged when the clock auto-ticks).
    ClockRead { wall: i128, mono: i128 },
    Crash { at: u64 },
    Restart,
    Built,
    Note(String),
}

#[derive(Clone, Debug)]
pub struct Rec {
    pub seq: u64,
    pub poll: u32,
    /// Virtual clock when the entry was logged.
    pub wall: i128,
    pub mono: i128,
    pub ev: Ev,
}

// ---------------------------------------------------------------------------------------------
// Gates

#[derive(Clone, Copy, Debug, PartialEq, Eq)]
pub enum GateState {
    Pending,
    Released,
    Consumed,
    Dropped,
}

#[derive(Clone, Debug, PartialEq)]
pub enum GateKind {
    Timer(TimerSpec),
    Http(usize),
    Policy(&'static str),
    Plan,
    Install(&'static str),
    Reboot,
}
impl GateKind {
    pub fn label(&self) -> String {
        match self {
            GateKind::Timer(TimerSpec::For(d)) => format!("timer-for-{}ms", d / 1_000_000),
            GateKind::Timer(TimerSpec::Until(_)) => "timer-until".into(),
            GateKind::Http(_) => "http".into(),
            GateKind::Policy(p) => format!("policy-{}", p),
            GateKind::Plan => "plan".into(),
            GateKind::Install(s) => format!("install-{}", s),
            GateKind::Reboot => "reboot".into(),
        }
    }
}

pub struct GateSlot {
    pub id: usize,
    pub kind: GateKind,
    pub state: GateState,
    pub waker: Option<Waker>,
    pub armed_wall: i128,
    pub armed_mono: i128,
    pub created_seq: u64,
}

// ---------------------------------------------------------------------------------------------
// Storage state

#[derive(Clone, Debug, Default)]
pub struct FaultPlan {
    /// Indices (in order of mutating operations: set/remove/commit) that fail.
    pub fail_ops: Vec<u64>,
    pub fail_all: bool,
    /// Keys whose every set / remove fails (a backend that cannot write one particular entry).
    pub fail_keys: Vec<String>,
    /// If set, `fail_keys` only apply to mutating operations with index in [from, to) (a transient fault).
    pub fail_keys_window: Option<(u64, u64)>,
    /// If set, `fail_keys` only apply while update check number k (0-based, in order of first request) is the
    /// most recent one.
    pub fail_keys_during_check: Option<usize>,
    /// The n-th commit attempt (0-based, counted over the whole run) fails.
    pub fail_commit_nth: Vec<u64>,
}

#[derive(Default)]
pub struct StorageState {
    pub committed: BTreeMap<String, Val>,
    /// Overlay: Some(v) = pending set, None = pending removal.
    pub pending: BTreeMap<String, Option<Val>>,
    pub fault: FaultPlan,
    pub mut_ops: u64,
    pub commits: u64,
    pub commit_attempts: u64,
    /// Every committed snapshot, in order (index 0 = preload).
    pub history: Vec<BTreeMap<String, Val>>,
}
impl StorageState {
    pub fn read(&self, key: &str) -> Option<Val> {
        match self.pending.get(key) {
            Some(Some(v)) => Some(v.clone()),
            Some(None) => None,
            None => self.committed.get(key).cloned(),
        }
    }
    pub fn next_op_fails(&mut self) -> bool {
        let i = self.mut_ops;
        self.mut_ops += 1;
        self.fault.fail_all || self.fault.fail_ops.contains(&i)
    }
    pub fn next_commit_fails(&mut self) -> bool {
        let n = self.commit_attempts;
        self.commit_attempts += 1;
        let f = self.next_op_fails();
        f || self.fault.fail_commit_nth.contains(&n)
    }
    pub fn next_key_op_fails(&mut self, key: &str, checks_started: usize) -> bool {
        let i = self.mut_ops;
        let f = self.next_op_fails();
        let in_window = self.fault.fail_keys_window.map(|(a, b)| i >= a && i < b).unwrap_or(true)
            && self.fault.fail_keys_during_check.map(|k| checks_started == k + 1).unwrap_or(true);
        f || (in_window && self.fault.fail_keys.iter().any(|k| k == key))
    }
    pub fn apply_commit(&mut self) {
        let pend = std::mem::take(&mut self.pending);
        for (k, v) in pend {
            match v {
                Some(v) => {
                    self.committed.insert(k, v);
                }
                None => {
                    self.committed.remove(&k);
                }
            }
        }
        self.commits += 1;
        self.history.push(self.committed.clone());
    }
}

// ---------------------------------------------------------------------------------------------
// Environment script (what the doubles answer)

#[derive(Clone, Debug, PartialEq)]
pub enum TimeKind {
    Wall,
    Mono,
    Both,
}
#[derive(Clone, Debug, PartialEq)]
pub struct TimingSpec {
    pub kind: TimeKind,
    pub offset_s: u64,
    pub min_wait_s: Option<u64>,
    /// Answer exactly what the previous question was answered (a policy computing "last check + interval"
    /// returns the same instant until something changes); falls back to the spec for the first question.
    pub same_as_previous: bool,
}
impl Default for TimingSpec {
    fn default() -> Self {
        TimingSpec { kind: TimeKind::Both, offset_s: 3600, min_wait_s: None, same_as_previous: false }
    }
}

#[derive(Clone, Debug, PartialEq)]
pub enum EtagSpec {
    /// Authentic if a CUP key is configured for the request's key id, otherwise none.
    Auto,
    Absent,
    Raw(Vec<u8>),
    /// Authentic signature with one bit flipped.
    FlipSig,
    /// Hash half correct, signature by a key the client does not know.
    ForeignKey,
    /// Signed with digest composed for a different key id.
    WrongKeyId,
    /// Correct signature over a different response body.
    OtherBody,
    /// Replay (ETag + body + status + headers) of the n-th earlier genuine reply of this run.
    Replay(usize),
    /// Correct request hash, garbage signature bytes.
    HashOnly,
    /// Correctly composed digest (the request's own key id and nonce) signed by ANOTHER key of the client's key
    /// set (e.g. a retired key whose private half leaked): not the key the request named.
    OtherHeldKey,
}
impl EtagSpec {
    pub fn label(&self) -> &'static str {
        match self {
            EtagSpec::Auto => "authentic",
            EtagSpec::Absent => "absent",
            EtagSpec::Raw(_) => "garbage",
            EtagSpec::FlipSig => "flipsig",
            EtagSpec::ForeignKey => "foreignkey",
            EtagSpec::WrongKeyId => "wrongkeyid",
            EtagSpec::OtherBody => "otherbody",
            EtagSpec::Replay(_) => "replay",
            EtagSpec::HashOnly => "hashonly",
            EtagSpec::OtherHeldKey => "otherheldkey",
        }
    }
}

#[derive(Clone, Debug, PartialEq)]
pub struct UcSpec {
    pub status: String,
    /// Some(v): manifest present with version v (+ minimal actions/packages); None: no manifest.
    pub manifest_version: Option<String>,
    pub codebases: Vec<String>,
    pub packages: Vec<String>,
    pub urgent: bool,
}
impl UcSpec {
    pub fn ok(version: Option<&str>) -> Self {
        UcSpec {
            status: "ok".into(),
            manifest_version: version.map(|s| s.to_string()),
            codebases: vec!["http://pkg.example/".into()],
            packages: vec!["pkg".into()],
            urgent: false,
        }
    }
    pub fn status(s: &str) -> Self {
        UcSpec { status: s.into(), manifest_version: None, codebases: vec![], packages: vec![], urgent: false }
    }
}

#[derive(Clone, Debug, PartialEq)]
pub struct DocApp {
    pub id: String,
    pub status: String,
    /// None = attribute absent; Some("") = present and empty.
    pub cohort: [Option<String>; 3],
    pub updatecheck: Option<UcSpec>,
}

#[derive(Clone, Debug, PartialEq)]
pub struct DocSpec {
    /// None: no daystart; Some(None): daystart without elapsed_days; Some(Some(n)).
    pub daystart: Option<Option<u32>>,
    pub apps: Vec<DocApp>,
    /// Benign framing of the rendered bytes: bit 0 = XSSI guard `)]}'\n` in front, bit 1 = trailing whitespace.
    pub wrap: u8,
}

#[derive(Clone, Debug, PartialEq)]
pub enum BodySpec {
    Doc(DocSpec),
    Raw(Vec<u8>),
    /// Acknowledge: every app of the request with status ok (what a server answers to events/pings).
    Ack { daystart: Option<Option<u32>>, cohort: [Option<String>; 3] },
    /// No-update answer for every app of the request.
    NoUpdateAll,
}

#[derive(Clone, Debug, PartialEq)]
pub struct ReplySpec {
    pub status: u16,
    pub headers: Vec<(String, Vec<u8>)>,
    pub body: BodySpec,
    pub etag: EtagSpec,
}
impl ReplySpec {
    pub fn ok(body: BodySpec) -> Self {
        ReplySpec { status: 200, headers: vec![], body, etag: EtagSpec::Auto }
    }
    pub fn status(code: u16) -> Self {
        ReplySpec { status: code, headers: vec![], body: BodySpec::Raw(vec![]), etag: EtagSpec::Auto }
    }
    pub fn with_retry_after(mut self, v: &[u8]) -> Self {
        self.headers.push(("X-Retry-After".into(), v.to_vec()));
        self
    }
    pub fn with_etag(mut self, e: EtagSpec) -> Self {
        self.etag = e;
        self
    }
}

#[derive(Clone, Debug, PartialEq)]
pub enum RespSpec {
    Transport,
    Timeout,
    User,
    Reply(ReplySpec),
}
impl RespSpec {
    pub fn noupdate() -> Self {
        RespSpec::Reply(ReplySpec::ok(BodySpec::NoUpdateAll))
    }
    pub fn ack() -> Self {
        RespSpec::Reply(ReplySpec::ok(BodySpec::Ack { daystart: None, cohort: [None, None, None] }))
    }
    pub fn label(&self) -> String {
        match self {
            RespSpec::Transport => "transport".into(),
            RespSpec::Timeout => "timeout".into(),
            RespSpec::User => "user".into(),
            RespSpec::Reply(r) => {
                let body = match &r.body {
                    BodySpec::Doc(_) => "doc",
                    BodySpec::Raw(_) => "raw",
                    BodySpec::Ack { .. } => "ack",
                    BodySpec::NoUpdateAll => "noupdate",
                };
                let ra = r.headers.iter().any(|h| h.0.eq_ignore_ascii_case("x-retry-after"));
                format!("{}{}-{}-{}", r.status, if ra { "+ra" } else { "" }, body, r.etag.label())
            }
        }
    }
}

#[derive(Clone, Debug, PartialEq)]
pub struct CheckScript {
    pub attempts: Vec<RespSpec>,
    pub reports: Vec<RespSpec>,
    pub plan_ok: bool,
    pub plan_id: String,
    pub progress: Vec<f32>,
    pub results: Vec<InstRes>,
    pub can_start: UpdDec,
    pub reboot_needed: bool,
    /// answers to reboot_allowed during this check's reboot wait, by call; exhausted => true
    pub reboot_allowed: Vec<bool>,
    /// The installer hands its LAST progress value over (creates the report future and polls it once)
    /// but does not wait for the observer before finishing.
    pub detach_last_progress: bool,
    /// the installer never waits for a progress report: every report future is polled once and dropped
    pub detach_all_progress: bool,
    /// perform_reboot returns an error (the device did not reboot)
    pub reboot_fails: bool,
    /// The clocks are stepped by (wall ns, mono ns) while the install runs (a time sync arriving during the
    /// download), just before the installer returns.
    pub install_clock_step: Option<(i128, i128)>,
}
impl Default for CheckScript {
    fn default() -> Self {
        CheckScript {
            attempts: vec![],
            reports: vec![],
            plan_ok: true,
            plan_id: "plan-1".into(),
            progress: vec![],
            results: vec![],
            can_start: UpdDec::Ok,
            reboot_needed: false,
            reboot_allowed: vec![],
            detach_last_progress: false,
            detach_all_progress: false,
            reboot_fails: false,
            install_clock_step: None,
        }
    }
}

#[derive(Clone, Debug, Default, PartialEq)]
pub struct GateCfg {
    pub policy: bool,
    pub plan: bool,
    pub install: bool,
    pub reboot: bool,
}

#[derive(Clone, Debug, Default, PartialEq)]
pub struct Script {
    pub timings: Vec<TimingSpec>,
    pub decisions: Vec<Decision>,
    pub checks: Vec<CheckScript>,
    pub pings: Vec<RespSpec>,
    pub gated: GateCfg,
    pub metrics_fail: bool,
    /// When a check's scripted attempts are exhausted: repeat the last one forever instead of
    /// answering "no update" (a server that never recovers).
    pub repeat_last_attempt: bool,
    /// A timer implementation that completes `wait_until` at once when asked to (the bound counts as already
    /// reached); `wait_for` timers stay gates.  Switched on by a check at a moment of its choosing.
    pub until_timers_ready: bool,
    /// (http request index, delta ns): the wall clock (only) is stepped by delta while that request is in flight
    /// (a time sync, possibly backwards); applied when the answer is delivered
    pub http_wall_steps: Vec<(usize, i128)>,
}

// ---------------------------------------------------------------------------------------------
// World

pub struct World {
    pub log: Vec<Rec>,
    pub seq: u64,
    pub cur_poll: u32,
    /// pending environment futures polled since the current poll of the state machine began (livelock watchdog)
    pub pending_polls_in_poll: u64,
    pub in_poll: bool,
    pub gates: Vec<GateSlot>,
    pub wall_ns: i128,
    pub mono_ns: i128,
    pub storage: StorageState,
    pub script: Script,
    pub interactions: u64,
    pub crash_at: Option<u64>,
    pub crashed: bool,
    // counters for script lookup
    pub n_next: usize,
    pub last_timing: Option<(Pct, Option<u64>)>,
    pub n_allowed: usize,
    pub reboot_allowed_calls: BTreeMap<usize, usize>,
    pub n_http: usize,
    pub n_plan: usize,
    pub n_install: usize,
    pub sessions: Vec<String>, // update-check sessions in order of first appearance
    pub uc_attempts: Vec<usize>,
    pub reports_seen: Vec<usize>,
    pub n_pings: usize,
    /// Genuine (authentic) replies delivered so far, for replay forgeries: (status, headers, body).
    pub genuine: Vec<(u16, Vec<(String, Vec<u8>)>, Vec<u8>)>,
    pub cup: Option<crate::sim::omaha::ServerKeys>,
    pub nonces: Vec<String>,
    /// If non-zero every TimeSource read advances both clocks by this much (time passes while
    /// the machine computes) and is logged.
    pub autotick_ns: i128,
    /// C17: answer HTTP requests with the in-process mock-omaha-server instead of FakeOmaha.
    pub mock: Option<Arc<tokio::sync::Mutex<mock_omaha_server::OmahaServer>>>,
    /// C17: public keys the client is configured with (overrides the FakeOmaha signer's keys).
    pub client_keys: Option<omaha_client::cup_ecdsa::PublicKeys>,
}

impl World {
    pub fn new(script: Script) -> W {
        Arc::new(Mutex::new(World {
            log: Vec::with_capacity(256),
            seq: 0,
            cur_poll: 0,
            pending_polls_in_poll: 0,
            in_poll: false,
            gates: vec![],
            wall_ns: 1_700_000_000_000_000_000, // 2023-11-14
            mono_ns: 5_000_000_000,
            storage: StorageState::default(),
            script,
            interactions: 0,
            crash_at: None,
            crashed: false,
            n_next: 0,
            last_timing: None,
            n_allowed: 0,
            reboot_allowed_calls: BTreeMap::new(),
            n_http: 0,
            n_plan: 0,
            n_install: 0,
            sessions: vec![],
            uc_attempts: vec![],
            reports_seen: vec![],
            n_pings: 0,
            genuine: vec![],
            cup: None,
            nonces: vec![],
            autotick_ns: 0,
            mock: None,
            client_keys: None,
        }))
    }

    pub fn push(&mut self, ev: Ev) -> u64 {
        self.seq += 1;
        let poll = if self.in_poll { self.cur_poll } else { 0 };
        self.log.push(Rec { seq: self.seq, poll, wall: self.wall_ns, mono: self.mono_ns, ev });
        self.seq
    }

    /// Count one boundary interaction; returns true if the process "dies" exactly here.
    pub fn interact(&mut self) -> bool {
        if self.crashed {
            return true;
        }
        let i = self.interactions;
        self.interactions += 1;
        if self.crash_at == Some(i) {
            self.crashed = true;
            self.push(Ev::Crash { at: i });
            return true;
        }
        false
    }

    pub fn new_gate(&mut self, kind: GateKind) -> usize {
        let id = self.gates.len();
        self.gates.push(GateSlot {
            id,
            kind,
            state: GateState::Pending,
            waker: None,
            armed_wall: self.wall_ns,
            armed_mono: self.mono_ns,
            created_seq: self.seq,
        });
        id
    }

    pub fn pending_gates(&self) -> Vec<usize> {
        self.gates.iter().filter(|g| g.state == GateState::Pending).map(|g| g.id).collect()
    }

    /// One TimeSource read.
    pub fn read_clock(&mut self) -> (i128, i128) {
        if self.autotick_ns != 0 && !self.crashed {
            self.wall_ns += self.autotick_ns;
            self.mono_ns += self.autotick_ns;
            let (wall, mono) = (self.wall_ns, self.mono_ns);
            self.push(Ev::ClockRead { wall, mono });
        }
        (self.wall_ns, self.mono_ns)
    }

    pub fn advance(&mut self, d_ns: i128) {
        self.wall_ns += d_ns;
        self.mono_ns += d_ns;
    }
}

pub fn pick<T: Clone>(xs: &[T], i: usize, default: T) -> T {
    if xs.is_empty() {
        default
    } else if i < xs.len() {
        xs[i].clone()
    } else {
        xs[xs.len() - 1].clone()
    }
}
