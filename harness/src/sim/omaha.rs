//! FakeOmaha: a reactive server model.  Classifies each request by an independent JSON walk,
//! looks the scripted outcome up by (kind, per-kind counters) and renders the reply, including
//! an authentic or forged CUP ETag produced by a signer the library never sees.

use super::world::*;
use p256::ecdsa::{signature::Signer, Signature, SigningKey, VerifyingKey};
use serde_json::{json, Map, Value};
use sha2::{Digest, Sha256};

#[derive(Clone)]
pub struct ServerKeys {
    /// (id, signing key); index 0 is the "latest" key the client decorates with.
    pub keys: Vec<(u64, SigningKey)>,
    /// A key the client does not know.
    pub foreign: SigningKey,
}

pub fn signing_key_from_seed(rng: &mut crate::common::Rng) -> SigningKey {
    loop {
        let b = rng.bytes(32);
        if let Ok(k) = SigningKey::from_bytes(&b) {
            return k;
        }
    }
}

impl ServerKeys {
    pub fn generate(rng: &mut crate::common::Rng, ids: &[u64]) -> Self {
        ServerKeys {
            keys: ids.iter().map(|id| (*id, signing_key_from_seed(rng))).collect(),
            foreign: signing_key_from_seed(rng),
        }
    }
    pub fn public_keys(&self) -> omaha_client::cup_ecdsa::PublicKeys {
        use omaha_client::cup_ecdsa::{PublicKeyAndId, PublicKeys};
        let mk = |(id, k): &(u64, SigningKey)| PublicKeyAndId { id: *id, key: VerifyingKey::from(k) };
        PublicKeys { latest: mk(&self.keys[0]), historical: self.keys[1..].iter().map(mk).collect() }
    }
    pub fn find(&self, id: u64) -> Option<&SigningKey> {
        self.keys.iter().find(|k| k.0 == id).map(|k| &k.1)
    }
}

/// SHA256( SHA256(req) || SHA256(resp) || "<id>:<nonce>" ), composed here with sha2 directly.
pub fn transaction_digest(req: &[u8], resp: &[u8], cup2key: &str) -> Vec<u8> {
    let a = Sha256::digest(req);
    let b = Sha256::digest(resp);
    let mut h = Sha256::new();
    h.update(a);
    h.update(b);
    h.update(cup2key.as_bytes());
    h.finalize().to_vec()
}

pub fn sign_etag(key: &SigningKey, req: &[u8], resp: &[u8], cup2key: &str) -> (Vec<u8>, String) {
    let digest = transaction_digest(req, resp, cup2key);
    let sig: Signature = key.sign(&digest);
    let der = sig.to_der();
    let der_bytes = der.as_bytes().to_vec();
    let etag = format!("{}:{}", hex::encode(&der_bytes), hex::encode(Sha256::digest(req)));
    (der_bytes, etag)
}

/// Independent classification of a request body.
pub fn classify(json: &Value) -> ReqKind {
    let apps = match json.get("request").and_then(|r| r.get("app")).and_then(|a| a.as_array()) {
        Some(a) => a,
        None => return ReqKind::Other,
    };
    if apps.iter().any(|a| a.get("updatecheck").is_some()) {
        ReqKind::UpdateCheck
    } else if apps.iter().any(|a| a.get("event").is_some()) {
        ReqKind::Event
    } else if apps.iter().any(|a| a.get("ping").is_some()) {
        ReqKind::Ping
    } else {
        ReqKind::Other
    }
}

pub fn req_str(json: &Value, key: &str) -> Option<String> {
    json.get("request").and_then(|r| r.get(key)).and_then(|v| v.as_str()).map(|s| s.to_string())
}

pub fn req_app_ids(json: &Value) -> Vec<String> {
    json.get("request")
        .and_then(|r| r.get("app"))
        .and_then(|a| a.as_array())
        .map(|a| {
            a.iter()
                .filter_map(|x| x.get("appid").and_then(|v| v.as_str()).map(|s| s.to_string()))
                .collect()
        })
        .unwrap_or_default()
}

/// Extract `cup2key` value from a URI string (string-level, not via http::Uri).
pub fn cup2key_of(uri: &str) -> Option<String> {
    let q = uri.split_once('?')?.1;
    let q = q.split('#').next().unwrap_or(q);
    let mut found = None;
    for pair in q.split('&') {
        if let Some(v) = pair.strip_prefix("cup2key=") {
            found = Some(v.to_string());
        }
    }
    found
}

pub fn render_doc(doc: &DocSpec) -> Vec<u8> {
    let mut resp = Map::new();
    resp.insert("protocol".into(), json!("3.0"));
    resp.insert("server".into(), json!("prod"));
    if let Some(ds) = &doc.daystart {
        let mut m = Map::new();
        m.insert("elapsed_seconds".into(), json!(1234));
        if let Some(d) = ds {
            m.insert("elapsed_days".into(), json!(d));
        }
        resp.insert("daystart".into(), Value::Object(m));
    }
    let apps: Vec<Value> = doc.apps.iter().map(render_app).collect();
    resp.insert("app".into(), Value::Array(apps));
    let body = serde_json::to_vec(&json!({ "response": Value::Object(resp) })).unwrap();
    let mut out = vec![];
    if doc.wrap & 1 != 0 {
        out.extend_from_slice(b")]}'\n");
    }
    out.extend_from_slice(&body);
    if doc.wrap & 2 != 0 {
        out.extend_from_slice(b" \n\t\r\n");
    }
    out
}

fn render_app(a: &DocApp) -> Value {
    let mut m = Map::new();
    m.insert("appid".into(), json!(a.id));
    m.insert("status".into(), json!(a.status));
    for (k, v) in ["cohort", "cohorthint", "cohortname"].iter().zip(a.cohort.iter()) {
        if let Some(v) = v {
            m.insert((*k).into(), json!(v));
        }
    }
    if let Some(uc) = &a.updatecheck {
        let mut u = Map::new();
        u.insert("status".into(), json!(uc.status));
        if !uc.codebases.is_empty() {
            let urls: Vec<Value> = uc.codebases.iter().map(|c| json!({ "codebase": c })).collect();
            u.insert("urls".into(), json!({ "url": urls }));
        }
        if let Some(v) = &uc.manifest_version {
            let pk: Vec<Value> =
                uc.packages.iter().map(|p| json!({"name": p, "required": true, "fp": "1.fp"})).collect();
            u.insert(
                "manifest".into(),
                json!({
                    "version": v,
                    "actions": {"action": [{"event": "install", "run": "pkg"}, {"event": "postinstall"}]},
                    "packages": {"package": pk}
                }),
            );
        }
        if uc.urgent {
            u.insert("_urgent_update".into(), json!(true));
        }
        m.insert("updatecheck".into(), Value::Object(u));
    }
    Value::Object(m)
}

pub fn render_body(body: &BodySpec, req_json: &Value) -> (Vec<u8>, Option<DocSpec>) {
    let doc = match body {
        BodySpec::Raw(b) => return (b.clone(), None),
        BodySpec::Doc(d) => d.clone(),
        BodySpec::Ack { daystart, cohort } => {
            let apps = req_app_ids(req_json)
                .into_iter()
                .map(|id| DocApp { id, status: "ok".into(), cohort: cohort.clone(), updatecheck: None })
                .collect();
            DocSpec { daystart: *daystart, apps, wrap: 0 }
        }
        BodySpec::NoUpdateAll => {
            let apps = req_app_ids(req_json)
                .into_iter()
                .map(|id| DocApp {
                    id,
                    status: "ok".into(),
                    cohort: [None, None, None],
                    updatecheck: Some(UcSpec::status("noupdate")),
                })
                .collect();
            DocSpec { daystart: None, apps, wrap: 0 }
        }
    };
    (render_doc(&doc), Some(doc))
}

/// Decide and render the outcome of request `idx`.  Called with the world locked.
pub fn answer(w: &mut World, uri: &str, body: &[u8], json: &Value, kind: ReqKind, session: &Option<String>) -> Delivered {
    // --- look up the scripted outcome
    let spec: RespSpec = match kind {
        ReqKind::UpdateCheck => {
            let s = session.clone().unwrap_or_default();
            let ci = match w.sessions.iter().position(|x| *x == s) {
                Some(i) => i,
                None => {
                    w.sessions.push(s);
                    w.uc_attempts.push(0);
                    w.reports_seen.push(0);
                    w.sessions.len() - 1
                }
            };
            let k = w.uc_attempts[ci];
            w.uc_attempts[ci] += 1;
            let repeat = w.script.repeat_last_attempt;
            w.script
                .checks
                .get(ci)
                .and_then(|c| c.attempts.get(k).cloned().or_else(|| if repeat { c.attempts.last().cloned() } else { None }))
                .unwrap_or_else(RespSpec::noupdate)
        }
        ReqKind::Event => {
            let s = session.clone().unwrap_or_default();
            match w.sessions.iter().position(|x| *x == s) {
                Some(ci) => {
                    let k = w.reports_seen[ci];
                    w.reports_seen[ci] += 1;
                    w.script.checks.get(ci).and_then(|c| c.reports.get(k).cloned()).unwrap_or_else(RespSpec::ack)
                }
                None => RespSpec::ack(),
            }
        }
        ReqKind::Ping => {
            let k = w.n_pings;
            w.n_pings += 1;
            w.script.pings.get(k).cloned().unwrap_or_else(RespSpec::ack)
        }
        ReqKind::Other => {
            // a request naming no app (e.g. the report after an offer for an unknown app only): inside a check's
            // session it takes the next scripted report outcome, anything else is not answered
            let s = session.clone().unwrap_or_default();
            match w.sessions.iter().position(|x| *x == s) {
                Some(ci) if json.get("request").and_then(|r| r.get("app")).and_then(|a| a.as_array()).map(|a| a.is_empty()).unwrap_or(false) => {
                    let k = w.reports_seen[ci];
                    w.reports_seen[ci] += 1;
                    w.script.checks.get(ci).and_then(|c| c.reports.get(k).cloned()).unwrap_or_else(RespSpec::ack)
                }
                _ => RespSpec::Transport,
            }
        }
    };
    let reply = match spec {
        RespSpec::Transport => return Delivered::Transport,
        RespSpec::Timeout => return Delivered::Timeout,
        RespSpec::User => return Delivered::User,
        RespSpec::Reply(r) => r,
    };
    let mut status = reply.status;
    let mut headers = reply.headers.clone();
    let (mut rbody, doc) = render_body(&reply.body, json);
    let cup2key = cup2key_of(uri);
    let key_id: Option<u64> = cup2key.as_ref().and_then(|c| c.split_once(':')).and_then(|(i, _)| i.parse().ok());
    let cup_on = w.cup.is_some() && cup2key.is_some();
    let mut authentic = false;
    let mut kind_label = if cup_on { reply.etag.label().to_string() } else { "nocup".to_string() };
    let mut etag: Option<Vec<u8>> = None;
    if let (Some(keys), Some(c2k)) = (w.cup.clone(), cup2key.clone()) {
        let good_key = key_id.and_then(|id| keys.find(id).cloned());
        match &reply.etag {
            EtagSpec::Auto => {
                if let Some(k) = &good_key {
                    etag = Some(sign_etag(k, body, &rbody, &c2k).1.into_bytes());
                    authentic = true;
                } else {
                    kind_label = "unknownkey".into();
                }
            }
            EtagSpec::Absent => {}
            EtagSpec::Raw(b) => etag = Some(b.clone()),
            EtagSpec::FlipSig => {
                if let Some(k) = &good_key {
                    let (mut der, _) = sign_etag(k, body, &rbody, &c2k);
                    let n = der.len();
                    der[n - 3] ^= 0x10;
                    etag = Some(format!("{}:{}", hex::encode(der), hex::encode(Sha256::digest(body))).into_bytes());
                }
            }
            EtagSpec::ForeignKey => {
                etag = Some(sign_etag(&keys.foreign, body, &rbody, &c2k).1.into_bytes());
            }
            EtagSpec::WrongKeyId => {
                if let Some(k) = &good_key {
                    let nonce = c2k.split_once(':').map(|x| x.1).unwrap_or("");
                    let other = format!("{}:{}", key_id.unwrap_or(0).wrapping_add(1), nonce);
                    etag = Some(sign_etag(k, body, &rbody, &other).1.into_bytes());
                }
            }
            EtagSpec::OtherBody => {
                if let Some(k) = &good_key {
                    let mut other = rbody.clone();
                    other.extend_from_slice(b" ");
                    etag = Some(sign_etag(k, body, &other, &c2k).1.into_bytes());
                }
            }
            EtagSpec::HashOnly => {
                etag = Some(format!("3006020101020101:{}", hex::encode(Sha256::digest(body))).into_bytes());
            }
            EtagSpec::OtherHeldKey => {
                let other = keys.keys.iter().find(|k| Some(k.0) != key_id).map(|k| &k.1).unwrap_or(&keys.foreign);
                etag = Some(sign_etag(other, body, &rbody, &c2k).1.into_bytes());
            }
            EtagSpec::Replay(n) => {
                if !w.genuine.is_empty() {
                    let g = &w.genuine[*n % w.genuine.len()];
                    status = g.0;
                    headers = g.1.clone();
                    rbody = g.2.clone();
                    // the genuine reply's headers already include its ETag
                    return Delivered::Reply { status, headers, body: rbody, authentic: false, etag_kind: "replay".into(), doc: None };
                } else {
                    kind_label = "absent".into();
                }
            }
        }
    } else if let EtagSpec::Raw(b) = &reply.etag {
        etag = Some(b.clone());
    }
    if let Some(e) = etag {
        headers.push(("ETag".into(), e));
    }
    if authentic {
        w.genuine.push((status, headers.clone(), rbody.clone()));
    }
    if w.cup.is_none() {
        // without CUP every reply counts as "authentic" for the monitors
        authentic = true;
    } else if cup2key.is_none() {
        // the client is configured for CUP but sent an exchange the server cannot authenticate: nothing
        // answered to it is authentic (a client accepting it accepts a forgeable reply)
        authentic = false;
        kind_label = "no-cup2key".into();
    }
    Delivered::Reply { status, headers, body: rbody, authentic, etag_kind: kind_label, doc }
}
