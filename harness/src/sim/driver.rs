//! The deterministic executor: owns the event stream, one root waker (wake counter), the control
//! handles and the futures of outstanding control requests.  It decides at every real suspension
//! point what happens next (poll, release a gate, issue a control request, crash).

use super::doubles::*;
use super::world::*;
use crate::common::{Fnv, Rng};
use futures::lock::Mutex as AMutex;
use futures::prelude::*;
use futures::task::{waker, ArcWake};
use omaha_client::app_set::AppSet;
use omaha_client::common::{App, CheckOptions, UserCounting};
use omaha_client::configuration::{Config, Updater};
use omaha_client::cup_ecdsa::StandardCupv2Handler;
use omaha_client::protocol::request::{InstallSource, OS};
use omaha_client::protocol::Cohort;
use omaha_client::state_machine::{
    update_check, ControlHandle, StartUpdateCheckResponse, State, StateMachineBuilder, StateMachineEvent,
    StateMachineGone,
};
use omaha_client::version::Version;
use std::pin::Pin;
use std::rc::Rc;
use std::sync::atomic::{AtomicUsize, Ordering};
use std::sync::Arc;
use std::task::{Context, Poll};

/// Pending once (waking itself), then ready: "one scheduling step later".
struct YieldOnce(bool);
impl Future for YieldOnce {
    type Output = ();
    fn poll(mut self: Pin<&mut Self>, cx: &mut Context<'_>) -> Poll<()> {
        if self.0 {
            Poll::Ready(())
        } else {
            self.0 = true;
            cx.waker().wake_by_ref();
            Poll::Pending
        }
    }
}

/// The embedder's app set: like the library's VecAppSet, but the system app need not be the first one.
pub struct SimAppSet {
    pub apps: Vec<App>,
    pub system_idx: usize,
    /// Some: every call is delegated to the library's own VecAppSet (only when the system app is the first one),
    /// so that the library's implementation stays under test as well
    pub lib: Option<omaha_client::app_set::VecAppSet>,
}
impl AppSet for SimAppSet {
    fn get_apps(&self) -> Vec<App> {
        match &self.lib {
            Some(v) => v.get_apps(),
            None => self.apps.clone(),
        }
    }
    fn iter_mut_apps(&mut self) -> Box<dyn Iterator<Item = &mut App> + '_> {
        match &mut self.lib {
            Some(v) => v.iter_mut_apps(),
            None => Box::new(self.apps.iter_mut()),
        }
    }
    fn get_system_app_id(&self) -> &str {
        match &self.lib {
            Some(v) => v.get_system_app_id(),
            None => &self.apps[self.system_idx.min(self.apps.len() - 1)].id,
        }
    }
}

pub struct WakeCounter(pub AtomicUsize);
impl ArcWake for WakeCounter {
    fn wake_by_ref(a: &Arc<Self>) {
        a.0.fetch_add(1, Ordering::SeqCst);
    }
}
impl WakeCounter {
    pub fn count(&self) -> usize {
        self.0.load(Ordering::SeqCst)
    }
}

#[derive(Clone, Debug, PartialEq)]
pub struct AppSpec {
    pub id: String,
    pub version: [u32; 4],
    pub cohort: [Option<String>; 3],
    pub day: Option<u32>,
    pub fingerprint: Option<String>,
    /// Embedder-defined extra attributes sent with the app (values may be empty).
    pub extra: Vec<(String, String)>,
}
impl AppSpec {
    pub fn new(id: &str, version: [u32; 4]) -> Self {
        AppSpec { id: id.into(), version, cohort: [None, None, None], day: None, fingerprint: None, extra: vec![] }
    }
    pub fn to_app(&self) -> App {
        let mut a = App::builder().id(self.id.clone()).version(Version::from(self.version)).build();
        a.cohort = Cohort { id: self.cohort[0].clone(), hint: self.cohort[1].clone(), name: self.cohort[2].clone() };
        a.user_counting = UserCounting::ClientRegulatedByDate(self.day);
        a.fingerprint = self.fingerprint.clone();
        a.extra_fields = self.extra.iter().cloned().collect();
        a
    }
    pub fn version_string(&self) -> String {
        format!("{}.{}.{}.{}", self.version[0], self.version[1], self.version[2], self.version[3])
    }
}

#[derive(Clone, Debug, PartialEq)]
pub struct Setup {
    pub service_url: String,
    pub apps: Vec<AppSpec>,
    pub os_version: String,
    pub cup: bool,
    /// true: StateMachineBuilder::start(); false: oneshot_check()
    pub start_mode: bool,
    /// false: a CUP handler is supplied but Config::omaha_public_keys (informational) stays None
    pub keys_in_config: bool,
    /// Which sequence of StateMachineBuilder calls configures the machine (all equivalent by the API):
    /// 0 = everything through new(); 1 = new(placeholder config, Some(handler)).config(real);
    /// 2 = new(real config, None).cup_handler(handler); 3 = new(placeholder, None).config(real).cup_handler(handler);
    /// 4 = new(placeholder, None).cup_handler(handler).config(real).
    pub builder_order: u8,
    /// which app of the set the embedder's AppSet names as the system app (the library's VecAppSet: the first)
    pub system_idx: usize,
}
impl Default for Setup {
    fn default() -> Self {
        Setup {
            service_url: "https://omaha.example/service/update2/json".into(),
            apps: vec![AppSpec::new("{app-1}", [1, 2, 3, 4])],
            os_version: "7.7.7".into(),
            cup: false,
            start_mode: false,
            keys_in_config: true,
            builder_order: 0,
            system_idx: 0,
        }
    }
}

pub fn client_public_keys(w: &W) -> Option<omaha_client::cup_ecdsa::PublicKeys> {
    let g = lock(w);
    g.client_keys.clone().or_else(|| g.cup.as_ref().filter(|k| !k.keys.is_empty()).map(|k| k.public_keys()))
}

pub fn make_config(s: &Setup, w: &W) -> Config {
    Config {
        updater: Updater { name: "verif-updater".into(), version: Version::from([0, 9, 1, 2]) },
        os: OS {
            platform: "simos".into(),
            version: s.os_version.clone(),
            service_pack: "sp1".into(),
            arch: "sim64".into(),
        },
        service_url: s.service_url.clone(),
        omaha_public_keys: if s.keys_in_config { client_public_keys(w) } else { None },
    }
}

type EvStream = Pin<Box<dyn Stream<Item = StateMachineEvent>>>;
type CtlFut = Pin<Box<dyn Future<Output = Result<StartUpdateCheckResponse, StateMachineGone>>>>;

struct Ctl {
    req: usize,
    fut: Option<CtlFut>,
    sent_seq: u64,
}

#[derive(Clone, Copy, Debug, PartialEq, Eq)]
pub enum Sched {
    Fifo,
    Lifo,
    Random,
}

pub struct Driver {
    pub w: W,
    stream: Option<EvStream>,
    pub handles: Vec<Option<ControlHandle>>,
    ctl: Vec<Ctl>,
    pub n_ctl: usize,
    pub root: Arc<WakeCounter>,
    pub ctl_wake: Arc<WakeCounter>,
    seen_root: usize,
    pub ended: bool,
    pub steps: u64,
    pub max_steps: u64,
    pub taken: Vec<(u64, EvSnap)>,
    pub sig: Fnv,
    pub lost_wakes: Vec<String>,
    pub tick_ns: i128,
    pub panicked: Option<crate::common::PanicInfo>,
    pub setup: Setup,
    /// the app set shared with the machine (the observer looks at it between polls, as an embedder would)
    app_set: Option<Rc<AMutex<SimAppSet>>>,
    storage_rc: Option<Rc<AMutex<SimStorage>>>,
    /// 0 = off; otherwise every run-loop iteration starts, with chance 1/n, an embedder task that takes the
    /// shared storage lock, keeps it for one scheduling step, takes the app-set lock (the library's own
    /// order) and releases both.
    pub embedder_rate: u64,
    /// run(): drop every control handle once this many scheduling rounds have passed
    pub drop_handles_after: Option<u64>,
    /// (n, on_demand): right after the observer took the n-th event (1-based), before the machine is polled
    /// again, a control request is sent (a request that arrives while the machine is parked on an emission)
    pub ctl_on_emission: Vec<(usize, bool)>,
    rounds: u64,
    embedder: Option<Pin<Box<dyn Future<Output = ()>>>>,
    pub embedder_touches: u64,
    /// strict-wake: poll the stream only when the root waker fired since the last poll.
    pub strict: bool,
    pub out_of_steps: bool,
}

pub fn snap_event(ev: &StateMachineEvent) -> EvSnap {
    match ev {
        StateMachineEvent::StateChange(s) => EvSnap::State(match s {
            State::Idle => StateSnap::Idle,
            State::CheckingForUpdates(src) => StateSnap::Checking(*src == InstallSource::OnDemand),
            State::ErrorCheckingForUpdate => StateSnap::ErrorChecking,
            State::NoUpdateAvailable => StateSnap::NoUpdate,
            State::InstallationDeferredByPolicy => StateSnap::Deferred,
            State::InstallingUpdate => StateSnap::Installing,
            State::WaitingForReboot => StateSnap::WaitingForReboot,
            State::InstallationError => StateSnap::InstallationError,
        }),
        StateMachineEvent::ScheduleChange(s) => EvSnap::Schedule(SchedSnap::of(s)),
        StateMachineEvent::ProtocolStateChange(p) => EvSnap::Proto(ProtoSnap::of(p)),
        StateMachineEvent::UpdateCheckResult(r) => EvSnap::Result(match r {
            Ok(resp) => Ok(resp
                .app_responses
                .iter()
                .map(|a| {
                    let UserCounting::ClientRegulatedByDate(day) = a.user_counting.clone();
                    AppRespSnap {
                        app_id: a.app_id.clone(),
                        cohort: [a.cohort.id.clone(), a.cohort.hint.clone(), a.cohort.name.clone()],
                        day,
                        action: match a.result {
                            update_check::Action::NoUpdate => "NoUpdate",
                            update_check::Action::DeferredByPolicy => "DeferredByPolicy",
                            update_check::Action::DeniedByPolicy => "DeniedByPolicy",
                            update_check::Action::InstallPlanExecutionError => "InstallPlanExecutionError",
                            update_check::Action::Updated => "Updated",
                        }
                        .to_string(),
                    }
                })
                .collect()),
            Err(e) => Err(format!("{:?}", e).lines().next().unwrap_or("").chars().take(200).collect()),
        }),
        StateMachineEvent::InstallProgressChange(p) => EvSnap::Progress(p.progress.to_bits()),
        StateMachineEvent::OmahaServerResponse(r) => EvSnap::Response(Box::new(r.clone())),
        StateMachineEvent::InstallerError(e) => {
            EvSnap::InstallerError(e.as_ref().map(|e| e.to_string()).unwrap_or_default())
        }
    }
}

impl Driver {
    /// Build a state machine on the world (initial start or restart after a crash).
    pub fn new(w: &W, setup: &Setup) -> Driver {
        let root = Arc::new(WakeCounter(AtomicUsize::new(1)));
        let mut d = Driver {
            w: w.clone(),
            stream: None,
            handles: vec![],
            ctl: vec![],
            n_ctl: 0,
            root,
            ctl_wake: Arc::new(WakeCounter(AtomicUsize::new(0))),
            seen_root: 0,
            ended: false,
            steps: 0,
            max_steps: 20_000,
            taken: vec![],
            sig: Fnv::new(),
            lost_wakes: vec![],
            tick_ns: 1_000_000_000,
            panicked: None,
            setup: setup.clone(),
            app_set: None,
            storage_rc: None,
            embedder_rate: 0,
            drop_handles_after: None,
            ctl_on_emission: vec![],
            rounds: 0,
            embedder: None,
            embedder_touches: 0,
            strict: true,
            out_of_steps: false,
        };
        d.build();
        d
    }

    fn build(&mut self) {
        let w = &self.w;
        let setup = self.setup.clone();
        let config = make_config(&setup, w);
        let mk_cup = || if setup.cup { client_public_keys(w).as_ref().map(StandardCupv2Handler::new) } else { None };
        let cup = mk_cup();
        let apps: Vec<App> = setup.apps.iter().map(|a| a.to_app()).collect();
        // half of the setups whose system app is the first one run on the library's VecAppSet (chosen by a hash of
        // the app ids so that a restart of the same setup makes the same choice)
        let use_lib = setup.system_idx == 0 && !apps.is_empty() && apps.iter().map(|a| a.id.len() + a.id.bytes().map(|b| b as usize).sum::<usize>()).sum::<usize>() % 2 == 0;
        let lib = if use_lib { Some(omaha_client::app_set::VecAppSet::new(apps.clone())) } else { None };
        let app_set = Rc::new(AMutex::new(SimAppSet { apps, system_idx: setup.system_idx, lib }));
        self.app_set = Some(app_set.clone());
        let storage = Rc::new(AMutex::new(SimStorage { w: w.clone() }));
        self.storage_rc = Some(storage.clone());
        let order = setup.builder_order;
        let placeholder = Config {
            updater: Updater { name: "placeholder".into(), version: Version::from([0]) },
            os: OS::default(),
            service_url: "http://placeholder.invalid/".into(),
            omaha_public_keys: None,
        };
        let (cfg0, cup0) = match order {
            1 => (placeholder, mk_cup()),
            2 => (config.clone(), None),
            3 | 4 => (placeholder, None),
            _ => (config.clone(), mk_cup()),
        };
        let builder = StateMachineBuilder::new(
            SimPolicy { w: w.clone(), clock: SimClock { w: w.clone() } },
            SimHttp { w: w.clone() },
            SimInstaller { w: w.clone() },
            SimTimer { w: w.clone() },
            SimMetrics { w: w.clone() },
            storage,
            cfg0,
            app_set,
            cup0,
        );
        let builder = match order {
            1 => builder.config(config),
            2 => builder.cup_handler(cup),
            3 => builder.config(config).cup_handler(cup),
            4 => builder.cup_handler(cup).config(config),
            _ => builder,
        };
        let wk = waker(self.root.clone());
        let mut cx = Context::from_waker(&wk);
        let res = crate::common::guard(|| {
            if setup.start_mode {
                let mut fut = Box::pin(builder.start());
                match fut.as_mut().poll(&mut cx) {
                    Poll::Ready((h, s)) => Some((Some(h), Box::pin(s) as EvStream)),
                    Poll::Pending => None,
                }
            } else {
                let mut fut = Box::pin(builder.oneshot_check());
                match fut.as_mut().poll(&mut cx) {
                    Poll::Ready(s) => Some((None, Box::pin(s) as EvStream)),
                    Poll::Pending => None,
                }
            }
        });
        match res {
            Ok(Some((h, s))) => {
                self.stream = Some(s);
                if let Some(h) = h {
                    self.handles.push(Some(h));
                }
                lock(w).push(Ev::Built);
            }
            Ok(None) => {
                // only possible when a crash was injected during start-up
                self.stream = None;
            }
            Err(p) => {
                self.panicked = Some(p);
                self.stream = None;
            }
        }
    }

    /// Embedder action between polls: a channel change that comes with a different Omaha app id for the
    /// system (first) app, applied in place through AppSet::iter_mut_apps().
    pub fn rename_system_app(&mut self, channel: &str, to: &str) -> bool {
        let Some(a) = &self.app_set else { return false };
        let Some(mut g) = a.try_lock() else { return false };
        let idx = g.system_idx;
        if let Some(app) = g.iter_mut_apps().nth(idx) {
            app.set_target_channel(Some(channel.to_string()), Some(to.to_string()));
        }
        drop(g);
        lock(&self.w).push(Ev::EmbedderRename { to: to.to_string() });
        true
    }

    /// Embedder action between polls: make app `idx` invalid in place (empty id and / or version 0).
    pub fn invalidate_app(&mut self, idx: usize, empty_id: bool, zero_version: bool) -> bool {
        let Some(a) = &self.app_set else { return false };
        let Some(mut g) = a.try_lock() else { return false };
        if let Some(app) = g.iter_mut_apps().nth(idx) {
            if empty_id {
                app.id = String::new();
            }
            if zero_version {
                app.version = Version::from([0]);
            }
        }
        drop(g);
        lock(&self.w).push(Ev::Note("app invalidated by the embedder".into()));
        true
    }

    pub fn crashed(&self) -> bool {
        lock(&self.w).crashed
    }
    pub fn alive(&self) -> bool {
        self.stream.is_some() && !self.ended
    }

    pub fn woken(&self) -> bool {
        self.root.count() != self.seen_root
    }

    /// One poll of the event stream, followed by a poll of every pending control future.
    pub fn poll_stream(&mut self) {
        let lo = lock(&self.w).seq;
        let taken_before = self.taken.len();
        if let Some(stream) = self.stream.as_mut() {
            self.seen_root = self.root.count();
            {
                let mut g = lock(&self.w);
                g.cur_poll += 1;
                g.in_poll = true;
                g.pending_polls_in_poll = 0;
                g.push(Ev::PollStart);
            }
            let wk = waker(self.root.clone());
            let mut cx = Context::from_waker(&wk);
            let r = crate::common::guard(|| stream.as_mut().poll_next(&mut cx));
            let mut g = lock(&self.w);
            match r {
                Ok(Poll::Ready(Some(ev))) => {
                    let crashed_before = g.crashed;
                    // delivery of an event to the observer is itself an interaction (crash point)
                    if !crashed_before && !g.interact() {
                        let snap = snap_event(&ev);
                        let seq = g.push(Ev::Taken(snap.clone()));
                        self.taken.push((seq, snap));
                        self.sig.str("T");
                        // an observer that reads the shared app set before it polls again: if the machine
                        // holds the lock while parked on this emission, such an observer deadlocks with it
                        if let Some(a) = &self.app_set {
                            if a.try_lock().is_none() {
                                g.push(Ev::ObserverBlocked { on: "app_set" });
                            }
                        }
                        if self.embedder.is_none() {
                            if let Some(st) = &self.storage_rc {
                                if st.try_lock().is_none() {
                                    g.push(Ev::ObserverBlocked { on: "storage" });
                                }
                            }
                        }
                    }
                }
                Ok(Poll::Ready(None)) => {
                    if !g.crashed {
                        g.push(Ev::StreamEnd);
                    }
                    self.ended = true;
                    self.sig.str("E");
                }
                Ok(Poll::Pending) => {
                    self.sig.str("P");
                }
                Err(p) => {
                    self.panicked = Some(p);
                    self.ended = true;
                }
            }
            // a timer that was armed during this poll but whose future has not been polled yet is not running for
            // an implementation that starts its clock on first poll
            // (judged only when the machine is actually waiting on timers: some pending timer has been polled)
            let waiting_on_timers = g.gates.iter().any(|x| x.state == GateState::Pending && x.waker.is_some() && matches!(x.kind, GateKind::Timer(_)));
            let unstarted: Vec<usize> = if !waiting_on_timers {
                vec![]
            } else {
                g.gates
                    .iter()
                    .filter(|x| x.state == GateState::Pending && x.waker.is_none() && matches!(x.kind, GateKind::Timer(_)))
                    .map(|x| x.id)
                    .collect()
            };
            for id in unstarted {
                g.push(Ev::TimerNotStarted { id });
            }
            g.push(Ev::PollEnd);
            g.in_poll = false;
            drop(g);
            self.steps += 1;
            if self.panicked.is_some() {
                // a panicking task must not be polled again
                self.stream = None;
            }
        }
        self.poll_ctl(lo);
        if self.crashed() {
            self.teardown();
        }
        if self.taken.len() > taken_before && !self.ctl_on_emission.is_empty() {
            let n = self.taken.len();
            if let Some(p) = self.ctl_on_emission.iter().position(|x| x.0 == n) {
                let (_, od) = self.ctl_on_emission.remove(p);
                if self.alive() {
                    self.sig.str("ce");
                    self.send_control(0, od);
                }
            }
        }
    }

    /// Poll pending control futures; replies are stamped with the interval [lo, now].
    pub fn poll_ctl(&mut self, lo: u64) {
        let wk = waker(self.ctl_wake.clone());
        let mut cx = Context::from_waker(&wk);
        for c in self.ctl.iter_mut() {
            if let Some(f) = c.fut.as_mut() {
                if let Poll::Ready(r) = f.as_mut().poll(&mut cx) {
                    c.fut = None;
                    let reply = match r {
                        Ok(StartUpdateCheckResponse::Started) => "Started",
                        Ok(StartUpdateCheckResponse::AlreadyRunning) => "AlreadyRunning",
                        Ok(StartUpdateCheckResponse::Throttled) => "Throttled",
                        Err(StateMachineGone) => "Gone",
                    };
                    let mut g = lock(&self.w);
                    let hi = g.seq;
                    g.push(Ev::CtlReply { req: c.req, reply: reply.into(), lo: lo.max(c.sent_seq), hi });
                    self.sig.str("R");
                }
            }
        }
    }

    pub fn pending_ctl(&self) -> Vec<usize> {
        self.ctl.iter().filter(|c| c.fut.is_some()).map(|c| c.req).collect()
    }

    /// Poll the stream while it has been woken (run to quiescence).
    pub fn settle(&mut self) {
        loop {
            if self.stream.is_none() || self.ended {
                let now_seq = lock(&self.w).seq;
                self.poll_ctl(now_seq);
                break;
            }
            if self.strict && !self.woken() {
                break;
            }
            if !self.strict && !self.woken() {
                break;
            }
            if self.steps >= self.max_steps {
                self.out_of_steps = true;
                break;
            }
            self.poll_stream();
        }
    }

    /// A poll the waker did not ask for.
    pub fn spurious_poll(&mut self) {
        if self.alive() && self.steps < self.max_steps {
            self.sig.str("S");
            let seen = self.seen_root;
            self.poll_stream();
            // a spurious poll must not hide a pending wake-up
            if self.root.count() != seen && self.seen_root == seen {
                self.seen_root = seen;
            }
        }
    }

    pub fn pending_gates(&self) -> Vec<usize> {
        lock(&self.w).pending_gates()
    }
    pub fn gate_kind(&self, id: usize) -> GateKind {
        lock(&self.w).gates[id].kind.clone()
    }

    /// Release gate `id` (fire the timer / complete the exchange / answer the question).
    pub fn release(&mut self, id: usize) -> bool {
        let (wk, kind, had_waker, before) = {
            let mut g = lock(&self.w);
            if g.gates[id].state != GateState::Pending {
                return false;
            }
            // advance the virtual clock so that the awaited bound has been reached
            let (aw, am, kind) = (g.gates[id].armed_wall, g.gates[id].armed_mono, g.gates[id].kind.clone());
            let _ = aw;
            let delta: i128 = match &kind {
                GateKind::Timer(TimerSpec::For(d)) => (am + *d as i128 - g.mono_ns).max(0),
                GateKind::Timer(TimerSpec::Until(p)) => {
                    let dw = p.wall().map(|x| x - g.wall_ns);
                    let dm = p.mono().map(|x| x - g.mono_ns);
                    match (dw, dm) {
                        (Some(a), Some(b)) => a.min(b).max(0),
                        (Some(a), None) => a.max(0),
                        (None, Some(b)) => b.max(0),
                        (None, None) => 0,
                    }
                }
                _ => self.tick_ns,
            };
            g.advance(delta);
            g.gates[id].state = GateState::Released;
            let wk = g.gates[id].waker.take();
            let before = self.root.count();
            let had_waker = wk.is_some();
            g.push(Ev::GateRelease { id, kind: kind.label(), had_waker, wake_before: before });
            if let GateKind::Timer(_) = kind {
                g.push(Ev::TimerFire { id });
            }
            (wk, kind, had_waker, before)
        };
        self.sig.str(&kind.label());
        if let Some(wk) = wk {
            wk.wake();
        }
        if had_waker && self.root.count() == before && self.alive() {
            self.lost_wakes.push(format!("gate {} ({}) released: root waker not woken", id, kind.label()));
        }
        true
    }

    /// Issue a start_update_check from (a clone of) handle `h`.
    pub fn send_control(&mut self, h: usize, on_demand: bool) -> Option<usize> {
        let handle = self.handles.get(h).and_then(|x| x.as_ref())?.clone();
        Some(self.send_with(handle, h, on_demand))
    }

    pub fn send_with(&mut self, mut handle: ControlHandle, h: usize, on_demand: bool) -> usize {
        let req = self.n_ctl;
        self.n_ctl += 1;
        let opts = CheckOptions {
            source: if on_demand { InstallSource::OnDemand } else { InstallSource::ScheduledTask },
        };
        let fut: CtlFut = Box::pin(async move { handle.start_update_check(opts).await });
        let sent_seq = lock(&self.w).push(Ev::CtlSend { req, handle: h, on_demand });
        self.ctl.push(Ctl { req, fut: Some(fut), sent_seq });
        self.sig.str(if on_demand { "Cd" } else { "Cs" });
        // first poll performs the channel send
        self.poll_ctl(sent_seq);
        req
    }

    /// An embedder that gives up on a request (drops its future after the first poll, e.g. a timeout while
    /// the stream is polled lazily) and then asks again through the *same* handle object.
    pub fn abandon_and_resend(&mut self, h: usize, od_first: bool, od_second: bool) -> Option<(usize, usize)> {
        let mut handle = self.handles.get_mut(h).and_then(|x| x.take())?;
        self.handles[h] = Some(handle.clone());
        let opt = |od: bool| CheckOptions { source: if od { InstallSource::OnDemand } else { InstallSource::ScheduledTask } };
        let req1 = self.n_ctl;
        self.n_ctl += 1;
        let sent1 = lock(&self.w).push(Ev::CtlSend { req: req1, handle: h, on_demand: od_first });
        let resolved = {
            let wk = waker(self.ctl_wake.clone());
            let mut cx = Context::from_waker(&wk);
            let mut fut = Box::pin(handle.start_update_check(opt(od_first)));
            match fut.as_mut().poll(&mut cx) {
                Poll::Ready(r) => Some(r),
                Poll::Pending => None,
            }
            // the future is dropped here: the request is abandoned
        };
        match resolved {
            Some(r) => {
                let reply = match r {
                    Ok(StartUpdateCheckResponse::Started) => "Started",
                    Ok(StartUpdateCheckResponse::AlreadyRunning) => "AlreadyRunning",
                    Ok(StartUpdateCheckResponse::Throttled) => "Throttled",
                    Err(_) => "Gone",
                };
                let mut g = lock(&self.w);
                let hi = g.seq;
                g.push(Ev::CtlReply { req: req1, reply: reply.to_string(), lo: sent1, hi });
            }
            None => {
                lock(&self.w).push(Ev::CtlAbandon { req: req1 });
            }
        }
        self.sig.str("Ca");
        let req2 = self.send_with(handle, h, od_second);
        Some((req1, req2))
    }

    /// A request whose caller gives up right after sending it (future polled once, then dropped).
    pub fn send_and_abandon(&mut self, h: usize, on_demand: bool) -> Option<usize> {
        let mut handle = self.handles.get(h).and_then(|x| x.as_ref())?.clone();
        let req = self.n_ctl;
        self.n_ctl += 1;
        let sent = lock(&self.w).push(Ev::CtlSend { req, handle: h, on_demand });
        let opts = CheckOptions { source: if on_demand { InstallSource::OnDemand } else { InstallSource::ScheduledTask } };
        let resolved = {
            let wk = waker(self.ctl_wake.clone());
            let mut cx = Context::from_waker(&wk);
            let mut fut = Box::pin(handle.start_update_check(opts));
            fut.as_mut().poll(&mut cx).is_ready()
        };
        let _ = sent;
        if !resolved {
            lock(&self.w).push(Ev::CtlAbandon { req });
        }
        self.sig.str("Cx");
        Some(req)
    }

    pub fn clone_handle(&mut self, h: usize) -> Option<usize> {
        let c = self.handles.get(h).and_then(|x| x.as_ref())?.clone();
        self.handles.push(Some(c));
        Some(self.handles.len() - 1)
    }
    pub fn take_handle(&mut self, h: usize) -> Option<ControlHandle> {
        self.handles.get_mut(h).and_then(|x| x.take())
    }
    pub fn drop_handle(&mut self, h: usize) {
        if let Some(x) = self.handles.get_mut(h) {
            if x.take().is_some() {
                lock(&self.w).push(Ev::HandleDrop { handle: h });
                self.sig.str("Hd");
            }
        }
    }

    /// Drop the state machine (stream) but keep control handles: "the machine is gone".
    pub fn drop_stream(&mut self) {
        self.stream = None;
        self.ended = true;
        lock(&self.w).push(Ev::Note("stream dropped".into()));
        let now_seq = lock(&self.w).seq;
                self.poll_ctl(now_seq);
    }

    /// Process death: everything in memory is gone, the storage overlay is discarded.
    pub fn teardown(&mut self) {
        self.embedder = None;
        self.stream = None;
        self.ctl.clear();
        self.handles.clear();
        self.ended = true;
        let mut g = lock(&self.w);
        g.storage.pending.clear();
    }

    /// Crash right now (between polls).
    pub fn crash_now(&mut self) {
        {
            let mut g = lock(&self.w);
            let at = g.interactions;
            g.crashed = true;
            g.push(Ev::Crash { at });
        }
        self.teardown();
    }

    /// Restart on the surviving storage with a (possibly different) embedder setup.
    pub fn restart(w: &W, setup: &Setup) -> Driver {
        {
            let mut g = lock(w);
            g.crashed = false;
            g.crash_at = None;
            g.storage.pending.clear();
            g.push(Ev::Restart);
        }
        Driver::new(w, setup)
    }

    /// Restart, keeping a crash point that was armed (relative to now) for the new incarnation.
    pub fn restart_keep_crash(w: &W, setup: &Setup) -> Driver {
        let armed = lock(w).crash_at;
        {
            let mut g = lock(w);
            g.crashed = false;
            g.storage.pending.clear();
            g.push(Ev::Restart);
            g.crash_at = armed;
        }
        Driver::new(w, setup)
    }

    /// One step of the embedder task (started with chance 1/embedder_rate when none is running).  Returns
    /// true if the task was polled.
    fn step_embedder(&mut self, rng: &mut Rng) -> bool {
        if self.embedder_rate == 0 || !self.alive() {
            return false;
        }
        if self.embedder.is_none() {
            if !rng.chance(1, self.embedder_rate) {
                return false;
            }
            let (Some(st), Some(ap)) = (self.storage_rc.clone(), self.app_set.clone()) else { return false };
            let w = self.w.clone();
            // two kinds of embedder action: storage, one step, app set (the library's order); or just the app
            // set, kept for one step (e.g. a channel change being applied)
            let only_app_set = rng.bool();
            self.embedder = Some(Box::pin(async move {
                if only_app_set {
                    let a = ap.lock().await;
                    YieldOnce(false).await;
                    lock(&w).push(Ev::EmbedderTouched);
                    drop(a);
                } else {
                    let s = st.lock().await;
                    YieldOnce(false).await;
                    let a = ap.lock().await;
                    lock(&w).push(Ev::EmbedderTouched);
                    drop(a);
                    drop(s);
                }
            }));
        }
        let wk = futures::task::noop_waker();
        let mut cx = Context::from_waker(&wk);
        if let Some(f) = self.embedder.as_mut() {
            if f.as_mut().poll(&mut cx).is_ready() {
                self.embedder = None;
                self.embedder_touches += 1;
            }
        }
        true
    }

    /// Default flow runner: settle, then release one pending gate chosen by `sched`, until `stop`
    /// says so, the stream ends, nothing can happen any more, or the step budget is exhausted.
    pub fn run(&mut self, sched: Sched, rng: &mut Rng, mut stop: impl FnMut(&Driver) -> bool) -> RunEnd {
        loop {
            self.settle();
            self.rounds += 1;
            if self.drop_handles_after.map(|n| self.rounds > n).unwrap_or(false) {
                self.drop_handles_after = None;
                for h in 0..self.handles.len() {
                    self.drop_handle(h);
                }
                self.settle();
            }
            if self.step_embedder(rng) {
                self.settle();
            }
            if self.panicked.is_some() {
                return RunEnd::Panicked;
            }
            if self.crashed() {
                return RunEnd::Crashed;
            }
            if self.ended {
                return RunEnd::Ended;
            }
            if self.out_of_steps {
                return RunEnd::OutOfSteps;
            }
            if stop(self) {
                return RunEnd::Stopped;
            }
            let gates = self.pending_gates();
            if gates.is_empty() {
                if self.embedder.is_some() {
                    // nothing else can happen: give the embedder task its remaining steps
                    let mut progressed = false;
                    for _ in 0..4 {
                        let before = self.embedder_touches;
                        let mut none = Rng::new(0);
                        self.step_embedder(&mut none);
                        self.settle();
                        if self.embedder.is_none() || self.embedder_touches != before || !self.pending_gates().is_empty() {
                            progressed = true;
                            break;
                        }
                    }
                    if progressed {
                        continue;
                    }
                    // machine and embedder wait for each other's lock, nothing else is pending
                    lock(&self.w).push(Ev::ObserverBlocked { on: "deadlock-with-embedder" });
                }
                return RunEnd::Blocked;
            }
            let g = match sched {
                Sched::Fifo => gates[0],
                Sched::Lifo => gates[gates.len() - 1],
                Sched::Random => gates[rng.usize(gates.len())],
            };
            self.release(g);
        }
    }

    pub fn count_state(&self, s: &StateSnap) -> usize {
        self.taken.iter().filter(|(_, e)| matches!(e, EvSnap::State(x) if x == s)).count()
    }
    pub fn count_results(&self) -> usize {
        self.taken.iter().filter(|(_, e)| matches!(e, EvSnap::Result(_))).count()
    }
}

#[derive(Clone, Copy, Debug, PartialEq, Eq)]
pub enum RunEnd {
    Ended,
    Stopped,
    Blocked,
    Crashed,
    Panicked,
    OutOfSteps,
}

pub fn dump_log(w: &W, max: usize) -> Vec<String> {
    let g = lock(w);
    let n = g.log.len();
    let skip = n.saturating_sub(max);
    g.log.iter().skip(skip).map(|r| render_rec(r)).collect()
}

pub fn render_rec(r: &Rec) -> String {
    let s = match &r.ev {
        Ev::HttpReq { idx, uri, kind, body, session, request_id, .. } => format!(
            "HttpReq#{} {:?} uri={} session={:?} requestid={:?} body={}",
            idx,
            kind,
            uri,
            session,
            request_id,
            String::from_utf8_lossy(&body[..body.len().min(700)])
        ),
        Ev::HttpResp { idx, delivered } => match delivered {
            Delivered::Reply { status, headers, body, authentic, etag_kind, .. } => format!(
                "HttpResp#{} status={} authentic={} etag={} headers={:?} body={}",
                idx,
                status,
                authentic,
                etag_kind,
                headers.iter().map(|(k, v)| format!("{}: {}", k, String::from_utf8_lossy(&v[..v.len().min(40)]))).collect::<Vec<_>>(),
                String::from_utf8_lossy(&body[..body.len().min(400)])
            ),
            d => format!("HttpResp#{} {:?}", idx, d),
        },
        Ev::PlanCreate { params, meta, answer, signature, bytes, .. } => format!(
            "PlanCreate params={:?} meta={} sig={} bytes={} answer={:?}",
            params,
            meta.as_ref().map(|m| format!("key={} nonce={} body_len={}", m.key_id, m.nonce_hex, m.body.len())).unwrap_or("none".into()),
            signature.as_ref().map(|s| s.len()).unwrap_or(0),
            bytes.len(),
            answer
        ),
        Ev::Taken(EvSnap::Response(_)) => "Taken(OmahaServerResponse)".to_string(),
        e => {
            let s = format!("{:?}", e);
            if s.len() > 600 {
                let cut = (0..=600).rev().find(|i| s.is_char_boundary(*i)).unwrap_or(0);
                format!("{}…", &s[..cut])
            } else {
                s
            }
        }
    };
    format!("{:>4} p{:<3} {}", r.seq, r.poll, s)
}
