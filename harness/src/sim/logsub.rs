//! A global formatting `tracing` subscriber: every event's fields are actually rendered
//! (as a deployment with logging enabled would do), so panics inside Display/Debug impls of
//! logged values are reachable.  Output goes to a counting sink.

use std::fmt::Write as _;
use std::sync::atomic::{AtomicU64, Ordering};
use tracing::field::{Field, Visit};
use tracing::span::{Attributes, Id, Record};
use tracing::{Event, Metadata, Subscriber};

pub static EVENTS: AtomicU64 = AtomicU64::new(0);
pub static BYTES: AtomicU64 = AtomicU64::new(0);

struct Sink;

struct V(String);
impl Visit for V {
    fn record_debug(&mut self, field: &Field, value: &dyn std::fmt::Debug) {
        let _ = write!(self.0, "{}={:?} ", field.name(), value);
    }
    fn record_str(&mut self, field: &Field, value: &str) {
        let _ = write!(self.0, "{}={} ", field.name(), value);
    }
}

impl Subscriber for Sink {
    fn enabled(&self, _: &Metadata<'_>) -> bool {
        true
    }
    fn new_span(&self, _: &Attributes<'_>) -> Id {
        Id::from_u64(1)
    }
    fn record(&self, _: &Id, _: &Record<'_>) {}
    fn record_follows_from(&self, _: &Id, _: &Id) {}
    fn event(&self, event: &Event<'_>) {
        let mut v = V(String::new());
        event.record(&mut v);
        EVENTS.fetch_add(1, Ordering::Relaxed);
        BYTES.fetch_add(v.0.len() as u64, Ordering::Relaxed);
    }
    fn enter(&self, _: &Id) {}
    fn exit(&self, _: &Id) {}
}

pub fn install() {
    let _ = tracing::subscriber::set_global_default(Sink);
}
